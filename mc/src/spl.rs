//! Shared cubic-spline exploration: build the real spline for (axis, boundary config, lanes),
//! sample it, and compare with (A) structural / end-condition residuals of the recovered
//! pieces and (B) the certified exact rational spline.

use ndarray::{Array1, Array2};

use crate::alpha::{self, Axis, Lane};
use crate::driver::{catch, JobOut};
use crate::fl::{vec_exact, Fl};
use crate::json::Json;
use crate::rat::Rat;
use crate::refm::{Cond, End, RefSpline};
use crate::subj::{build_spline, lanes_matrix, BcSpec};

#[derive(Clone, Copy, Debug)]
pub struct Want {
    /// C02: interpolation, one cubic per interval, C1, C2
    pub structural: bool,
    /// C03 oracle A: end-condition residuals
    pub ends: bool,
    /// C03 oracle B: compare every sample with the exact rational spline (n <= exact_max_n)
    pub exact: bool,
    pub exact_max_n: usize,
}

#[derive(Clone, Debug)]
pub struct SplineJob {
    pub axis: Axis,
    pub spec: BcSpec,
    /// sampling density per interval (4 or 8)
    pub den: u32,
    pub f32_too: bool,
    /// the implementation sees the axis (and the queries) multiplied by this power of two and
    /// the boundary derivative values converted accordingly; the reference stays unscaled
    pub xscale: f64,
    /// Periodic only: the last data value of every lane differs from the first by 2^-22 relative
    /// (data that "almost closes"). build() has to reject it (C10); should it be accepted, the
    /// result still has to be a C2 piecewise cubic through the given points (C02).
    pub nearly_closed: bool,
    /// lanes of wildly different magnitude in one data set: lane j is multiplied by 2^900, 2^-900 or 1
    /// (j mod 3). Only the per-lane structural statements are judged.
    pub lane_mix: bool,
}

impl SplineJob {
    pub fn key(&self) -> String {
        if self.lane_mix {
            format!("{}:{}:lanes-x-2^(900,-900,0)", self.axis.name, self.spec.name())
        } else if self.nearly_closed {
            format!("{}:{}:nearly-closed", self.axis.name, self.spec.name())
        } else if self.xscale == 1.0 {
            format!("{}:{}", self.axis.name, self.spec.name())
        } else {
            format!("{}*2^{}:{}", self.axis.name, self.xscale.log2(), self.spec.name())
        }
    }
}

/// rounding constant K for an axis (DESIGN.md 2.1)
pub fn k_for(axis: &Axis) -> f64 {
    if axis.mesh_ratio <= 8.0 {
        256.0
    } else {
        16384.0
    }
}

/// The boundary configurations of the alphabet for `nl` lanes.
/// the configurations whose derivative values are coarse dyadic numbers (exact in f32 and under the
/// unit conversions of C15)
pub fn bc_configs_coarse(nl: usize, n: usize) -> Vec<BcSpec> {
    let mut v = bc_configs(nl, n);
    v.pop();
    v
}

pub fn bc_configs(nl: usize, n: usize) -> Vec<BcSpec> {
    let mut v = vec![
        BcSpec::TopNotAKnot,
        BcSpec::TopNatural,
        BcSpec::TopClamped,
        BcSpec::Periodic,
        BcSpec::RowAll(End::NotAKnot),
        BcSpec::RowAll(End::Natural),
        BcSpec::RowAll(End::Clamped),
    ];
    for p in alpha::end_pairs() {
        v.push(BcSpec::Lanes(vec![p]));
    }
    // heterogeneous: lane j gets pair (j*7+3) mod 25 (a different condition per lane)
    let pairs = alpha::end_pairs();
    let het: Vec<_> = (0..nl.max(1)).map(|j| pairs[(j * 7 + 3) % 25]).collect();
    v.push(BcSpec::Lanes(het));
    // the same kinds on every lane but a different derivative value per lane
    let l = nl.max(1);
    v.push(BcSpec::Lanes((0..l).map(|j| (End::First(0.25 * (j % 7) as f64 - 0.75), End::First(0.5 - 0.125 * (j % 5) as f64))).collect()));
    v.push(BcSpec::Lanes((0..l).map(|j| (End::Second((j % 4) as f64 - 2.0), End::Second(0.5 * (j % 3) as f64 + 0.5))).collect()));
    v.push(BcSpec::Lanes((0..l).map(|j| (End::First(1.0 - 0.5 * (j % 4) as f64), End::Second(0.25 * (j % 6) as f64 - 0.5))).collect()));
    // derivative values that differ only far below single precision (2^-30 relative)
    let tiny = 2.0f64.powi(-30);
    v.push(BcSpec::Lanes((0..l).map(|j| (End::First(0.5 * (1.0 + tiny * (j % 3) as f64)), End::Second(-2.0 * (1.0 + tiny * (j % 4) as f64)))).collect()));
    let _ = n;
    v
}

/// recover (a, b) of the symmetric Hermite form on one interval from the samples at
/// t = 1/4 and t = 3/4:  S(t) = (1-t) y0 + t y1 + t (1-t) (a (1-t) + b t)
pub fn recover_ab(y0: f64, y1: f64, s14: f64, s34: f64) -> (f64, f64) {
    let r1 = s14 - (0.75 * y0 + 0.25 * y1);
    let r3 = s34 - (0.25 * y0 + 0.75 * y1);
    let a = 8.0 * r1 - (8.0 / 3.0) * r3;
    let b = 8.0 * r3 - (8.0 / 3.0) * r1;
    (a, b)
}

pub struct Piece {
    pub h: f64,
    pub y0: f64,
    pub y1: f64,
    pub a: f64,
    pub b: f64,
}

impl Piece {
    pub fn d1(&self, right: bool) -> f64 {
        let dy = self.y1 - self.y0;
        if right {
            (dy - self.b) / self.h
        } else {
            (dy + self.a) / self.h
        }
    }
    pub fn d2(&self, right: bool) -> f64 {
        if right {
            2.0 * (self.a - 2.0 * self.b) / (self.h * self.h)
        } else {
            2.0 * (self.b - 2.0 * self.a) / (self.h * self.h)
        }
    }
    pub fn d3(&self) -> f64 {
        6.0 * (self.a - self.b) / (self.h * self.h * self.h)
    }
    pub fn at(&self, t: f64) -> f64 {
        (1.0 - t) * self.y0 + t * self.y1 + t * (1.0 - t) * (self.a * (1.0 - t) + self.b * t)
    }
}

fn lanes_for(axis: &Axis, periodic: bool) -> Vec<Lane> {
    let l = alpha::lanes(&axis.x, axis.n() <= 8);
    if periodic {
        l.iter().map(alpha::close_periodic).collect()
    } else {
        l
    }
}

pub fn run_spline_job(job: &SplineJob, want: Want, out: &mut JobOut) {
    run_spline_job_t::<f64>(job, want, out);
    if job.f32_too && job.axis.mesh_ratio <= 8.0 {
        run_spline_job_t::<f32>(job, want, out);
    }
}

pub fn run_spline_job_t<T: Fl>(job: &SplineJob, want: Want, out: &mut JobOut) {
    let axis = &job.axis;
    let n = axis.n();
    let xs_scaled: Vec<f64> = axis.x.iter().map(|v| v * job.xscale).collect();
    let Some(xt) = vec_exact::<T>(&xs_scaled) else {
        return;
    };
    let Some(spec_impl) = crate::subj::spec_in_axis_units(&job.spec, job.xscale) else {
        return;
    };
    if [&spec_impl].iter().any(|s| match s {
        BcSpec::Lanes(v) => v.iter().any(|(l, r)| [l, r].iter().any(|e| match e {
            End::First(w) | End::Second(w) => T::from_f64_exact(*w).is_none(),
            _ => false,
        })),
        _ => false,
    }) {
        return;
    }
    let periodic = job.spec.is_periodic();
    let lanes: Vec<Lane> = lanes_for(axis, periodic)
        .into_iter()
        .map(|mut l| {
            if job.nearly_closed {
                let last = l.y.len() - 1;
                l.y[last] = l.y[0] + 2.0f64.powi(-22) * l.y[0].abs(); // (lanes starting at 0 stay closed: a purely relative tolerance would reject them)
                l.name = format!("{}+2^-22", l.name);
            }
            l
        })
        .enumerate()
        .map(|(j, mut l)| {
            if job.lane_mix {
                let e = [900, -900, 0][j % 3];
                for v in l.y.iter_mut() {
                    *v *= 2.0f64.powi(e);
                }
                l.name = format!("{}*2^{e}", l.name);
            }
            l
        })
        .filter(|l| vec_exact::<T>(&l.y).is_some() && l.y.iter().all(|v| v.is_finite()))
        .collect();
    if job.nearly_closed && (T::NAME == "f32" || !periodic) {
        return;
    }
    if job.lane_mix && T::NAME == "f32" {
        return;
    }
    let lt: Vec<Vec<T>> = lanes
        .iter()
        .map(|l| vec_exact::<T>(&l.y).unwrap())
        .collect();
    let nl = lanes.len();
    let data: Array2<T> = lanes_matrix(&lt);
    let key0 = format!("{}:{}", T::NAME, job.key());
    let k = k_for(axis);
    let eps = T::EPS;

    let interp = match catch(|| build_spline::<T, _>(&xt, data.clone(), &spec_impl, false)) {
        Ok(Ok(i)) => i,
        Ok(Err(_)) if job.nearly_closed => {
            // the documented answer (C10): nothing to examine
            out.count("nearly_closed_periodic_data_rejected_by_build", 1);
            return;
        }
        Ok(Err(e)) => {
            out.violate(
                format!("{key0}:build"),
                format!("build() of a valid spline configuration failed: {e}"),
                case_json::<T>(job, None, None),
            );
            return;
        }
        Err(p) => {
            out.violate(
                format!("{key0}:build"),
                format!("build() of a valid spline configuration panicked: {p}"),
                case_json::<T>(job, None, None),
            );
            return;
        }
    };
    out.states += 1;

    // queries: den samples per interval + last knot, computed exactly in f64 then converted
    let q64 = alpha::grid_queries(&axis.x, job.den);
    let q_scaled: Vec<f64> = q64.iter().map(|v| v * job.xscale).collect();
    let Some(qt) = vec_exact::<T>(&q_scaled) else {
        return;
    };
    let qarr = Array1::from(qt.clone());
    let res = match catch(|| interp.interp_array(&qarr)) {
        Ok(Ok(r)) => r,
        Ok(Err(e)) => {
            out.violate(
                format!("{key0}:query"),
                format!("in-range query rejected: {e}"),
                case_json::<T>(job, None, None),
            );
            return;
        }
        Err(p) => {
            out.violate(
                format!("{key0}:query"),
                format!("in-range query panicked: {p}"),
                case_json::<T>(job, None, None),
            );
            return;
        }
    };
    out.transitions += 1;
    // the same data in two other memory layouts (F order, lanes reversed in memory) must give
    // the same spline: the structural / exact oracles below then hold for them as well
    for (layout, d2) in crate::subj::layouts2(&data).into_iter().skip(1) {
        crate::subj::set_axis_reversed_in_memory(layout == "rev");
        let r2 = catch(|| build_spline::<T, _>(&xt, d2, &spec_impl, false).map(|ip| ip.interp_array(&qarr)));
        crate::subj::set_axis_reversed_in_memory(false);
        out.transitions += 1;
        // (within rounding only: bit-identity across layouts is C13's statement, not this one's)
        let same = match &r2 {
            Ok(Ok(Ok(r2))) => {
                let mut ok = true;
                for (j, lane) in lanes.iter().enumerate() {
                    let sc = lane.y.iter().fold(0.0f64, |m, v| m.max(v.abs())) * axis.mesh_ratio.max(1.0);
                    for qi in 0..qt.len() {
                        let (a, b) = (r2[[qi, j]].to_f64(), res[[qi, j]].to_f64());
                        if !((a - b).abs() <= 4.0 * k * eps * sc.max(b.abs())) && !(a.is_nan() && b.is_nan()) {
                            ok = false;
                        }
                    }
                }
                ok
            }
            _ => false,
        };
        if !same {
            out.violate(
                format!("{key0}:data-layout-{layout}"),
                format!("the spline built from the same data stored in layout '{layout}' differs from the one built from C-order data (or failed)"),
                case_json::<T>(job, None, None),
            );
        }
    }
    let den = job.den as usize;
    let s = |iv: usize, kk: usize, lane: usize| -> f64 { res[[iv * den + kk, lane]].to_f64() };

    for (j, lane) in lanes.iter().enumerate() {
        let cond = job.spec.cond(j);
        let lkey = format!("{key0}:{}", lane.name);
        // ---- pieces recovered from the implementation's samples
        let pieces: Vec<Piece> = (0..n - 1)
            .map(|i| {
                let y0 = lane.y[i];
                let y1 = lane.y[i + 1];
                let (a, b) = recover_ab(y0, y1, s(i, den / 4, j), s(i, 3 * den / 4, j));
                Piece {
                    h: axis.x[i + 1] - axis.x[i],
                    y0,
                    y1,
                    a,
                    b,
                }
            })
            .collect();
        let mut scale_a: f64 = 0.0;
        for p in &pieces {
            scale_a = scale_a
                .max(p.y0.abs())
                .max(p.y1.abs())
                .max(p.a.abs())
                .max(p.b.abs());
        }
        // the exact reference, when in reach
        let rs = if want.exact && n <= want.exact_max_n && !job.nearly_closed {
            let yr: Vec<Rat> = lane.y.iter().map(|&v| Rat::from_f64(v)).collect();
            // (fine-grained boundary values on wide-ratio axes can leave the i128 range: then only the
            // end-condition residuals are judged for this lane)
            let r = crate::driver::try_exact(|| RefSpline::solve(&axis.rat(), &yr, cond));
            if r.is_none() {
                out.count("exact_reference_outside_i128(end_residuals_only)", 1);
            }
            r
        } else {
            None
        };
        let scale = match &rs {
            Some(r) => crate::driver::try_exact(|| r.scale().to_f64()).unwrap_or(scale_a).max(f64::MIN_POSITIVE),
            None => scale_a.max(f64::MIN_POSITIVE),
        };
        let nontrivial_lane = lane.y.iter().any(|&v| v != lane.y[0]);

        if want.structural {
            let tol0 = k * eps * scale;
            let mut bad: Option<String> = None;
            for i in 0..n {
                // (i) interpolation
                let got = if i < n - 1 {
                    s(i, 0, j)
                } else {
                    s(n - 2, den, j)
                };
                let e = (got - lane.y[i]).abs();
                out.maximum("interp_err_over_eps_scale", e / (eps * scale));
                out.evals += 1;
                if !(e <= tol0) {
                    bad = Some(format!(
                        "S(x[{i}]) = {got:e} but the data point is {:e} (tol {tol0:e})",
                        lane.y[i]
                    ));
                    break;
                }
            }
            if bad.is_none() {
                // (ii) one cubic per interval: every other sample lies on the recovered cubic
                'outer: for (i, p) in pieces.iter().enumerate() {
                    for kk in 1..den {
                        if kk == den / 4 || kk == 3 * den / 4 {
                            continue;
                        }
                        let t = kk as f64 / den as f64;
                        let e = (s(i, kk, j) - p.at(t)).abs();
                        out.maximum("cubic_fit_err_over_eps_scale", e / (eps * scale));
                        out.evals += 1;
                        if !(e <= 32.0 * tol0) {
                            bad = Some(format!(
                                "interval {i} is not one cubic: sample at t={t} is {:e}, the cubic through the other samples gives {:e}",
                                s(i, kk, j),
                                p.at(t)
                            ));
                            break 'outer;
                        }
                    }
                }
            }
            if bad.is_none() {
                for i in 1..n - 1 {
                    let (l, r) = (&pieces[i - 1], &pieces[i]);
                    let hm = l.h.min(r.h);
                    let e1 = (l.d1(true) - r.d1(false)).abs();
                    let e2 = (l.d2(true) - r.d2(false)).abs();
                    // the jump is judged against the size of the curve near the knot (two pieces
                    // to either side), not against the largest coefficient of the whole axis: on a
                    // strongly graded axis those differ by the mesh ratio
                    let lo = i.saturating_sub(2);
                    let hi = (i + 2).min(n - 1);
                    let mut sc_loc = f64::MIN_POSITIVE;
                    for p in &pieces[lo..hi] {
                        sc_loc = sc_loc.max(p.y0.abs()).max(p.y1.abs()).max(p.a.abs()).max(p.b.abs());
                    }
                    let tol_loc = k * eps * sc_loc.min(scale);
                    let t1 = 64.0 * tol_loc / hm;
                    let t2 = 256.0 * tol_loc / (hm * hm);
                    out.maximum("d1_jump_over_tol", e1 / t1);
                    out.maximum("d2_jump_over_tol", e2 / t2);
                    out.evals += 2;
                    if !(e1 <= t1) {
                        bad = Some(format!(
                            "S' jumps at interior knot {i}: {:e} vs {:e}",
                            l.d1(true),
                            r.d1(false)
                        ));
                        break;
                    }
                    if !(e2 <= t2) {
                        bad = Some(format!(
                            "S'' jumps at interior knot {i}: {:e} vs {:e}",
                            l.d2(true),
                            r.d2(false)
                        ));
                        break;
                    }
                }
            }
            if nontrivial_lane {
                out.nontrivial += 1;
            }
            if let Some(w) = bad {
                out.violate(lkey.clone(), w, case_json::<T>(job, Some(lane), Some(cond)));
                continue;
            }
        }

        if want.ends {
            let tol0 = k * eps * scale;
            let m = n - 2; // last piece
            let mut bad: Option<String> = None;
            let mut chk = |name: &str, got: f64, want_v: f64, tol: f64, out: &mut JobOut| {
                let e = (got - want_v).abs();
                out.maximum("end_residual_over_tol", e / tol);
                out.evals += 1;
                if !(e <= tol) && bad.is_none() {
                    bad = Some(format!(
                        "{name}: got {got:e}, required {want_v:e} (tol {tol:e})"
                    ));
                }
            };
            match cond {
                Cond::Periodic => {
                    let hm = pieces[0].h.min(pieces[m].h);
                    chk(
                        "periodic S'(first) = S'(last)",
                        pieces[0].d1(false),
                        pieces[m].d1(true),
                        64.0 * tol0 / hm,
                        out,
                    );
                    chk(
                        "periodic S''(first) = S''(last)",
                        pieces[0].d2(false),
                        pieces[m].d2(true),
                        256.0 * tol0 / (hm * hm),
                        out,
                    );
                }
                Cond::Ends(l, r) => {
                    for (side, e) in [(false, l), (true, r)] {
                        let p = if side { &pieces[m] } else { &pieces[0] };
                        let nm = if side { "right" } else { "left" };
                        match e {
                            End::Natural => chk(
                                &format!("{nm} Natural S''=0"),
                                p.d2(side),
                                0.0,
                                256.0 * tol0 / (p.h * p.h),
                                out,
                            ),
                            End::Second(v) => chk(
                                &format!("{nm} SecondDeriv"),
                                p.d2(side),
                                v,
                                256.0 * (tol0 + k * eps * v.abs() * p.h * p.h) / (p.h * p.h),
                                out,
                            ),
                            End::Clamped => chk(
                                &format!("{nm} Clamped S'=0"),
                                p.d1(side),
                                0.0,
                                64.0 * tol0 / p.h,
                                out,
                            ),
                            End::First(v) => chk(
                                &format!("{nm} FirstDeriv"),
                                p.d1(side),
                                v,
                                64.0 * (tol0 + k * eps * v.abs() * p.h) / p.h,
                                out,
                            ),
                            End::NotAKnot => {
                                let (p0, p1) = if side {
                                    (&pieces[m], &pieces[m - 1])
                                } else {
                                    (&pieces[0], &pieces[1])
                                };
                                let hm = p0.h.min(p1.h);
                                chk(
                                    &format!("{nm} NotAKnot S''' continuous"),
                                    p0.d3(),
                                    p1.d3(),
                                    1024.0 * tol0 / (hm * hm * hm),
                                    out,
                                );
                                if n == 3 && l == End::NotAKnot && r == End::NotAKnot {
                                    chk(
                                        "n=3 NotAKnot parabola S'''=0",
                                        p0.d3(),
                                        0.0,
                                        1024.0 * tol0 / (hm * hm * hm),
                                        out,
                                    );
                                }
                            }
                        }
                    }
                }
            }
            if let Some(w) = bad {
                out.violate(
                    format!("{lkey}:ends"),
                    w,
                    case_json::<T>(job, Some(lane), Some(cond)),
                );
            }
        }

        if let Some(rs) = &rs {
            let mut worst = 0.0f64;
            let mut bad: Option<String> = None;
            for (qi, &q) in q64.iter().enumerate() {
                let iv = (qi / den).min(n - 2);
                let Some(exact) = crate::driver::try_exact(|| rs.eval_piece(iv, Rat::from_f64(q))) else {
                    out.count("exact_value_outside_i128(sample skipped)", 1);
                    continue;
                };
                let ex = exact.to_f64();
                let got = res[[qi, j]].to_f64();
                let sc = scale.max(ex.abs());
                let e = (got - ex).abs();
                let ratio = e / (eps * sc);
                worst = worst.max(ratio);
                out.evals += 1;
                if !(e <= k * eps * sc) && bad.is_none() {
                    bad = Some(format!(
                        "S({q}) = {got:e} but the exact spline with this boundary gives {ex:e} (err {ratio:.3e} eps*scale, allowed {k})"
                    ));
                }
            }
            out.maximum(
                if k <= 256.0 {
                    "exact_err_over_eps_scale(ratio<=8)"
                } else {
                    "exact_err_over_eps_scale(ratio64)"
                },
                worst,
            );
            if !want.structural && nontrivial_lane {
                out.nontrivial += 1;
            }
            if let Some(w) = bad {
                out.violate(
                    format!("{lkey}:exact"),
                    w,
                    case_json::<T>(job, Some(lane), Some(cond)),
                );
            }
        } else if !want.structural && nontrivial_lane {
            out.nontrivial += 1;
        }
    }
    out.outcome(format!(
        "built:{}",
        if periodic { "periodic" } else { "ends" }
    ));
    if out.sample.is_none() {
        out.sample = Some(Json::obj(vec![
            ("type", Json::str(T::NAME)),
            ("axis", Json::f64s(&axis.x)),
            ("boundary", Json::str(&job.spec.name())),
            ("lanes", Json::Int(nl as i128)),
            ("queries", Json::Int(q64.len() as i128)),
        ]));
    }
}

pub fn case_json<T: Fl>(job: &SplineJob, lane: Option<&Lane>, cond: Option<Cond>) -> Json {
    let mut v = vec![
        ("type", Json::str(T::NAME)),
        ("axis_name", Json::str(&job.axis.name)),
        ("axis", Json::f64s(&job.axis.x)),
        ("axis_scale_seen_by_the_implementation", Json::Num(job.xscale)),
        ("boundary_config", Json::str(&job.spec.name())),
        ("samples_per_interval", Json::Int(job.den as i128)),
    ];
    if let Some(l) = lane {
        v.push(("lane", Json::str(&l.name)));
        v.push(("data", Json::f64s(&l.y)));
    }
    if let Some(c) = cond {
        v.push(("lane_condition", Json::str(&c.name())));
    }
    Json::obj(v)
}

/// the spline axis alphabet of a tier
pub fn spline_axes(quick: bool, n_min: usize) -> Vec<Axis> {
    let mut v = vec![];
    if quick {
        v.extend(alpha::full_word_axes(
            &alpha::h3(),
            "w",
            n_min,
            5,
            &alpha::OFFSETS,
        ));
        v.extend(alpha::full_word_axes(&alpha::hw(), "W", n_min, 4, &[0.0]));
        v.extend(alpha::long_word_axes(
            &alpha::h4(),
            "L",
            &[8, 12, 24, 32],
            1,
            &[0.0],
        ));
    } else {
        v.extend(alpha::full_word_axes(
            &alpha::h4(),
            "w",
            n_min,
            7,
            &alpha::OFFSETS,
        ));
        v.extend(alpha::full_word_axes(
            &alpha::hw(),
            "W",
            n_min,
            6,
            &[0.0, -3.0],
        ));
        v.extend(alpha::long_word_axes(
            &alpha::h4(),
            "L",
            &[8, 12, 16, 24, 40],
            2,
            &[0.0],
        ));
        v.extend(alpha::long_word_axes(
            &alpha::hw(),
            "LW",
            &[8, 12],
            1,
            &[0.0],
        ));
    }
    v
}
