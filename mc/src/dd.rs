//! Double-double arithmetic (~106 bit significand): the fallback reference number system for
//! tolerance-based oracles when exact rationals leave the i128 range (mixed magnitudes).
//! Its relative error (~1e-31) is 15 orders of magnitude below every tolerance used.

use std::ops::{Add, Div, Mul, Neg, Sub};

#[derive(Clone, Copy, Debug, PartialEq)]
pub struct DD {
    pub hi: f64,
    pub lo: f64,
}

fn two_sum(a: f64, b: f64) -> (f64, f64) {
    let s = a + b;
    let bb = s - a;
    let e = (a - (s - bb)) + (b - bb);
    (s, e)
}
fn quick_two_sum(a: f64, b: f64) -> (f64, f64) {
    let s = a + b;
    let e = b - (s - a);
    (s, e)
}
fn two_prod(a: f64, b: f64) -> (f64, f64) {
    let p = a * b;
    let e = a.mul_add(b, -p);
    (p, e)
}

impl DD {
    pub fn new(v: f64) -> DD {
        DD { hi: v, lo: 0.0 }
    }
    pub fn to_f64(self) -> f64 {
        self.hi + self.lo
    }
    pub fn abs(self) -> DD {
        if self.hi < 0.0 || (self.hi == 0.0 && self.lo < 0.0) {
            -self
        } else {
            self
        }
    }
}

impl Neg for DD {
    type Output = DD;
    fn neg(self) -> DD {
        DD {
            hi: -self.hi,
            lo: -self.lo,
        }
    }
}
impl Add for DD {
    type Output = DD;
    fn add(self, o: DD) -> DD {
        let (s, e) = two_sum(self.hi, o.hi);
        let (t, f) = two_sum(self.lo, o.lo);
        let (s, e) = quick_two_sum(s, e + t);
        let (hi, lo) = quick_two_sum(s, e + f);
        DD { hi, lo }
    }
}
impl Sub for DD {
    type Output = DD;
    fn sub(self, o: DD) -> DD {
        self + (-o)
    }
}
impl Mul for DD {
    type Output = DD;
    fn mul(self, o: DD) -> DD {
        let (p, e) = two_prod(self.hi, o.hi);
        let e = e + (self.hi * o.lo + self.lo * o.hi);
        let (hi, lo) = quick_two_sum(p, e);
        DD { hi, lo }
    }
}
impl Div for DD {
    type Output = DD;
    fn div(self, o: DD) -> DD {
        let q1 = self.hi / o.hi;
        let r = self - o * DD::new(q1);
        let q2 = r.hi / o.hi;
        let r = r - o * DD::new(q2);
        let q3 = r.hi / o.hi;
        let (hi, lo) = quick_two_sum(q1, q2);
        DD { hi, lo } + DD::new(q3)
    }
}

#[cfg(test)]
mod tests {
    use super::*;
    #[test]
    fn basic() {
        let third = DD::new(1.0) / DD::new(3.0);
        let one = third * DD::new(3.0);
        assert!((one - DD::new(1.0)).abs().to_f64() < 1e-30);
        let a = DD::new(1e20) + DD::new(1.0) - DD::new(1e20);
        assert_eq!(a.to_f64(), 1.0);
    }
}
