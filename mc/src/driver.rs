//! Explorer core: job driver (deterministic, parallel), statistics, evidence writer,
//! violation / known-finding handling, replay files.
//!
//! Exit codes of every check binary:
//!   0  the property held on everything explored (known findings are printed, not failed)
//!   1  at least one violation that KNOWN_FINDINGS.txt does not list (`VIOLATION ...` lines)
//!   2  machinery error (reference model overflow, engine panic, I/O) - never a verdict

use std::cell::Cell;
use std::collections::BTreeMap;
use std::fmt::Write as _;
use std::panic::{catch_unwind, AssertUnwindSafe};
use std::sync::atomic::{AtomicBool, AtomicUsize, Ordering};
use std::sync::Mutex;
use std::time::Instant;

use crate::json::Json;

pub const VERIF_ROOT: &str = concat!(env!("CARGO_MANIFEST_DIR"), "/..");

#[derive(Clone, Copy, PartialEq, Eq, Debug)]
pub enum Tier {
    Quick,
    Thorough,
}

impl Tier {
    pub fn name(self) -> &'static str {
        match self {
            Tier::Quick => "quick",
            Tier::Thorough => "thorough",
        }
    }
    pub fn pick<T>(self, quick: T, thorough: T) -> T {
        match self {
            Tier::Quick => quick,
            Tier::Thorough => thorough,
        }
    }
}

pub struct Ctx {
    pub id: &'static str,
    pub tier: Tier,
    pub seed: i64,
    pub start: Instant,
    /// when set only jobs with exactly this key are executed (replay)
    pub only_key: Option<String>,
    pub threads: usize,
    /// wall clock cap in seconds for the job loops (0 = none)
    pub max_s: f64,
    pub write_evidence: bool,
}

impl Ctx {
    pub fn from_env(id: &'static str) -> Ctx {
        let args: Vec<String> = std::env::args().collect();
        let mut tier = match std::env::var("VERIF_TIER").ok().as_deref() {
            Some("thorough") => Tier::Thorough,
            _ => Tier::Quick,
        };
        let mut only_key = std::env::var("NIMC_ONLY_KEY")
            .ok()
            .filter(|s| !s.is_empty());
        let mut i = 1;
        while i < args.len() {
            match args[i].as_str() {
                "quick" => tier = Tier::Quick,
                "thorough" => tier = Tier::Thorough,
                "--only-key" => {
                    i += 1;
                    only_key = args.get(i).cloned();
                }
                other => {
                    eprintln!("unknown argument {other}");
                    std::process::exit(2);
                }
            }
            i += 1;
        }
        let seed = std::env::var("VERIF_SEED")
            .ok()
            .and_then(|s| s.parse().ok())
            .unwrap_or(0);
        let threads = std::env::var("NIMC_THREADS")
            .ok()
            .and_then(|s| s.parse().ok())
            .unwrap_or_else(|| {
                std::thread::available_parallelism()
                    .map(|n| n.get())
                    .unwrap_or(4)
            });
        let max_s = std::env::var("NIMC_MAX_S")
            .ok()
            .and_then(|s| s.parse().ok())
            .unwrap_or(match tier {
                Tier::Quick => 240.0,
                Tier::Thorough => 3300.0,
            });
        let write_evidence = only_key.is_none();
        Ctx {
            id,
            tier,
            seed,
            start: Instant::now(),
            only_key,
            threads,
            max_s,
            write_evidence,
        }
    }
    pub fn quick(&self) -> bool {
        self.tier == Tier::Quick
    }
    pub fn elapsed(&self) -> f64 {
        self.start.elapsed().as_secs_f64()
    }
}

#[derive(Clone, Debug)]
pub struct Viol {
    /// stable case key (no spaces); known findings are matched on it
    pub key: String,
    /// one line: what failed
    pub what: String,
    /// full concrete case (JSON)
    pub detail: Json,
    /// key of the job (unit of enumeration) that found it: `--only-key <job>` re-executes exactly it
    pub job: String,
}

#[derive(Default, Clone, Debug)]
pub struct JobOut {
    /// executions of the real code that were compared with the oracle
    pub evals: u64,
    /// distinct non-trivial cases (by the check's stated rule)
    pub nontrivial: u64,
    /// distinct built configurations / automaton states / history fingerprints
    pub states: u64,
    /// operations executed on the real code
    pub transitions: u64,
    pub viol: Vec<Viol>,
    /// number of violations (may exceed viol.len(), which is capped)
    pub nviol: u64,
    /// histogram of observed outcome classes
    pub outcomes: BTreeMap<String, u64>,
    /// maxima of named statistics (e.g. worst error / tolerance)
    pub maxima: BTreeMap<String, f64>,
    /// named counters
    pub counters: BTreeMap<String, u64>,
    pub sample: Option<Json>,
}

pub const VIOL_CAP_PER_JOB: usize = 3;

impl JobOut {
    pub fn violate(&mut self, key: impl Into<String>, what: impl Into<String>, detail: Json) {
        self.nviol += 1;
        if self.viol.len() < VIOL_CAP_PER_JOB {
            let key: String = key.into();
            let key = key.replace([' ', '\n', '\t'], "_");
            self.viol.push(Viol {
                key,
                what: what.into(),
                detail,
                job: String::new(),
            });
        }
    }
    pub fn outcome(&mut self, class: impl Into<String>) {
        *self.outcomes.entry(class.into()).or_insert(0) += 1;
    }
    pub fn count(&mut self, name: &str, by: u64) {
        *self.counters.entry(name.to_string()).or_insert(0) += by;
    }
    pub fn maximum(&mut self, name: &str, v: f64) {
        let e = self
            .maxima
            .entry(name.to_string())
            .or_insert(f64::NEG_INFINITY);
        // NaN (0/0 on identically zero lanes) is ignored
        if v > *e {
            *e = v;
        }
    }
    pub fn merge(&mut self, o: JobOut) {
        self.evals += o.evals;
        self.nontrivial += o.nontrivial;
        self.states += o.states;
        self.transitions += o.transitions;
        self.nviol += o.nviol;
        for v in o.viol {
            if self.viol.len() < 40 {
                self.viol.push(v);
            }
        }
        for (k, v) in o.outcomes {
            *self.outcomes.entry(k).or_insert(0) += v;
        }
        for (k, v) in o.counters {
            *self.counters.entry(k).or_insert(0) += v;
        }
        for (k, v) in o.maxima {
            let e = self.maxima.entry(k).or_insert(f64::NEG_INFINITY);
            if v > *e {
                *e = v;
            }
        }
        if self.sample.is_none() {
            self.sample = o.sample;
        }
    }
}

#[derive(Default, Debug)]
pub struct Summary {
    pub total: JobOut,
    pub samples: Vec<Json>,
    pub jobs: u64,
    pub jobs_done: u64,
    pub capped: bool,
    pub phases: Vec<Json>,
}

impl Summary {
    pub fn merge(&mut self, o: Summary) {
        self.total.merge(o.total);
        for s in o.samples {
            if self.samples.len() < 12 {
                self.samples.push(s);
            }
        }
        self.jobs += o.jobs;
        self.jobs_done += o.jobs_done;
        self.capped |= o.capped;
        self.phases.extend(o.phases);
    }
}

thread_local! {
    static QUIET: Cell<u32> = const { Cell::new(0) };
    static LAST_PANIC: std::cell::RefCell<String> = const { std::cell::RefCell::new(String::new()) };
}

/// Install the panic hook: panics raised while the subject runs under [`catch`] are
/// recorded silently (they are observations); all other panics are printed.
pub fn install_panic_hook() {
    let default = std::panic::take_hook();
    std::panic::set_hook(Box::new(move |info| {
        let msg = if let Some(s) = info.payload().downcast_ref::<&str>() {
            s.to_string()
        } else if let Some(s) = info.payload().downcast_ref::<String>() {
            s.clone()
        } else {
            "<non-string panic>".to_string()
        };
        let loc = info
            .location()
            .map(|l| format!("{}:{}", l.file(), l.line()))
            .unwrap_or_default();
        let _ = LAST_PANIC.try_with(|p| *p.borrow_mut() = format!("{msg} @ {loc}"));
        if QUIET.with(|q| q.get()) == 0 {
            default(info);
        }
    }));
}

/// Run the subject, turning a panic into `Err(message @ file:line)`.
pub fn catch<R>(f: impl FnOnce() -> R) -> Result<R, String> {
    QUIET.with(|q| q.set(q.get() + 1));
    let r = catch_unwind(AssertUnwindSafe(f));
    QUIET.with(|q| q.set(q.get() - 1));
    match r {
        Ok(v) => Ok(v),
        Err(_) => {
            let m = LAST_PANIC.try_with(|p| p.borrow().clone()).unwrap_or_else(|_| "panic (message not recorded: the thread is shutting down)".to_string());
            if m.contains(crate::rat::RAT_OVERFLOW) {
                // machinery error inside a caught region: re-raise loudly
                panic!("{m}");
            }
            Err(m)
        }
    }
}

/// Execute `f` on every job (in parallel, results merged in job order).
pub fn run_jobs<J, K, F>(ctx: &Ctx, phase: &str, jobs: &[J], key: K, f: F) -> Summary
where
    J: Sync,
    K: Fn(&J) -> String + Sync,
    F: Fn(&J) -> JobOut + Sync,
{
    let n = jobs.len();
    let next = AtomicUsize::new(0);
    let stop = AtomicBool::new(false);
    let results: Mutex<Vec<Option<JobOut>>> = Mutex::new((0..n).map(|_| None).collect());
    let t0 = Instant::now();
    let threads = ctx.threads.max(1).min(n.max(1));
    let failed: Mutex<Option<String>> = Mutex::new(None);
    std::thread::scope(|s| {
        for _ in 0..threads {
            s.spawn(|| loop {
                if stop.load(Ordering::Relaxed) {
                    break;
                }
                let i = next.fetch_add(1, Ordering::Relaxed);
                if i >= n {
                    break;
                }
                if ctx.max_s > 0.0 && ctx.elapsed() > ctx.max_s {
                    stop.store(true, Ordering::Relaxed);
                    break;
                }
                if let Some(k) = &ctx.only_key {
                    if &key(&jobs[i]).replace([' ', '\n', '\t'], "_") != k {
                        results.lock().unwrap()[i] = Some(JobOut::default());
                        continue;
                    }
                }
                let jkey = if journal_on() { Some(key(&jobs[i]).replace([' ', '\n', '\t'], "_")) } else { None };
                if let Some(k) = &jkey {
                    journal(&format!("S {phase}\t{k}\n"));
                }
                let res = catch_unwind(AssertUnwindSafe(|| f(&jobs[i])));
                if let Some(k) = &jkey {
                    journal(&format!("F {phase}\t{k}\n"));
                }
                match res {
                    Ok(mut out) => {
                        if !out.viol.is_empty() {
                            let k = key(&jobs[i]).replace([' ', '\n', '\t'], "_");
                            for v in out.viol.iter_mut() {
                                v.job = k.clone();
                            }
                        }
                        results.lock().unwrap()[i] = Some(out);
                    }
                    Err(_) => {
                        let m = LAST_PANIC.try_with(|p| p.borrow().clone()).unwrap_or_else(|_| "panic (message not recorded: the thread is shutting down)".to_string());
                        *failed.lock().unwrap() = Some(format!(
                            "engine panic in job {} ({}): {}",
                            i,
                            key(&jobs[i]),
                            m
                        ));
                        stop.store(true, Ordering::Relaxed);
                        break;
                    }
                }
            });
        }
    });
    if let Some(m) = failed.into_inner().unwrap() {
        eprintln!("MACHINERY-ERROR property={} {}", ctx.id, m);
        std::process::exit(2);
    }
    let results = results.into_inner().unwrap();
    let mut sum = Summary {
        jobs: n as u64,
        ..Default::default()
    };
    // the prefix of completed jobs (jobs are handed out in order)
    let mut done = 0u64;
    let mut prefix_intact = true;
    for r in results.into_iter() {
        match r {
            Some(o) => {
                if let Some(s) = &o.sample {
                    if sum.samples.len() < 6 {
                        sum.samples.push(s.clone());
                    }
                }
                sum.total.merge(o);
                if prefix_intact {
                    done += 1;
                }
            }
            None => {
                prefix_intact = false;
                sum.capped = true;
            }
        }
    }
    sum.jobs_done = done;
    sum.phases.push(Json::obj(vec![
        ("phase", Json::str(phase)),
        ("jobs", Json::Int(n as i128)),
        ("jobs_completed_prefix", Json::Int(done as i128)),
        ("capped", Json::Bool(sum.capped)),
        ("evaluations", Json::Int(sum.total.evals as i128)),
        ("transitions", Json::Int(sum.total.transitions as i128)),
        ("violations", Json::Int(sum.total.nviol as i128)),
        ("wall_s", Json::Num(t0.elapsed().as_secs_f64())),
    ]));
    sum
}

pub struct Meta {
    /// how cases are enumerated and what makes one non-trivial
    pub rule: String,
    /// the bounds of this tier, in words
    pub bounds: String,
    pub assumptions: Vec<String>,
    /// extra coverage keys
    pub extra: Vec<(String, Json)>,
}

fn fnv(s: &str) -> u64 {
    let mut h: u64 = 0xcbf29ce484222325;
    for b in s.bytes() {
        h ^= b as u64;
        h = h.wrapping_mul(0x100000001b3);
    }
    h
}

struct Known {
    property: String,
    key: String,
    text: String,
}

fn load_known() -> Vec<Known> {
    let p = format!("{VERIF_ROOT}/KNOWN_FINDINGS.txt");
    let mut v = vec![];
    let Ok(s) = std::fs::read_to_string(&p) else {
        return v;
    };
    for line in s.lines() {
        let line = line.trim();
        let Some(rest) = line.strip_prefix("known:") else {
            continue;
        };
        let mut property = String::new();
        let mut key = String::new();
        let mut text = vec![];
        for tok in rest.split_whitespace() {
            if let Some(p) = tok.strip_prefix("property=") {
                if property.is_empty() {
                    property = p.to_string();
                    continue;
                }
            }
            if let Some(k) = tok.strip_prefix("key=") {
                if key.is_empty() {
                    key = k.to_string();
                    continue;
                }
            }
            text.push(tok);
        }
        v.push(Known {
            property,
            key,
            text: text.join(" "),
        });
    }
    v
}

/// Write the evidence file, report violations / known findings, return the exit code.
pub fn finish(ctx: &Ctx, sum: Summary, meta: Meta) -> i32 {
    let known = load_known();
    let mut unknown: Vec<&Viol> = vec![];
    let mut known_hit: BTreeMap<String, String> = BTreeMap::new();
    for v in &sum.total.viol {
        if let Some(k) = known
            .iter()
            .find(|k| k.property == ctx.id && k.key == v.key)
        {
            known_hit.insert(v.key.clone(), k.text.clone());
        } else {
            unknown.push(v);
        }
    }
    // violations beyond the stored cap cannot be matched against the list: they count as new
    let stored = sum.total.viol.len() as u64;
    let beyond_cap = sum.total.nviol.saturating_sub(stored);

    let exhaustive = !sum.capped && ctx.only_key.is_none();
    let mut cov = vec![
        (
            "evaluations".to_string(),
            Json::Int(sum.total.evals as i128),
        ),
        (
            "distinct_nontrivial".to_string(),
            Json::Int(sum.total.nontrivial as i128),
        ),
        ("rule".to_string(), Json::str(&meta.rule)),
        ("states".to_string(), Json::Int(sum.total.states as i128)),
        (
            "transitions".to_string(),
            Json::Int(sum.total.transitions as i128),
        ),
        (
            "traces_validated_against_impl".to_string(),
            Json::Int(sum.total.evals as i128),
        ),
        ("exhaustive".to_string(), Json::Bool(exhaustive)),
        ("bounds".to_string(), Json::str(&meta.bounds)),
        ("jobs".to_string(), Json::Int(sum.jobs as i128)),
        (
            "jobs_completed_prefix".to_string(),
            Json::Int(sum.jobs_done as i128),
        ),
        ("phases".to_string(), Json::Arr(sum.phases.clone())),
        (
            "distinct_observed_outcomes".to_string(),
            Json::Int(sum.total.outcomes.len() as i128),
        ),
        (
            "observed_outcomes".to_string(),
            Json::Obj(
                sum.total
                    .outcomes
                    .iter()
                    .take(64)
                    .map(|(k, v)| (k.clone(), Json::Int(*v as i128)))
                    .collect(),
            ),
        ),
        (
            "counters".to_string(),
            Json::Obj(
                sum.total
                    .counters
                    .iter()
                    .map(|(k, v)| (k.clone(), Json::Int(*v as i128)))
                    .collect(),
            ),
        ),
        (
            "maxima".to_string(),
            Json::Obj(
                sum.total
                    .maxima
                    .iter()
                    .map(|(k, v)| (k.clone(), Json::Num(*v)))
                    .collect(),
            ),
        ),
        (
            "samples".to_string(),
            Json::Arr(if sum.samples.is_empty() {
                vec![Json::str("(no sample recorded)")]
            } else {
                sum.samples.clone()
            }),
        ),
        (
            "known_findings_matched".to_string(),
            Json::Int(known_hit.len() as i128),
        ),
        ("threads".to_string(), Json::Int(ctx.threads as i128)),
    ];
    cov.extend(meta.extra);
    let ev = Json::Obj(vec![
        ("property_id".to_string(), Json::str(ctx.id)),
        ("tier".to_string(), Json::str(ctx.tier.name())),
        ("seed".to_string(), Json::Int(ctx.seed as i128)),
        ("level".to_string(), Json::str("model_checking")),
        ("coverage".to_string(), Json::Obj(cov)),
        (
            "assumptions".to_string(),
            Json::Arr(meta.assumptions.iter().map(|s| Json::str(s)).collect()),
        ),
        ("wall_s".to_string(), Json::Num(ctx.elapsed())),
        (
            "violations".to_string(),
            Json::Int((unknown.len() as u64 + beyond_cap) as i128),
        ),
    ]);
    if ctx.write_evidence {
        let dir = format!("{VERIF_ROOT}/evidence");
        let _ = std::fs::create_dir_all(&dir);
        let path = format!("{dir}/{}.json", ctx.id);
        if let Err(e) = std::fs::write(&path, format!("{ev}\n")) {
            eprintln!("MACHINERY-ERROR cannot write {path}: {e}");
            return 2;
        }
    }

    println!(
        "{} {}: jobs={} evaluations={} nontrivial={} states={} transitions={} outcomes={} violations={} exhaustive={} wall={:.1}s",
        ctx.id,
        ctx.tier.name(),
        sum.jobs,
        sum.total.evals,
        sum.total.nontrivial,
        sum.total.states,
        sum.total.transitions,
        sum.total.outcomes.len(),
        sum.total.nviol,
        exhaustive,
        ctx.elapsed()
    );
    for (k, t) in &known_hit {
        println!("KNOWN-FINDING: property={} key={} {}", ctx.id, k, t);
    }
    if unknown.is_empty() && beyond_cap == 0 {
        return 0;
    }
    let dir = format!("{VERIF_ROOT}/replays");
    let _ = std::fs::create_dir_all(&dir);
    let mut printed = 0;
    for v in unknown.iter().take(5) {
        let path = format!("{dir}/{}-{:016x}.json", ctx.id, fnv(&v.key));
        let body = Json::Obj(vec![
            ("property".to_string(), Json::str(ctx.id)),
            ("tier".to_string(), Json::str(ctx.tier.name())),
            ("key".to_string(), Json::str(&v.key)),
            ("job".to_string(), Json::str(&v.job)),
            ("what".to_string(), Json::str(&v.what)),
            ("case".to_string(), v.detail.clone()),
            (
                "replay".to_string(),
                Json::str(&format!(
                    "/verif/bin/check --replay {}",
                    path.replace("/mc/..", "")
                )),
            ),
        ]);
        if let Err(e) = std::fs::write(&path, format!("{body}\n")) {
            eprintln!("MACHINERY-ERROR cannot write {path}: {e}");
            return 2;
        }
        let mut line = String::new();
        let _ = write!(
            line,
            "VIOLATION property={} replay={}",
            ctx.id,
            path.replace("/mc/..", "")
        );
        println!("{line}");
        println!("  what: {}", v.what);
        printed += 1;
    }
    if printed == 0 {
        // only violations beyond the cap: still a violation
        println!(
            "VIOLATION property={} replay={}/evidence/{}.json",
            ctx.id,
            VERIF_ROOT.replace("/mc/..", ""),
            ctx.id
        );
    }
    println!(
        "  total violations: {} ({} listed as known)",
        sum.total.nviol,
        known_hit.len()
    );
    1
}

// ---------------------------------------------------------------------------------------------
// crash isolation: the subject runs inside the check process, so memory corruption in the subject
// (a double free behind an `unsafe` block, say) kills the whole process. The binary therefore runs its
// work in a child process that journals every job it starts and finishes; when the child is killed
// by a signal the parent re-runs each job that was in flight alone, twice, and a job whose isolated
// process dies both times is reported as a violation of the property (with a replay file).

static JOURNAL: std::sync::OnceLock<Option<Mutex<std::fs::File>>> = std::sync::OnceLock::new();

fn journal_file() -> &'static Option<Mutex<std::fs::File>> {
    JOURNAL.get_or_init(|| {
        let p = std::env::var("NIMC_JOURNAL").ok()?;
        std::fs::OpenOptions::new().create(true).append(true).open(p).ok().map(Mutex::new)
    })
}

fn journal_on() -> bool {
    journal_file().is_some()
}

fn journal(line: &str) {
    if let Some(f) = journal_file() {
        use std::io::Write as _;
        let _ = f.lock().unwrap().write_all(line.as_bytes());
    }
}

fn run_child(extra_env: &[(&str, String)], only_key: Option<&str>) -> std::process::ExitStatus {
    let exe = std::env::current_exe().expect("own executable");
    let mut cmd = std::process::Command::new(exe);
    let mut args: Vec<String> = std::env::args().skip(1).collect();
    if let Some(k) = only_key {
        args.push("--only-key".into());
        args.push(k.into());
    }
    cmd.args(args).env("NIMC_CHILD", "1");
    for (k, v) in extra_env {
        cmd.env(k, v);
    }
    if only_key.is_some() {
        cmd.stdout(std::process::Stdio::null()).stderr(std::process::Stdio::null());
    }
    cmd.status().expect("spawn child process")
}

fn parent_mode(id: &'static str) -> ! {
    use std::os::unix::process::ExitStatusExt;
    let dir = format!("{VERIF_ROOT}/replays");
    let _ = std::fs::create_dir_all(&dir);
    let jpath = format!("{dir}/.journal-{id}-{}", std::process::id());
    let _ = std::fs::remove_file(&jpath);
    let t0 = Instant::now();
    let st = run_child(&[("NIMC_JOURNAL", jpath.clone())], None);
    if let Some(c) = st.code() {
        let _ = std::fs::remove_file(&jpath);
        std::process::exit(c);
    }
    let sig = st.signal().unwrap_or(0);
    // jobs that were started and not finished
    let text = std::fs::read_to_string(&jpath).unwrap_or_default();
    let _ = std::fs::remove_file(&jpath);
    let mut open: Vec<(String, String)> = vec![];
    let mut finished = 0u64;
    for l in text.lines() {
        let Some((tag, rest)) = l.split_once(' ') else { continue };
        let Some((phase, key)) = rest.split_once('\t') else { continue };
        match tag {
            "S" => open.push((phase.to_string(), key.to_string())),
            "F" => {
                finished += 1;
                if let Some(p) = open.iter().position(|o| o.0 == phase && o.1 == key) {
                    open.remove(p);
                }
            }
            _ => {}
        }
    }
    eprintln!("the check process of {id} was killed by signal {sig}; {} job(s) were in flight, re-running each of them alone", open.len());
    let mut culprits: Vec<(String, i32)> = vec![];
    for (_, key) in &open {
        let a = run_child(&[], Some(key));
        let b = run_child(&[], Some(key));
        if let (None, None) = (a.code(), b.code()) {
            culprits.push((key.clone(), a.signal().unwrap_or(0)));
        }
    }
    if culprits.is_empty() {
        eprintln!("MACHINERY-ERROR property={id} the check process was killed by signal {sig} and no single job reproduces it in isolation");
        std::process::exit(2);
    }
    let tier = std::env::args().nth(1).unwrap_or_else(|| std::env::var("VERIF_TIER").unwrap_or_else(|_| "quick".into()));
    let tier = if tier == "thorough" { "thorough" } else { "quick" };
    for (key, s) in &culprits {
        let path = format!("{dir}/{id}-{:016x}.json", fnv(key));
        let what = format!("the process running the code under test was killed by signal {s} while working on this case (reproduced twice in a process that ran nothing else): memory corruption or abort inside the subject");
        let body = Json::Obj(vec![
            ("property".to_string(), Json::str(id)),
            ("tier".to_string(), Json::str(tier)),
            ("key".to_string(), Json::str(key)),
            ("job".to_string(), Json::str(key)),
            ("what".to_string(), Json::str(&what)),
            ("case".to_string(), Json::str(key)),
            ("replay".to_string(), Json::str(&format!("/verif/bin/check --replay {}", path.replace("/mc/..", "")))),
        ]);
        let _ = std::fs::write(&path, format!("{body}\n"));
        println!("VIOLATION property={id} replay={}", path.replace("/mc/..", ""));
        println!("  what: {what}");
    }
    // evidence of the interrupted run
    let ev = Json::Obj(vec![
        ("property_id".to_string(), Json::str(id)),
        ("tier".to_string(), Json::str(tier)),
        ("seed".to_string(), Json::Int(0)),
        ("level".to_string(), Json::str("model_checking")),
        (
            "coverage".to_string(),
            Json::Obj(vec![
                ("evaluations".to_string(), Json::Int(finished as i128)),
                ("distinct_nontrivial".to_string(), Json::Int(culprits.len() as i128)),
                ("rule".to_string(), Json::str("the run was cut short: the process executing the code under test was killed by a signal; counted are the jobs finished before that, non-trivial are the jobs that reproduce the crash alone")),
                ("samples".to_string(), Json::Arr(culprits.iter().map(|c| Json::str(&c.0)).collect())),
                ("states".to_string(), Json::Int(finished.max(1) as i128)),
                ("transitions".to_string(), Json::Int(finished.max(1) as i128)),
                ("traces_validated_against_impl".to_string(), Json::Int(finished as i128)),
                ("exhaustive".to_string(), Json::Bool(false)),
            ]),
        ),
        ("assumptions".to_string(), Json::Arr(vec![])),
        ("wall_s".to_string(), Json::Num(t0.elapsed().as_secs_f64())),
        ("violations".to_string(), Json::Int(culprits.len() as i128)),
    ]);
    let edir = format!("{VERIF_ROOT}/evidence");
    let _ = std::fs::create_dir_all(&edir);
    let _ = std::fs::write(format!("{edir}/{id}.json"), format!("{ev}\n"));
    std::process::exit(1)
}

/// Standard `main` of a check binary.
pub fn main_with(id: &'static str, body: fn(&Ctx) -> (Summary, Meta)) -> ! {
    install_panic_hook();
    if std::env::var_os("NIMC_CHILD").is_none() && std::env::var_os("NIMC_NO_ISOLATION").is_none() {
        parent_mode(id);
    }
    let ctx = Ctx::from_env(id);
    let r = catch_unwind(AssertUnwindSafe(|| {
        let (sum, meta) = body(&ctx);
        finish(&ctx, sum, meta)
    }));
    match r {
        Ok(code) => std::process::exit(code),
        Err(_) => {
            let m = LAST_PANIC.try_with(|p| p.borrow().clone()).unwrap_or_else(|_| "panic (message not recorded: the thread is shutting down)".to_string());
            eprintln!("MACHINERY-ERROR property={id} {m}");
            std::process::exit(2)
        }
    }
}

/// Run an exact-rational computation; `None` when it left the i128 range (the caller then
/// falls back to double-double arithmetic). Any other panic is re-raised.
pub fn try_exact<R>(f: impl FnOnce() -> R) -> Option<R> {
    QUIET.with(|q| q.set(q.get() + 1));
    let r = catch_unwind(AssertUnwindSafe(f));
    QUIET.with(|q| q.set(q.get() - 1));
    match r {
        Ok(v) => Some(v),
        Err(p) => {
            let m = LAST_PANIC.try_with(|p| p.borrow().clone()).unwrap_or_else(|_| "panic (message not recorded: the thread is shutting down)".to_string());
            if m.contains(crate::rat::RAT_OVERFLOW) {
                None
            } else {
                std::panic::resume_unwind(p)
            }
        }
    }
}
