//! The finite alphabets (single source of truth; DESIGN.md section 4).
//! Everything here is deterministic and exactly representable: axes and data are dyadic
//! rationals, kept as `f64` values that convert exactly to `Rat`.

use crate::rat::Rat;
use crate::refm::End;

#[derive(Clone, Debug)]
pub struct Axis {
    pub name: String,
    pub x: Vec<f64>,
    /// largest ratio of two interval lengths
    pub mesh_ratio: f64,
}

impl Axis {
    pub fn new(name: String, x: Vec<f64>) -> Axis {
        let h: Vec<f64> = x.windows(2).map(|w| w[1] - w[0]).collect();
        let mx = h.iter().cloned().fold(0.0, f64::max);
        let mn = h.iter().cloned().fold(f64::INFINITY, f64::min);
        Axis {
            name,
            x,
            mesh_ratio: if h.is_empty() { 1.0 } else { mx / mn },
        }
    }
    pub fn n(&self) -> usize {
        self.x.len()
    }
    pub fn rat(&self) -> Vec<Rat> {
        self.x.iter().map(|&v| Rat::from_f64(v)).collect()
    }
    pub fn span(&self) -> f64 {
        self.x[self.x.len() - 1] - self.x[0]
    }
}

pub fn h3() -> Vec<f64> {
    vec![1.0, 2.0, 0.5]
}
pub fn h4() -> Vec<f64> {
    vec![1.0, 2.0, 0.5, 4.0]
}
pub fn hw() -> Vec<f64> {
    vec![1.0, 8.0, 0.125]
}

fn hname(h: f64) -> String {
    if h == h.trunc() {
        format!("{}", h as i64)
    } else {
        format!("1/{}", (1.0 / h) as i64)
    }
}

pub fn word_name(prefix: &str, off: f64, w: &[f64]) -> String {
    let mut s = format!("{prefix}[");
    let mut i = 0;
    let mut first = true;
    while i < w.len() {
        let mut j = i;
        while j < w.len() && w[j] == w[i] {
            j += 1;
        }
        if !first {
            s.push(',');
        }
        first = false;
        if j - i > 2 {
            s.push_str(&format!("{}^{}", hname(w[i]), j - i));
        } else {
            for t in i..j {
                if t > i {
                    s.push(',');
                }
                s.push_str(&hname(w[i]));
            }
        }
        i = j;
    }
    s.push_str(&format!("]@{off}"));
    s
}

pub fn axis_from_word(prefix: &str, off: f64, w: &[f64]) -> Axis {
    let mut x = vec![off];
    let mut acc = Rat::from_f64(off);
    for &h in w {
        acc = acc + Rat::from_f64(h);
        let v = acc.to_f64();
        assert!(Rat::from_f64(v) == acc, "axis value not exact");
        x.push(v);
    }
    Axis::new(word_name(prefix, off, w), x)
}

/// every word of length `len` over `h` (first letter varies slowest; the uniform word first)
pub fn words(h: &[f64], len: usize) -> Vec<Vec<f64>> {
    let mut out = vec![];
    let mut idx = vec![0usize; len];
    loop {
        out.push(idx.iter().map(|&i| h[i]).collect());
        let mut p = len;
        loop {
            if p == 0 {
                return out;
            }
            p -= 1;
            idx[p] += 1;
            if idx[p] < h.len() {
                break;
            }
            idx[p] = 0;
        }
    }
}

/// every word of length `len` with at most `d` letters different from 1 ("deviations"),
/// ordered by number of deviations
pub fn dev_words(h: &[f64], len: usize, d: usize) -> Vec<Vec<f64>> {
    let non_unit: Vec<f64> = h.iter().cloned().filter(|&v| v != 1.0).collect();
    let mut out = vec![vec![1.0; len]];
    if d >= 1 {
        for p in 0..len {
            for &a in &non_unit {
                let mut w = vec![1.0; len];
                w[p] = a;
                out.push(w);
            }
        }
    }
    if d >= 2 {
        for p in 0..len {
            for q in p + 1..len {
                for &a in &non_unit {
                    for &b in &non_unit {
                        let mut w = vec![1.0; len];
                        w[p] = a;
                        w[q] = b;
                        out.push(w);
                    }
                }
            }
        }
    }
    assert!(d <= 2);
    out
}

pub const OFFSETS: [f64; 3] = [0.0, -3.0, 1.25];

/// Interval-word axes: full product for `n` in `n_lo..=n_full` over `h`, each with every offset
/// of `offs`.
pub fn full_word_axes(h: &[f64], tag: &str, n_lo: usize, n_full: usize, offs: &[f64]) -> Vec<Axis> {
    let mut v = vec![];
    for n in n_lo..=n_full {
        for w in words(h, n - 1) {
            for &o in offs {
                v.push(axis_from_word(tag, o, &w));
            }
        }
    }
    v
}

/// long deviation-bounded axes
pub fn long_word_axes(h: &[f64], tag: &str, ns: &[usize], d: usize, offs: &[f64]) -> Vec<Axis> {
    let mut v = vec![];
    for &n in ns {
        for w in dev_words(h, n - 1, d) {
            for &o in offs {
                v.push(axis_from_word(tag, o, &w));
            }
        }
    }
    v
}

/// the value set V of the design (lookup / rounding oriented axes)
pub fn value_set() -> Vec<f64> {
    let e = f64::EPSILON;
    vec![
        -1048576.0,
        -7.0,
        -1.0,
        -(2.0f64.powi(-10)),
        0.0,
        2.0f64.powi(-10),
        1.0,
        1.0 + e,
        1.0 + 2.0 * e,
        1.5,
        2.0,
        7.0,
    ]
}

/// every subset of `vals` (increasing) with `min_size..=max_size` elements
pub fn subsets_axes(vals: &[f64], tag: &str, min_size: usize, max_size: usize) -> Vec<Axis> {
    let m = vals.len();
    let mut by_size: Vec<Vec<Axis>> = vec![vec![]; m + 1];
    for mask in 1u32..(1u32 << m) {
        let c = mask.count_ones() as usize;
        if c < min_size || c > max_size {
            continue;
        }
        let x: Vec<f64> = (0..m)
            .filter(|i| mask >> i & 1 == 1)
            .map(|i| vals[i])
            .collect();
        by_size[c].push(Axis::new(format!("{tag}#{mask:#x}"), x));
    }
    by_size.into_iter().flatten().collect()
}

/// a named data lane
#[derive(Clone, Debug)]
pub struct Lane {
    pub name: String,
    pub y: Vec<f64>,
}

const GENERIC: [f64; 11] = [
    1.0, -0.5, 2.0, 0.25, -3.0, 1.5, 0.875, -1.25, 0.5, 3.0, -0.75,
];

fn all_exact(v: &[Rat]) -> Option<Vec<f64>> {
    v.iter()
        .map(|r| {
            // exact when numerator fits 53 bits and the denominator is a power of two
            let f = r.to_f64();
            if f.is_finite() && Rat::f64_fits(f) && Rat::from_f64(f) == *r {
                Some(f)
            } else {
                None
            }
        })
        .collect()
}

/// The data lanes for an axis (DESIGN.md section 4). `impulses`: include the n unit impulses.
pub fn lanes(x: &[f64], impulses: bool) -> Vec<Lane> {
    let n = x.len();
    // (axes far outside the window of the exact arithmetic get no x^p lanes)
    let in_window = x.iter().all(|&v| v == 0.0 || (v.abs() < 1e15 && v.abs() > 1e-15));
    let xr: Vec<Rat> = if in_window { x.iter().map(|&v| Rat::from_f64(v)).collect() } else { vec![] };
    let mut v = vec![];
    if impulses {
        for i in 0..n {
            let mut y = vec![0.0; n];
            y[i] = 1.0;
            v.push(Lane {
                name: format!("e{i}"),
                y,
            });
        }
    }
    v.push(Lane {
        name: "one".into(),
        y: vec![1.0; n],
    });
    for (p, name) in [(1u32, "x"), (2, "x^2"), (3, "x^3")] {
        // x^p is exact in f64 when x has at most 53/p significant bits
        // (and its exponent must leave the powers inside the i128 window of the exact arithmetic)
        if !in_window || x.iter().any(|&v| crate::rat::sig_bits(v) * p > 50 || (v != 0.0 && v.abs().log2().abs() * p as f64 > 100.0)) {
            continue;
        }
        let r: Vec<Rat> = xr.iter().map(|x| x.pow(p)).collect();
        if let Some(y) = all_exact(&r) {
            if y.iter().all(|v| v.abs() < 16777216.0) {
                v.push(Lane {
                    name: name.into(),
                    y,
                });
            }
        }
    }
    v.push(Lane {
        name: "alt".into(),
        y: (0..n)
            .map(|i| if i % 2 == 0 { 1.0 } else { -1.0 })
            .collect(),
    });
    let gen: Vec<f64> = (0..n)
        .map(|i| GENERIC[i % 11] * (1 + i / 11) as f64)
        .collect();
    v.push(Lane {
        name: "gen".into(),
        y: gen.clone(),
    });
    v.push(Lane {
        name: "gen*2^20".into(),
        y: gen.iter().map(|g| g * 1048576.0).collect(),
    });
    // full 24 bit mantissas in [1,2), alternating sign
    let m24: Vec<f64> = (0..n)
        .map(|i| {
            let m = ((i as u64 + 1).wrapping_mul(2654435761) % (1 << 23)) | (1 << 23) | 1;
            let v = m as f64 / 8388608.0;
            if i % 3 == 1 {
                -v
            } else {
                v
            }
        })
        .collect();
    v.push(Lane {
        name: "m24".into(),
        y: m24,
    });
    v
}

/// make a lane periodic (last value := first value)
pub fn close_periodic(l: &Lane) -> Lane {
    let mut y = l.y.clone();
    let n = y.len();
    y[n - 1] = y[0];
    Lane {
        name: format!("{}~", l.name),
        y,
    }
}

/// The single-end boundary alphabet B
pub fn ends() -> Vec<End> {
    vec![
        End::NotAKnot,
        End::Natural,
        End::Clamped,
        End::First(0.5),
        End::Second(-2.0),
    ]
}

/// all 25 ordered pairs
pub fn end_pairs() -> Vec<(End, End)> {
    let e = ends();
    let mut v = vec![];
    for &l in &e {
        for &r in &e {
            v.push((l, r));
        }
    }
    v
}

/// in-range grid queries: x_i + t h_i for t = k/den, k = 0..den-1, plus the last knot
pub fn grid_queries(x: &[f64], den: u32) -> Vec<f64> {
    let mut q = vec![];
    for i in 0..x.len() - 1 {
        let h = x[i + 1] - x[i];
        for k in 0..den {
            let v = x[i] + h * (k as f64 / den as f64);
            q.push(v);
        }
    }
    q.push(x[x.len() - 1]);
    q
}

/// outside offsets relative to the span P (exactly representable multipliers)
pub fn outside_steps() -> Vec<f64> {
    vec![2.0f64.powi(-10), 0.25, 1.0, 3.0, 100.0]
}

#[cfg(test)]
mod tests {
    use super::*;
    #[test]
    fn counts() {
        assert_eq!(words(&h3(), 4).len(), 81);
        assert_eq!(dev_words(&h4(), 39, 2).len(), 1 + 39 * 3 + 39 * 38 / 2 * 9);
        assert_eq!(subsets_axes(&value_set(), "v", 2, 12).len(), 4083);
        let a = axis_from_word("w", -3.0, &[1.0, 0.5, 2.0]);
        assert_eq!(a.x, vec![-3.0, -2.0, -1.5, 0.5]);
        assert_eq!(a.mesh_ratio, 4.0);
    }
}
