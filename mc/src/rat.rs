//! Exact rationals on checked i128. An overflow is a *machinery* error: it panics with the
//! marker `RAT_OVERFLOW`, which the driver turns into exit code 2 (never into a verdict).

use std::cmp::Ordering;
use std::fmt;
use std::ops::{Add, Div, Mul, Neg, Sub};

#[derive(Clone, Copy, PartialEq, Eq, Hash)]
pub struct Rat {
    n: i128,
    d: i128, // > 0, gcd(n, d) == 1
}

pub const RAT_OVERFLOW: &str = "RAT_OVERFLOW";

fn gcd(mut a: i128, mut b: i128) -> i128 {
    a = a.abs();
    b = b.abs();
    while b != 0 {
        let t = a % b;
        a = b;
        b = t;
    }
    a
}

#[cold]
fn overflow() -> ! {
    panic!("{RAT_OVERFLOW}: exact rational arithmetic left the i128 range (machinery error)")
}

fn cmul(a: i128, b: i128) -> i128 {
    a.checked_mul(b).unwrap_or_else(|| overflow())
}
fn cadd(a: i128, b: i128) -> i128 {
    a.checked_add(b).unwrap_or_else(|| overflow())
}

impl Rat {
    pub const ZERO: Rat = Rat { n: 0, d: 1 };
    pub const ONE: Rat = Rat { n: 1, d: 1 };

    pub fn new(n: i128, d: i128) -> Rat {
        assert!(d != 0, "Rat with zero denominator (machinery error)");
        let g = gcd(n, d);
        let (mut n, mut d) = (n / g, d / g);
        if d < 0 {
            n = n.checked_neg().unwrap_or_else(|| overflow());
            d = d.checked_neg().unwrap_or_else(|| overflow());
        }
        Rat { n, d }
    }
    pub fn int(n: i128) -> Rat {
        Rat { n, d: 1 }
    }
    pub fn num(&self) -> i128 {
        self.n
    }
    pub fn den(&self) -> i128 {
        self.d
    }
    pub fn is_zero(&self) -> bool {
        self.n == 0
    }
    pub fn abs(self) -> Rat {
        Rat {
            n: self.n.abs(),
            d: self.d,
        }
    }
    pub fn recip(self) -> Rat {
        assert!(self.n != 0, "Rat division by zero (machinery error)");
        Rat::new(self.d, self.n)
    }
    pub fn max(self, o: Rat) -> Rat {
        if self >= o {
            self
        } else {
            o
        }
    }
    pub fn min(self, o: Rat) -> Rat {
        if self <= o {
            self
        } else {
            o
        }
    }
    pub fn pow(self, e: u32) -> Rat {
        let mut r = Rat::ONE;
        for _ in 0..e {
            r = r * self;
        }
        r
    }

    /// exact conversion of a finite f64
    pub fn from_f64(v: f64) -> Rat {
        assert!(v.is_finite(), "Rat::from_f64 of a non finite value");
        if v == 0.0 {
            return Rat::ZERO;
        }
        let bits = v.to_bits();
        let sign: i128 = if bits >> 63 == 1 { -1 } else { 1 };
        let exp = ((bits >> 52) & 0x7ff) as i64;
        let frac = (bits & ((1u64 << 52) - 1)) as i128;
        let (mut mant, mut e) = if exp == 0 {
            (frac, -1074i64)
        } else {
            (frac | (1i128 << 52), exp - 1075)
        };
        while mant & 1 == 0 {
            mant >>= 1;
            e += 1;
        }
        if e >= 0 {
            if e > 70 {
                overflow();
            }
            Rat::new(sign * cmul(mant, 1i128 << e), 1)
        } else {
            if -e > 120 {
                overflow();
            }
            Rat::new(sign * mant, 1i128 << (-e))
        }
    }

    /// whether `from_f64` would succeed without overflow
    pub fn f64_fits(v: f64) -> bool {
        if !v.is_finite() {
            return false;
        }
        if v == 0.0 {
            return true;
        }
        let a = v.abs();
        // mantissa bits actually used
        let bits = a.to_bits();
        let exp = ((bits >> 52) & 0x7ff) as i64;
        if exp == 0 {
            return false;
        }
        let frac = bits & ((1u64 << 52) - 1);
        let tz = if frac == 0 {
            52
        } else {
            frac.trailing_zeros() as i64
        };
        let e = exp - 1075 + tz; // exponent of the odd mantissa
        let mbits = 53 - tz;
        e <= 60 && -e <= 100 && mbits + e.max(0) <= 100
    }

    /// nearest f64 up to 1.5 ulp (exact whenever numerator and denominator are below 2^53
    /// and the quotient is representable, which holds for all alphabet values)
    pub fn to_f64(self) -> f64 {
        (self.n as f64) / (self.d as f64)
    }
}

impl fmt::Debug for Rat {
    fn fmt(&self, f: &mut fmt::Formatter<'_>) -> fmt::Result {
        if self.d == 1 {
            write!(f, "{}", self.n)
        } else {
            write!(f, "{}/{}", self.n, self.d)
        }
    }
}
impl fmt::Display for Rat {
    fn fmt(&self, f: &mut fmt::Formatter<'_>) -> fmt::Result {
        fmt::Debug::fmt(self, f)
    }
}

impl Add for Rat {
    type Output = Rat;
    fn add(self, o: Rat) -> Rat {
        let g = gcd(self.d, o.d);
        let l = self.d / g;
        let r = o.d / g;
        // n = self.n * r + o.n * l ; d = l * o.d
        let n = cadd(cmul(self.n, r), cmul(o.n, l));
        let d = cmul(l, o.d);
        Rat::new(n, d)
    }
}
impl Neg for Rat {
    type Output = Rat;
    fn neg(self) -> Rat {
        Rat {
            n: -self.n,
            d: self.d,
        }
    }
}
impl Sub for Rat {
    type Output = Rat;
    fn sub(self, o: Rat) -> Rat {
        self + (-o)
    }
}
impl Mul for Rat {
    type Output = Rat;
    fn mul(self, o: Rat) -> Rat {
        let g1 = gcd(self.n, o.d);
        let g2 = gcd(o.n, self.d);
        let (g1, g2) = (g1.max(1), g2.max(1));
        let n = cmul(self.n / g1, o.n / g2);
        let d = cmul(self.d / g2, o.d / g1);
        Rat::new(n, d)
    }
}
impl Div for Rat {
    type Output = Rat;
    fn div(self, o: Rat) -> Rat {
        self * o.recip()
    }
}
impl PartialOrd for Rat {
    fn partial_cmp(&self, o: &Rat) -> Option<Ordering> {
        Some(self.cmp(o))
    }
}
impl Ord for Rat {
    fn cmp(&self, o: &Rat) -> Ordering {
        // compare n1/d1 with n2/d2 ; d > 0
        let l = cmul(self.n, o.d);
        let r = cmul(o.n, self.d);
        l.cmp(&r)
    }
}

/// Solve the dense linear system `a x = b` exactly (Gaussian elimination, first non-zero
/// pivot). Returns `None` when the matrix is singular.
pub fn solve(mut a: Vec<Vec<Rat>>, mut b: Vec<Rat>) -> Option<Vec<Rat>> {
    let n = b.len();
    for c in 0..n {
        let p = (c..n).find(|&r| !a[r][c].is_zero())?;
        a.swap(c, p);
        b.swap(c, p);
        let piv = a[c][c];
        for r in c + 1..n {
            if a[r][c].is_zero() {
                continue;
            }
            let f = a[r][c] / piv;
            for k in c..n {
                if !a[c][k].is_zero() {
                    a[r][k] = a[r][k] - f * a[c][k];
                }
            }
            b[r] = b[r] - f * b[c];
        }
    }
    let mut x = vec![Rat::ZERO; n];
    for c in (0..n).rev() {
        let mut s = b[c];
        for k in c + 1..n {
            if !a[c][k].is_zero() {
                s = s - a[c][k] * x[k];
            }
        }
        x[c] = s / a[c][c];
    }
    Some(x)
}

#[cfg(test)]
mod tests {
    use super::*;
    #[test]
    fn roundtrip() {
        for v in [
            0.0,
            1.0,
            -1.5,
            0.1,
            1e-10,
            123456.789,
            1.0 + f64::EPSILON,
            -3.0e10,
        ] {
            let r = Rat::from_f64(v);
            assert_eq!(r.to_f64(), v, "{v}");
        }
        let third = Rat::new(1, 3);
        assert!((third.to_f64() - 1.0 / 3.0).abs() <= f64::EPSILON / 4.0);
        assert_eq!(Rat::new(2, 4), Rat::new(1, 2));
        assert_eq!(Rat::new(1, 2) + Rat::new(1, 3), Rat::new(5, 6));
        assert!(Rat::new(-1, 2) < Rat::new(1, 3));
    }
    #[test]
    fn solve_small() {
        let a = vec![
            vec![Rat::int(2), Rat::int(1)],
            vec![Rat::int(1), Rat::int(3)],
        ];
        let x = solve(a, vec![Rat::int(3), Rat::int(5)]).unwrap();
        assert_eq!(x, vec![Rat::new(4, 5), Rat::new(7, 5)]);
    }
}

impl Rat {
    /// exact conversion, `None` when the value needs more than the supported range
    pub fn try_from_f64(v: f64) -> Option<Rat> {
        if Rat::f64_fits(v) {
            Some(Rat::from_f64(v))
        } else {
            None
        }
    }
}

/// number of significant mantissa bits of a finite non-zero f64 (0 for 0.0)
pub fn sig_bits(v: f64) -> u32 {
    if v == 0.0 || !v.is_finite() {
        return 0;
    }
    let bits = v.to_bits();
    let exp = (bits >> 52) & 0x7ff;
    let frac = bits & ((1u64 << 52) - 1);
    let m = if exp == 0 { frac } else { frac | (1u64 << 52) };
    64 - m.leading_zeros() - m.trailing_zeros()
}

impl Rat {
    /// largest integer <= self
    pub fn floor(self) -> i128 {
        self.n.div_euclid(self.d)
    }
}
