//! Reference models ("boring" oracles): linear scan lookup, exact chord, exact bilinear form,
//! exact rational cubic spline obtained from the *defining* equations and certified against
//! the textbook definition, and the spec classifier for `monotonic_prop`.

use crate::rat::{solve, Rat};

/// index i with x[i] <= q < x[i+1]; clamped to 0 / n-2 outside; last interval for q == x[n-1]
pub fn bracket_scan<T: PartialOrd + Copy>(x: &[T], q: T) -> usize {
    let n = x.len();
    if q <= x[0] {
        return 0;
    }
    if q >= x[n - 1] {
        return n - 2;
    }
    let mut i = 0;
    while i + 2 < n && x[i + 1] <= q {
        i += 1;
    }
    i
}

/// exact value at q of the line through (x1,y1), (x2,y2)
pub fn chord(x1: Rat, y1: Rat, x2: Rat, y2: Rat, q: Rat) -> Rat {
    y1 + (y2 - y1) * (q - x1) / (x2 - x1)
}

/// exact bilinear form of the cell [x1,x2] x [y1,y2] with corner values z11 (x1,y1), z12 (x1,y2),
/// z21 (x2,y1), z22 (x2,y2)
#[allow(clippy::too_many_arguments)]
pub fn bilinear(
    x1: Rat,
    x2: Rat,
    y1: Rat,
    y2: Rat,
    z11: Rat,
    z12: Rat,
    z21: Rat,
    z22: Rat,
    qx: Rat,
    qy: Rat,
) -> Rat {
    let tx = (qx - x1) / (x2 - x1);
    let ty = (qy - y1) / (y2 - y1);
    let one = Rat::ONE;
    z11 * (one - tx) * (one - ty) + z21 * tx * (one - ty) + z12 * (one - tx) * ty + z22 * tx * ty
}

/// condition at one end of one lane
#[derive(Clone, Copy, Debug, PartialEq)]
pub enum End {
    NotAKnot,
    Natural,
    Clamped,
    First(f64),
    Second(f64),
}

impl End {
    pub fn name(&self) -> String {
        match self {
            End::NotAKnot => "NotAKnot".into(),
            End::Natural => "Natural".into(),
            End::Clamped => "Clamped".into(),
            End::First(v) => format!("FirstDeriv({v})"),
            End::Second(v) => format!("SecondDeriv({v})"),
        }
    }
}

#[derive(Clone, Copy, Debug, PartialEq)]
pub enum Cond {
    Ends(End, End),
    Periodic,
}

impl Cond {
    pub fn name(&self) -> String {
        match self {
            Cond::Periodic => "Periodic".into(),
            Cond::Ends(l, r) => format!("{}|{}", l.name(), r.name()),
        }
    }
}

/// The exact spline of one lane in Hermite form (knot slopes k).
#[derive(Clone, Debug)]
pub struct RefSpline {
    pub x: Vec<Rat>,
    pub y: Vec<Rat>,
    pub k: Vec<Rat>,
}

impl RefSpline {
    pub fn n(&self) -> usize {
        self.x.len()
    }
    pub fn h(&self, i: usize) -> Rat {
        self.x[i + 1] - self.x[i]
    }
    fn d(&self, i: usize) -> Rat {
        (self.y[i + 1] - self.y[i]) / self.h(i)
    }

    /// Solve the defining equations: C2 at interior knots + the two end conditions.
    pub fn solve(x: &[Rat], y: &[Rat], cond: Cond) -> RefSpline {
        let n = x.len();
        assert!(n >= 3 && y.len() == n);
        let h: Vec<Rat> = (0..n - 1).map(|i| x[i + 1] - x[i]).collect();
        let d: Vec<Rat> = (0..n - 1).map(|i| (y[i + 1] - y[i]) / h[i]).collect();
        let z = Rat::ZERO;
        let mut a = vec![vec![z; n]; n];
        let mut b = vec![z; n];
        let two = Rat::int(2);
        let three = Rat::int(3);
        // C2 at interior knots: k[i-1]/h[i-1] + 2 k[i] (1/h[i-1] + 1/h[i]) + k[i+1]/h[i]
        //                      = 3 (d[i-1]/h[i-1] + d[i]/h[i])
        for i in 1..n - 1 {
            a[i][i - 1] = h[i - 1].recip();
            a[i][i] = two * (h[i - 1].recip() + h[i].recip());
            a[i][i + 1] = h[i].recip();
            b[i] = three * (d[i - 1] / h[i - 1] + d[i] / h[i]);
        }
        match cond {
            Cond::Periodic => {
                // S'(x0) = S'(xn)
                a[0][0] = Rat::ONE;
                a[0][n - 1] = -Rat::ONE;
                // S''(x0+) = S''(xn-):
                // (6 d0 - 4 k0 - 2 k1)/h0 = (-6 d_{n-2} + 2 k_{n-2} + 4 k_{n-1})/h_{n-2}
                let hl = h[0];
                let hr = h[n - 2];
                a[n - 1][0] = a[n - 1][0] + Rat::int(-4) / hl;
                a[n - 1][1] = a[n - 1][1] + Rat::int(-2) / hl;
                a[n - 1][n - 2] = a[n - 1][n - 2] - two / hr;
                a[n - 1][n - 1] = a[n - 1][n - 1] - Rat::int(4) / hr;
                b[n - 1] = Rat::int(-6) * d[n - 2] / hr - Rat::int(6) * d[0] / hl;
            }
            Cond::Ends(l, r) => {
                let parabola = n == 3 && l == End::NotAKnot && r == End::NotAKnot;
                // left end
                match l {
                    End::NotAKnot if parabola => {
                        // S''' = 0 on the first piece
                        a[0][0] = Rat::ONE;
                        a[0][1] = Rat::ONE;
                        b[0] = two * d[0];
                    }
                    End::NotAKnot => {
                        // (k0 + k1 - 2 d0)/h0^2 = (k1 + k2 - 2 d1)/h1^2
                        let w0 = (h[0] * h[0]).recip();
                        let w1 = (h[1] * h[1]).recip();
                        a[0][0] = w0;
                        a[0][1] = w0 - w1;
                        a[0][2] = -w1;
                        b[0] = two * d[0] * w0 - two * d[1] * w1;
                    }
                    End::Natural | End::Second(_) => {
                        let v = match l {
                            End::Second(v) => Rat::from_f64(v),
                            _ => z,
                        };
                        // S''(x0) = (6 d0 - 4 k0 - 2 k1)/h0 = v
                        a[0][0] = Rat::int(4);
                        a[0][1] = two;
                        b[0] = Rat::int(6) * d[0] - v * h[0];
                    }
                    End::Clamped | End::First(_) => {
                        let v = match l {
                            End::First(v) => Rat::from_f64(v),
                            _ => z,
                        };
                        a[0][0] = Rat::ONE;
                        b[0] = v;
                    }
                }
                let m = n - 1;
                match r {
                    End::NotAKnot if parabola => {
                        a[m][m - 1] = Rat::ONE;
                        a[m][m] = Rat::ONE;
                        b[m] = two * d[m - 1];
                    }
                    End::NotAKnot => {
                        // (k_{m-2} + k_{m-1} - 2 d_{m-2})/h_{m-2}^2 = (k_{m-1} + k_m - 2 d_{m-1})/h_{m-1}^2
                        let w0 = (h[m - 2] * h[m - 2]).recip();
                        let w1 = (h[m - 1] * h[m - 1]).recip();
                        a[m][m - 2] = w0;
                        a[m][m - 1] = w0 - w1;
                        a[m][m] = -w1;
                        b[m] = two * d[m - 2] * w0 - two * d[m - 1] * w1;
                    }
                    End::Natural | End::Second(_) => {
                        let v = match r {
                            End::Second(v) => Rat::from_f64(v),
                            _ => z,
                        };
                        // S''(xm) = (-6 d_{m-1} + 2 k_{m-1} + 4 k_m)/h_{m-1} = v
                        a[m][m - 1] = two;
                        a[m][m] = Rat::int(4);
                        b[m] = Rat::int(6) * d[m - 1] + v * h[m - 1];
                    }
                    End::Clamped | End::First(_) => {
                        let v = match r {
                            End::First(v) => Rat::from_f64(v),
                            _ => z,
                        };
                        a[m][m] = Rat::ONE;
                        b[m] = v;
                    }
                }
            }
        }
        let k = solve(a, b).unwrap_or_else(|| {
            panic!("reference spline system is singular (machinery error): x={x:?} cond={cond:?}")
        });
        let s = RefSpline {
            x: x.to_vec(),
            y: y.to_vec(),
            k,
        };
        s.certify(cond);
        s
    }

    /// value of piece `i` at `q` (any q: the piece polynomial is continued outside)
    pub fn eval_piece(&self, i: usize, q: Rat) -> Rat {
        let h = self.h(i);
        let t = (q - self.x[i]) / h;
        let one = Rat::ONE;
        let dy = self.y[i + 1] - self.y[i];
        let a = self.k[i] * h - dy;
        let b = dy - self.k[i + 1] * h;
        (one - t) * self.y[i] + t * self.y[i + 1] + t * (one - t) * (a * (one - t) + b * t)
    }
    /// first derivative of piece i at local parameter t in {0, 1} (end = false: left end)
    pub fn d1(&self, i: usize, right: bool) -> Rat {
        if right {
            self.k[i + 1]
        } else {
            self.k[i]
        }
    }
    pub fn d2(&self, i: usize, right: bool) -> Rat {
        let h = self.h(i);
        let d = self.d(i);
        if right {
            (Rat::int(-6) * d + Rat::int(2) * self.k[i] + Rat::int(4) * self.k[i + 1]) / h
        } else {
            (Rat::int(6) * d - Rat::int(4) * self.k[i] - Rat::int(2) * self.k[i + 1]) / h
        }
    }
    pub fn d3(&self, i: usize) -> Rat {
        let h = self.h(i);
        Rat::int(6) * (self.k[i] + self.k[i + 1] - Rat::int(2) * self.d(i)) / (h * h)
    }

    /// value at q with the library's convention: the bracketing piece inside, the end piece outside
    pub fn eval(&self, q: Rat) -> Rat {
        let i = bracket_scan(&self.x, q);
        self.eval_piece(i, q)
    }

    /// magnitude used to scale rounding tolerances: max(|y_i|, |h_i k_i|, |h_i k_{i+1}|)
    pub fn scale(&self) -> Rat {
        let mut s = Rat::ZERO;
        for i in 0..self.n() {
            s = s.max(self.y[i].abs());
        }
        for i in 0..self.n() - 1 {
            s = s.max((self.h(i) * self.k[i]).abs());
            s = s.max((self.h(i) * self.k[i + 1]).abs());
        }
        s
    }

    /// largest |S'| over all pieces is bounded by this (max over knots and piece extrema bound)
    pub fn lipschitz(&self) -> Rat {
        // |S'| on a piece <= max(|k_i|, |k_{i+1}|) + 3/2 |d_i| ... use a safe bound:
        // S' is a quadratic through k_i, k_{i+1} with mean d_i: |S'| <= |k_i| + |k_{i+1}| + 3|d_i|
        let mut l = Rat::ZERO;
        for i in 0..self.n() - 1 {
            let b = self.k[i].abs() + self.k[i + 1].abs() + Rat::int(3) * self.d(i).abs();
            l = l.max(b);
        }
        l
    }

    /// Exact certificate against the textbook definition: C2 at interior knots and the end
    /// conditions (interpolation and C1 hold by the Hermite construction). A failure is a
    /// machinery error.
    pub fn certify(&self, cond: Cond) {
        let n = self.n();
        for i in 1..n - 1 {
            assert!(
                self.d2(i - 1, true) == self.d2(i, false),
                "certificate failed: S'' jumps at knot {i} (machinery error)"
            );
            assert!(self.eval_piece(i - 1, self.x[i]) == self.y[i]);
            assert!(self.eval_piece(i, self.x[i]) == self.y[i]);
        }
        let m = n - 1;
        match cond {
            Cond::Periodic => {
                assert!(self.y[0] == self.y[m], "periodic data must close");
                assert!(self.k[0] == self.k[m], "certificate failed: periodic S'");
                assert!(
                    self.d2(0, false) == self.d2(m - 1, true),
                    "certificate failed: periodic S''"
                );
            }
            Cond::Ends(l, r) => {
                let z = Rat::ZERO;
                match l {
                    End::NotAKnot => {
                        assert!(
                            self.d3(0) == self.d3(1),
                            "certificate failed: left not-a-knot"
                        )
                    }
                    End::Natural => assert!(self.d2(0, false) == z),
                    End::Clamped => assert!(self.k[0] == z),
                    End::First(v) => assert!(self.k[0] == Rat::from_f64(v)),
                    End::Second(v) => assert!(self.d2(0, false) == Rat::from_f64(v)),
                }
                match r {
                    End::NotAKnot => assert!(
                        self.d3(m - 1) == self.d3(m - 2),
                        "certificate failed: right not-a-knot"
                    ),
                    End::Natural => assert!(self.d2(m - 1, true) == z),
                    End::Clamped => assert!(self.k[m] == z),
                    End::First(v) => assert!(self.k[m] == Rat::from_f64(v)),
                    End::Second(v) => assert!(self.d2(m - 1, true) == Rat::from_f64(v)),
                }
                if n == 3 && l == End::NotAKnot && r == End::NotAKnot {
                    assert!(
                        self.d3(0) == z && self.d3(1) == z,
                        "n=3 not-a-knot is the parabola"
                    );
                }
            }
        }
    }
}

/// Spec classification of `monotonic_prop`, written from the statement.
#[derive(Clone, Copy, Debug, PartialEq, Eq, PartialOrd, Ord)]
pub enum MonoSpec {
    RisingStrict,
    Rising,
    FallingStrict,
    Falling,
    NotMonotonic,
}

/// `rel[i]` is the relation between element i and i+1: -1 (<), 0 (=), 1 (>)
pub fn mono_spec(rel: &[i8]) -> MonoSpec {
    let lt = rel.iter().filter(|&&r| r < 0).count();
    let eq = rel.iter().filter(|&&r| r == 0).count();
    let gt = rel.iter().filter(|&&r| r > 0).count();
    if rel.is_empty() {
        return MonoSpec::NotMonotonic;
    }
    if gt == 0 && eq == 0 {
        MonoSpec::RisingStrict
    } else if lt == 0 && eq == 0 {
        MonoSpec::FallingStrict
    } else if gt == 0 && lt > 0 {
        MonoSpec::Rising
    } else if lt == 0 && gt > 0 {
        MonoSpec::Falling
    } else {
        // mixed directions, or constant
        MonoSpec::NotMonotonic
    }
}

// ---------------------------------------------------------------------------------------
// reference values with automatic fallback from exact rationals to double-double

use crate::dd::DD;

pub fn rat_to_dd(r: Rat) -> DD {
    fn split(n: i128) -> DD {
        let hi = n as f64;
        let lo = (n - hi as i128) as f64;
        DD { hi, lo }
    }
    split(r.num()) / split(r.den())
}

/// tiny denormal-range values are replaced by 0 for the rational computation
fn ratq(v: f64) -> Rat {
    Rat::try_from_f64(v).unwrap_or_else(|| {
        if v.abs() < 1e-290 {
            Rat::ZERO
        } else {
            // force the fallback
            panic!("{}", crate::rat::RAT_OVERFLOW)
        }
    })
}

/// value at q of the line through (x1,y1),(x2,y2); `exact` tells which number system was used
pub fn chord_ref(x1: f64, y1: f64, x2: f64, y2: f64, q: f64) -> (DD, bool) {
    match crate::driver::try_exact(|| chord(ratq(x1), ratq(y1), ratq(x2), ratq(y2), ratq(q))) {
        Some(r) => (rat_to_dd(r), true),
        None => {
            let (x1, y1, x2, y2, q) = (
                DD::new(x1),
                DD::new(y1),
                DD::new(x2),
                DD::new(y2),
                DD::new(q),
            );
            (y1 + (y2 - y1) * (q - x1) / (x2 - x1), false)
        }
    }
}

/// exact bilinear form (see [`bilinear`]) with fallback
#[allow(clippy::too_many_arguments)]
pub fn bilinear_ref(
    x1: f64,
    x2: f64,
    y1: f64,
    y2: f64,
    z11: f64,
    z12: f64,
    z21: f64,
    z22: f64,
    qx: f64,
    qy: f64,
) -> (DD, bool) {
    match crate::driver::try_exact(|| {
        bilinear(
            ratq(x1),
            ratq(x2),
            ratq(y1),
            ratq(y2),
            ratq(z11),
            ratq(z12),
            ratq(z21),
            ratq(z22),
            ratq(qx),
            ratq(qy),
        )
    }) {
        Some(r) => (rat_to_dd(r), true),
        None => {
            let d = DD::new;
            let tx = (d(qx) - d(x1)) / (d(x2) - d(x1));
            let ty = (d(qy) - d(y1)) / (d(y2) - d(y1));
            let one = d(1.0);
            (
                d(z11) * (one - tx) * (one - ty)
                    + d(z21) * tx * (one - ty)
                    + d(z12) * (one - tx) * ty
                    + d(z22) * tx * ty,
                false,
            )
        }
    }
}

/// |got - reference| as f64
pub fn err_dd(got: f64, r: DD) -> f64 {
    if !got.is_finite() {
        return f64::INFINITY;
    }
    (DD::new(got) - r).abs().to_f64()
}

impl RefSpline {
    /// value of piece `i` at `q` in double-double arithmetic (used when q is not a grid value)
    pub fn eval_piece_dd(&self, i: usize, q: f64) -> DD {
        let x0 = rat_to_dd(self.x[i]);
        let h = rat_to_dd(self.h(i));
        let (y0, y1) = (rat_to_dd(self.y[i]), rat_to_dd(self.y[i + 1]));
        let (k0, k1) = (rat_to_dd(self.k[i]), rat_to_dd(self.k[i + 1]));
        let t = (DD::new(q) - x0) / h;
        let one = DD::new(1.0);
        let dy = y1 - y0;
        let a = k0 * h - dy;
        let b = dy - k1 * h;
        (one - t) * y0 + t * y1 + t * (one - t) * (a * (one - t) + b * t)
    }
    /// exact when possible, double-double otherwise
    pub fn eval_piece_ref(&self, i: usize, q: f64) -> (DD, bool) {
        match crate::driver::try_exact(|| self.eval_piece(i, ratq(q))) {
            Some(r) => (rat_to_dd(r), true),
            None => (self.eval_piece_dd(i, q), false),
        }
    }
}
