//! Minimal JSON value + writer (no external crates).

use std::fmt;

#[derive(Clone, Debug, PartialEq)]
pub enum Json {
    Null,
    Bool(bool),
    Int(i128),
    Num(f64),
    Str(String),
    Arr(Vec<Json>),
    Obj(Vec<(String, Json)>),
}

impl Json {
    pub fn str(s: &str) -> Json {
        Json::Str(s.to_string())
    }
    pub fn obj(v: Vec<(&str, Json)>) -> Json {
        Json::Obj(v.into_iter().map(|(k, v)| (k.to_string(), v)).collect())
    }
    pub fn f64s(v: &[f64]) -> Json {
        Json::Arr(v.iter().map(|&x| Json::Num(x)).collect())
    }
    pub fn usizes(v: &[usize]) -> Json {
        Json::Arr(v.iter().map(|&x| Json::Int(x as i128)).collect())
    }
    pub fn strs<S: AsRef<str>>(v: &[S]) -> Json {
        Json::Arr(v.iter().map(|x| Json::str(x.as_ref())).collect())
    }
}

fn esc(s: &str, f: &mut fmt::Formatter<'_>) -> fmt::Result {
    f.write_str("\"")?;
    for c in s.chars() {
        match c {
            '"' => f.write_str("\\\"")?,
            '\\' => f.write_str("\\\\")?,
            '\n' => f.write_str("\\n")?,
            '\r' => f.write_str("\\r")?,
            '\t' => f.write_str("\\t")?,
            c if (c as u32) < 0x20 => write!(f, "\\u{:04x}", c as u32)?,
            c => write!(f, "{c}")?,
        }
    }
    f.write_str("\"")
}

impl fmt::Display for Json {
    fn fmt(&self, f: &mut fmt::Formatter<'_>) -> fmt::Result {
        match self {
            Json::Null => f.write_str("null"),
            Json::Bool(b) => write!(f, "{b}"),
            Json::Int(i) => write!(f, "{i}"),
            Json::Num(x) => {
                if x.is_finite() {
                    // shortest round-trip representation
                    let s = format!("{x:?}");
                    f.write_str(&s)
                } else {
                    // JSON has no NaN / inf: keep them readable as strings
                    write!(f, "\"{x}\"")
                }
            }
            Json::Str(s) => esc(s, f),
            Json::Arr(v) => {
                f.write_str("[")?;
                for (i, x) in v.iter().enumerate() {
                    if i > 0 {
                        f.write_str(", ")?;
                    }
                    write!(f, "{x}")?;
                }
                f.write_str("]")
            }
            Json::Obj(v) => {
                f.write_str("{")?;
                for (i, (k, x)) in v.iter().enumerate() {
                    if i > 0 {
                        f.write_str(", ")?;
                    }
                    esc(k, f)?;
                    f.write_str(": ")?;
                    write!(f, "{x}")?;
                }
                f.write_str("}")
            }
        }
    }
}
