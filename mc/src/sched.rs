//! A depth-first scheduler for shuttle with an optional *preemption bound* (iterative context
//! bounding, Musuvathi & Qadeer): every schedule with at most `bound` preemptions is explored
//! exactly once; `bound = usize::MAX` gives shuttle's unbounded DFS.
//!
//! A preemption is a switch away from the running task at a scheduling point while that task
//! could have continued; switches at the end of a task (or when it blocks) are free.

use shuttle::scheduler::{Schedule, Scheduler, Task, TaskId};

#[derive(Debug, Clone, Copy)]
struct Level {
    /// index of the chosen option in the canonical order (running task first, then ascending ids)
    choice: usize,
    /// number of options that were allowed at this level
    allowed: usize,
}

#[derive(Debug)]
pub struct PbDfs {
    bound: usize,
    levels: Vec<Level>,
    steps: usize,
    used: usize,
    pub iterations: usize,
    /// largest number of preemptions in any explored schedule
    pub max_used: usize,
    /// (shared) largest number of scheduling decisions in one execution
    probe: Option<std::sync::Arc<std::sync::atomic::AtomicUsize>>,
    /// stop after this many executions (None = run to completion)
    max_iterations: Option<usize>,
    /// stop starting new executions after this instant; the flag records that it happened
    deadline: Option<(std::time::Instant, std::sync::Arc<std::sync::atomic::AtomicBool>)>,
}

impl PbDfs {
    pub fn new(bound: usize) -> Self {
        PbDfs {
            bound,
            levels: vec![],
            steps: 0,
            used: 0,
            iterations: 0,
            max_used: 0,
            probe: None,
            max_iterations: None,
            deadline: None,
        }
    }
    /// exactly one execution under the default schedule (sequential reference runs of code that may
    /// start threads of its own)
    pub fn single() -> Self {
        let mut s = Self::new(0);
        s.max_iterations = Some(1);
        s
    }
    /// give up (and set `flag`) when the search is still running at `at`
    pub fn with_deadline(mut self, at: std::time::Instant, flag: std::sync::Arc<std::sync::atomic::AtomicBool>) -> Self {
        self.deadline = Some((at, flag));
        self
    }
    /// a single execution (the default schedule) that records its number of scheduling decisions
    pub fn probe(steps: std::sync::Arc<std::sync::atomic::AtomicUsize>) -> Self {
        let mut s = Self::new(0);
        s.probe = Some(steps);
        s.max_iterations = Some(1);
        s
    }
    fn has_more(&self, from: usize) -> bool {
        self.levels[from.min(self.levels.len())..].iter().any(|l| l.choice + 1 < l.allowed)
    }
}

impl Scheduler for PbDfs {
    fn new_execution(&mut self) -> Option<Schedule> {
        if let Some(p) = &self.probe {
            p.fetch_max(self.steps, std::sync::atomic::Ordering::SeqCst);
        }
        if self.iterations > 0 && !self.has_more(0) {
            return None;
        }
        if self.max_iterations.map(|m| self.iterations >= m).unwrap_or(false) {
            return None;
        }
        if let Some((at, flag)) = &self.deadline {
            if self.iterations > 0 && std::time::Instant::now() > *at {
                flag.store(true, std::sync::atomic::Ordering::SeqCst);
                return None;
            }
        }
        self.iterations += 1;
        self.steps = 0;
        self.used = 0;
        Some(Schedule::new(0x12345678))
    }

    fn next_task(&mut self, runnable: &[&Task], current: Option<TaskId>, _is_yielding: bool) -> Option<TaskId> {
        // canonical order: the running task first (if it can continue), then ascending ids
        let mut opts: Vec<TaskId> = runnable.iter().map(|t| t.id()).collect();
        opts.sort();
        let cur_runnable = current.map(|c| opts.contains(&c)).unwrap_or(false);
        if cur_runnable {
            let c = current.unwrap();
            opts.retain(|&t| t != c);
            opts.insert(0, c);
        }
        let allowed = if cur_runnable && self.used >= self.bound { 1 } else { opts.len() };
        let choice = if self.steps >= self.levels.len() {
            assert_eq!(self.steps, self.levels.len());
            self.levels.push(Level { choice: 0, allowed });
            0
        } else if self.has_more(self.steps + 1) {
            self.levels[self.steps].choice
        } else {
            let l = self.levels[self.steps];
            assert!(l.choice + 1 < l.allowed, "DFS bookkeeping: no alternative left at this level");
            assert_eq!(l.allowed, allowed, "replay diverged: the harness does not own every choice");
            self.levels.truncate(self.steps);
            self.levels.push(Level { choice: l.choice + 1, allowed });
            l.choice + 1
        };
        assert!(choice < opts.len(), "replay diverged: fewer runnable tasks than recorded");
        let next = opts[choice];
        if cur_runnable && Some(next) != current {
            self.used += 1;
            self.max_used = self.max_used.max(self.used);
        }
        self.steps += 1;
        Some(next)
    }

    fn next_u64(&mut self) -> u64 {
        panic!("random data requested from the DFS scheduler");
    }
}
