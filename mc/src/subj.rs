//! Helpers that drive the *real* ndarray-interp code (the subject): boundary construction,
//! builders, uniform outcome capture.

use ndarray::{Array, Array1, Array2, ArrayD, Dimension, IxDyn, OwnedRepr, RemoveAxis};
use ndarray_interp::interp1d::cubic_spline::{
    BoundaryCondition, CubicSpline, CubicSplineStrategy, RowBoundary, SingleBoundary,
};
use ndarray_interp::interp1d::{Interp1D, Interp1DBuilder, Linear};
use ndarray_interp::{BuilderError, InterpolateError};

use crate::fl::Fl;
use crate::refm::{Cond, End};

/// Whole-data-set boundary specification (type independent)
#[derive(Clone, Debug, PartialEq)]
pub enum BcSpec {
    TopNotAKnot,
    TopNatural,
    TopClamped,
    Periodic,
    /// `Individual` with the same non-mixed row condition for every lane
    RowAll(End),
    /// `Individual(Mixed)` with one (left, right) pair per lane (cyclic over lanes)
    Lanes(Vec<(End, End)>),
    /// `Individual` with one row specification per lane (cyclic): non-mixed row kinds and
    /// mixed pairs in one array
    Rows(Vec<RowSpec>),
}

/// one row of an `Individual` boundary array
#[derive(Clone, Copy, Debug, PartialEq)]
pub enum RowSpec {
    /// RowBoundary::{NotAKnot, Natural, Clamped}
    Kind(End),
    /// RowBoundary::Mixed
    Mixed(End, End),
}

impl RowSpec {
    pub fn name(&self) -> String {
        match self {
            RowSpec::Kind(e) => format!("Row:{}", e.name()),
            RowSpec::Mixed(l, r) => format!("{}|{}", l.name(), r.name()),
        }
    }
    pub fn cond(&self) -> Cond {
        match self {
            RowSpec::Kind(e) => Cond::Ends(*e, *e),
            RowSpec::Mixed(l, r) => Cond::Ends(*l, *r),
        }
    }
}

impl BcSpec {
    pub fn name(&self) -> String {
        match self {
            BcSpec::TopNotAKnot => "NotAKnot".into(),
            BcSpec::TopNatural => "Natural".into(),
            BcSpec::TopClamped => "Clamped".into(),
            BcSpec::Periodic => "Periodic".into(),
            BcSpec::RowAll(e) => format!("Row:{}", e.name()),
            BcSpec::Lanes(v) => {
                if v.len() == 1 {
                    format!("Mixed:{}|{}", v[0].0.name(), v[0].1.name())
                } else {
                    let mut s = format!("PerLane{}:", v.len());
                    for (i, (l, r)) in v.iter().enumerate().take(4) {
                        if i > 0 {
                            s.push(';');
                        }
                        s.push_str(&format!("{}|{}", l.name(), r.name()));
                    }
                    if v.len() > 4 {
                        s.push_str(";..");
                    }
                    s
                }
            }
            BcSpec::Rows(v) => {
                let mut s = format!("Rows{}:", v.len());
                for (i, r) in v.iter().enumerate().take(6) {
                    if i > 0 {
                        s.push(';');
                    }
                    s.push_str(&r.name());
                }
                if v.len() > 6 {
                    s.push_str(";..");
                }
                s
            }
        }
    }
    pub fn is_periodic(&self) -> bool {
        matches!(self, BcSpec::Periodic)
    }
    /// the mathematical condition for lane `j`
    pub fn cond(&self, j: usize) -> Cond {
        match self {
            BcSpec::TopNotAKnot => Cond::Ends(End::NotAKnot, End::NotAKnot),
            BcSpec::TopNatural => Cond::Ends(End::Natural, End::Natural),
            BcSpec::TopClamped => Cond::Ends(End::Clamped, End::Clamped),
            BcSpec::Periodic => Cond::Periodic,
            BcSpec::RowAll(e) => Cond::Ends(*e, *e),
            BcSpec::Lanes(v) => {
                let (l, r) = v[j % v.len()];
                Cond::Ends(l, r)
            }
            BcSpec::Rows(v) => v[j % v.len()].cond(),
        }
    }
}

pub fn single<T: Fl>(e: End) -> SingleBoundary<T> {
    match e {
        End::NotAKnot => SingleBoundary::NotAKnot,
        End::Natural => SingleBoundary::Natural,
        End::Clamped => SingleBoundary::Clamped,
        End::First(v) => SingleBoundary::FirstDeriv(T::from_f64_exact(v).expect("boundary value")),
        End::Second(v) => {
            SingleBoundary::SecondDeriv(T::from_f64_exact(v).expect("boundary value"))
        }
    }
}

/// the RowBoundary of lane j
pub fn row<T: Fl>(spec: &BcSpec, j: usize) -> RowBoundary<T> {
    match spec {
        BcSpec::RowAll(End::NotAKnot) => RowBoundary::NotAKnot,
        BcSpec::RowAll(End::Natural) => RowBoundary::Natural,
        BcSpec::RowAll(End::Clamped) => RowBoundary::Clamped,
        BcSpec::RowAll(e) => RowBoundary::Mixed {
            left: single(*e),
            right: single(*e),
        },
        BcSpec::Lanes(v) => {
            let (l, r) = v[j % v.len()];
            RowBoundary::Mixed {
                left: single(l),
                right: single(r),
            }
        }
        BcSpec::Rows(v) => match v[j % v.len()] {
            RowSpec::Kind(End::NotAKnot) => RowBoundary::NotAKnot,
            RowSpec::Kind(End::Natural) => RowBoundary::Natural,
            RowSpec::Kind(End::Clamped) => RowBoundary::Clamped,
            RowSpec::Kind(e) => RowBoundary::Mixed {
                left: single(e),
                right: single(e),
            },
            RowSpec::Mixed(l, r) => RowBoundary::Mixed {
                left: single(l),
                right: single(r),
            },
        },
        BcSpec::TopNotAKnot => RowBoundary::NotAKnot,
        BcSpec::TopNatural => RowBoundary::Natural,
        BcSpec::TopClamped => RowBoundary::Clamped,
        BcSpec::Periodic => unreachable!("Periodic has no row form"),
    }
}

/// Boundary condition object for data with the given trailing shape (lanes in C order).
pub fn boundary<T: Fl, D: Dimension>(spec: &BcSpec, trailing: &[usize]) -> BoundaryCondition<T, D> {
    match spec {
        BcSpec::TopNotAKnot => BoundaryCondition::NotAKnot,
        BcSpec::TopNatural => BoundaryCondition::Natural,
        BcSpec::TopClamped => BoundaryCondition::Clamped,
        BcSpec::Periodic => BoundaryCondition::Periodic,
        _ => {
            let lanes: usize = trailing.iter().product();
            let rows: Vec<RowBoundary<T>> = (0..lanes).map(|j| row(spec, j)).collect();
            let mut shape = vec![1usize];
            shape.extend_from_slice(trailing);
            let arr = ArrayD::from_shape_vec(IxDyn(&shape), rows).expect("boundary array shape");
            BoundaryCondition::Individual(
                arr.into_dimensionality::<D>()
                    .expect("boundary dimensionality"),
            )
        }
    }
}

pub type Spline1D<T, D> =
    Interp1D<OwnedRepr<T>, OwnedRepr<T>, D, CubicSplineStrategy<OwnedRepr<T>, D>>;
pub type Linear1D<T, D> = Interp1D<OwnedRepr<T>, OwnedRepr<T>, D, Linear>;

/// build a spline interpolator over owned arrays
pub fn build_spline<T: Fl, D: Dimension + RemoveAxis>(
    x: &[T],
    data: Array<T, D>,
    spec: &BcSpec,
    extrapolate: bool,
) -> Result<Spline1D<T, D>, BuilderError> {
    let trailing: Vec<usize> = data.shape()[1..].to_vec();
    let strat = CubicSpline::new()
        .extrapolate(extrapolate)
        .boundary(boundary::<T, D>(spec, &trailing));
    Interp1DBuilder::new(data)
        .x(ax1(x))
        .strategy(strat)
        .build()
}

pub fn build_linear<T: Fl, D: Dimension + RemoveAxis>(
    x: Option<&[T]>,
    data: Array<T, D>,
    extrapolate: bool,
) -> Result<Linear1D<T, D>, BuilderError> {
    let b = Interp1DBuilder::new(data).strategy(Linear::new().extrapolate(extrapolate));
    match x {
        Some(x) => b.x(ax1(x)).build(),
        None => b.build(),
    }
}

/// n x L data matrix from lanes
pub fn lanes_matrix<T: Fl>(lanes: &[Vec<T>]) -> Array2<T> {
    let n = lanes[0].len();
    let l = lanes.len();
    Array2::from_shape_fn((n, l), |(i, j)| lanes[j][i])
}

pub fn builder_err_kind(e: &BuilderError) -> &'static str {
    match e {
        BuilderError::NotEnoughData(_) => "NotEnoughData",
        BuilderError::Monotonic(_) => "Monotonic",
        BuilderError::ShapeError(_) => "ShapeError",
        BuilderError::ValueError(_) => "ValueError",
    }
}

pub fn interp_err_kind(e: &InterpolateError) -> &'static str {
    match e {
        InterpolateError::OutOfBounds(_) => "OutOfBounds",
    }
}

/// Outcome of one call of the subject, in comparable form
#[derive(Clone, Debug, PartialEq)]
pub enum Outcome {
    /// values as bit patterns (NaN canonicalised) + shape
    Ok(Vec<usize>, Vec<u64>),
    Err(&'static str),
    Panic,
}

impl Outcome {
    pub fn class(&self) -> &'static str {
        match self {
            Outcome::Ok(..) => "Ok",
            Outcome::Err(k) => k,
            Outcome::Panic => "panic",
        }
    }
}

pub fn canon_bits<T: Fl>(v: T) -> u64 {
    if v.is_nan() {
        u64::MAX
    } else {
        v.bits()
    }
}

pub fn outcome_of<T: Fl, D: Dimension>(
    r: Result<Result<Array<T, D>, InterpolateError>, String>,
) -> Outcome {
    match r {
        Err(_) => Outcome::Panic,
        Ok(Err(e)) => Outcome::Err(interp_err_kind(&e)),
        Ok(Ok(a)) => Outcome::Ok(
            a.shape().to_vec(),
            a.iter().map(|&v| canon_bits(v)).collect(),
        ),
    }
}

// ---------------------------------------------------------------------------------------
// entry point drivers

use ndarray::{Ix2, IxDyn as Dyn};
use ndarray_interp::interp1d::Interp1DStrategy;

#[derive(Clone, Debug, PartialEq)]
pub enum Fail {
    Err(&'static str, String),
    Panic(String),
}

impl Fail {
    pub fn class(&self) -> String {
        match self {
            Fail::Err(k, _) => format!("Err({k})"),
            Fail::Panic(_) => "panic".into(),
        }
    }
    pub fn text(&self) -> String {
        match self {
            Fail::Err(k, m) => format!("Err({k}: {m})"),
            Fail::Panic(m) => format!("panic({m})"),
        }
    }
}

fn flat<T: Fl>(
    r: Result<Result<ArrayD<T>, InterpolateError>, String>,
    q: usize,
) -> Result<Array2<T>, Fail> {
    match r {
        Err(p) => Err(Fail::Panic(p)),
        Ok(Err(e)) => Err(Fail::Err(interp_err_kind(&e), e.to_string())),
        Ok(Ok(a)) => {
            let l = if q == 0 { 0 } else { a.len() / q };
            let v: Vec<T> = a.iter().cloned().collect();
            Ok(Array2::from_shape_vec((q, l), v).expect("result reshape"))
        }
    }
}

pub const ENTRIES_1D: [&str; 7] = [
    "interp",
    "interp_array/Ix1",
    "interp_array/Ix2",
    "interp_array/IxDyn",
    "interp_array/Ix3",
    "interp_into/dirty-buffer",
    "interp_array_into/Ix1/dirty-buffer",
];

/// the queries padded (by repeating the last one) to a multiple of 4 and arranged as (2, m, 2)
fn shape3<T: Fl>(qs: &[T]) -> ndarray::Array3<T> {
    let mut v = qs.to_vec();
    while v.len() % 4 != 0 || v.is_empty() {
        v.push(*qs.last().expect("at least one query"));
    }
    let m = v.len() / 4;
    ndarray::Array3::from_shape_vec((2, m, 2), v).expect("query shape")
}

/// first q rows of a padded result
fn unpad<T: Fl>(a: ArrayD<T>, q: usize) -> ArrayD<T> {
    let total = a.shape().iter().take(3).product::<usize>();
    let l = if total == 0 { 0 } else { a.len() / total };
    let v: Vec<T> = a.iter().cloned().take(q * l).collect();
    ArrayD::from_shape_vec(Dyn(&[q, l]), v).expect("unpad")
}

/// what a caller's buffer holds before an `*_into` call: never zero, so that a write that adds to or
/// skips elements shows
fn dirt<T: Fl>() -> T {
    T::from_f64_lossy(f64::NAN)
}

/// Evaluate all queries through one entry point of an interpolator over (n x L) data.
/// The result is normalised to a (Q x L) matrix.
pub fn eval_entry<T: Fl, S>(
    ip: &Interp1D<OwnedRepr<T>, OwnedRepr<T>, Ix2, S>,
    qs: &[T],
    entry: &str,
) -> Result<Array2<T>, Fail>
where
    // (Sync: a tree may require it of the interpolator for its batch entry points)
    S: Interp1DStrategy<OwnedRepr<T>, OwnedRepr<T>, Ix2> + Sync,
{
    let q = qs.len();
    match entry {
        "interp" => {
            let r = crate::driver::catch(|| {
                let mut rows: Vec<T> = vec![];
                for &x in qs {
                    match ip.interp(x) {
                        Ok(a) => rows.extend(a.iter().cloned()),
                        Err(e) => return Err(e),
                    }
                }
                let l = if q == 0 { 0 } else { rows.len() / q };
                Ok(ArrayD::from_shape_vec(Dyn(&[q, l]), rows).expect("rows"))
            });
            flat(r, q)
        }
        "interp_array/Ix1" => {
            let qa = Array1::from(qs.to_vec());
            flat(
                crate::driver::catch(|| ip.interp_array(&qa).map(|a| a.into_dyn())),
                q,
            )
        }
        "interp_array/Ix2" => {
            let shape = if q % 2 == 0 && q > 0 {
                (q / 2, 2)
            } else {
                (q, 1)
            };
            let qa = Array2::from_shape_vec(shape, qs.to_vec()).expect("query shape");
            flat(
                crate::driver::catch(|| ip.interp_array(&qa).map(|a| a.into_dyn())),
                q,
            )
        }
        "interp_array/IxDyn" => {
            let qa = ArrayD::from_shape_vec(Dyn(&[q]), qs.to_vec()).expect("query shape");
            flat(
                crate::driver::catch(|| ip.interp_array(&qa).map(|a| a.into_dyn())),
                q,
            )
        }
        "interp_array/Ix3" => {
            if q == 0 {
                return flat(Ok(Ok(ArrayD::from_elem(Dyn(&[0, 0]), T::zero()))), 0);
            }
            let qa = shape3(qs);
            flat(
                crate::driver::catch(|| ip.interp_array(&qa).map(|a| unpad(a.into_dyn(), q))),
                q,
            )
        }
        "interp_into/dirty-buffer" => {
            let l = ip.index_point(0).1.len();
            let r = crate::driver::catch(|| {
                let mut rows: Vec<T> = vec![];
                for &x in qs {
                    let mut buf = Array1::from_elem(l, dirt::<T>());
                    match ip.interp_into(x, buf.view_mut()) {
                        Ok(()) => rows.extend(buf.iter().cloned()),
                        Err(e) => return Err(e),
                    }
                }
                Ok(ArrayD::from_shape_vec(Dyn(&[q, l]), rows).expect("rows"))
            });
            flat(r, q)
        }
        "interp_array_into/Ix1/dirty-buffer" => {
            let l = ip.index_point(0).1.len();
            let qa = Array1::from(qs.to_vec());
            let mut buf = Array2::from_elem((q, l), dirt::<T>());
            let r = crate::driver::catch(|| ip.interp_array_into(&qa, buf.view_mut()));
            flat(r.map(|r| r.map(|_| buf.into_dyn())), q)
        }
        _ => unreachable!("unknown entry {entry}"),
    }
}

/// The same logical (n x L) matrix in different memory layouts: C order, F order, and
/// "lanes reversed in memory" (contiguous, negative stride along the lane axis).
pub fn layouts2<T: Fl>(data: &Array2<T>) -> Vec<(&'static str, Array2<T>)> {
    let (n, l) = data.dim();
    let mut f = Array2::<T>::zeros(ndarray::ShapeBuilder::f((n, l)));
    f.assign(data);
    let mut rev = Array2::from_shape_fn((n, l), |(i, j)| data[[i, l - 1 - j]]);
    rev.invert_axis(ndarray::Axis(1));
    debug_assert!(rev == *data && f == *data);
    vec![("C", data.clone()), ("F", f), ("rev", rev)]
}

// ---------------------------------------------------------------------------------------
// 2-D

use ndarray::{Array3, Ix3};
use ndarray_interp::interp2d::{Bilinear, Interp2D, Interp2DBuilder, Interp2DStrategy};

pub type Bilin2D<T, D> = Interp2D<OwnedRepr<T>, OwnedRepr<T>, OwnedRepr<T>, D, Bilinear>;

pub fn build_bilinear<T: Fl, D>(
    x: Option<&[T]>,
    y: Option<&[T]>,
    data: Array<T, D>,
    extrapolate: bool,
) -> Result<Bilin2D<T, D>, BuilderError>
where
    D: Dimension + RemoveAxis,
    D::Smaller: RemoveAxis,
{
    let b = Interp2DBuilder::new(data).strategy(Bilinear::new().extrapolate(extrapolate));
    match (x, y) {
        (Some(x), Some(y)) => b
            .x(ax1(x))
            .y(ax1(y))
            .build(),
        (Some(x), None) => b.x(ax1(x)).build(),
        (None, Some(y)) => b.y(ax1(y)).build(),
        (None, None) => b.build(),
    }
}

pub const ENTRIES_2D: [&str; 7] = [
    "interp",
    "interp_array/Ix1",
    "interp_array/Ix2",
    "interp_array/IxDyn",
    "interp_array/Ix3",
    "interp_into/dirty-buffer",
    "interp_array_into/Ix1/dirty-buffer",
];

/// Evaluate all (qx, qy) pairs through one entry point of a 2-D interpolator over (nx x ny x L)
/// data. The result is normalised to (Q x L).
pub fn eval_entry2<T: Fl, S>(
    ip: &Interp2D<OwnedRepr<T>, OwnedRepr<T>, OwnedRepr<T>, Ix3, S>,
    qx: &[T],
    qy: &[T],
    entry: &str,
) -> Result<Array2<T>, Fail>
where
    S: Interp2DStrategy<OwnedRepr<T>, OwnedRepr<T>, OwnedRepr<T>, Ix3>,
{
    let q = qx.len();
    assert_eq!(q, qy.len());
    match entry {
        "interp" => {
            let r = crate::driver::catch(|| {
                let mut rows: Vec<T> = vec![];
                for (&x, &y) in qx.iter().zip(qy) {
                    match ip.interp(x, y) {
                        Ok(a) => rows.extend(a.iter().cloned()),
                        Err(e) => return Err(e),
                    }
                }
                let l = if q == 0 { 0 } else { rows.len() / q };
                Ok(ArrayD::from_shape_vec(Dyn(&[q, l]), rows).expect("rows"))
            });
            flat(r, q)
        }
        "interp_array/Ix1" => {
            let (xa, ya) = (Array1::from(qx.to_vec()), Array1::from(qy.to_vec()));
            flat(
                crate::driver::catch(|| ip.interp_array(&xa, &ya).map(|a| a.into_dyn())),
                q,
            )
        }
        "interp_array/Ix2" => {
            let shape = if q % 2 == 0 && q > 0 { (q / 2, 2) } else { (q, 1) };
            let xa = Array2::from_shape_vec(shape, qx.to_vec()).expect("query shape");
            let ya = Array2::from_shape_vec(shape, qy.to_vec()).expect("query shape");
            flat(
                crate::driver::catch(|| ip.interp_array(&xa, &ya).map(|a| a.into_dyn())),
                q,
            )
        }
        "interp_array/IxDyn" => {
            let xa = ArrayD::from_shape_vec(Dyn(&[q]), qx.to_vec()).expect("query shape");
            let ya = ArrayD::from_shape_vec(Dyn(&[q]), qy.to_vec()).expect("query shape");
            flat(
                crate::driver::catch(|| ip.interp_array(&xa, &ya).map(|a| a.into_dyn())),
                q,
            )
        }
        "interp_array/Ix3" => {
            if q == 0 {
                return flat(Ok(Ok(ArrayD::from_elem(Dyn(&[0, 0]), T::zero()))), 0);
            }
            let (xa, ya) = (shape3(qx), shape3(qy));
            flat(
                crate::driver::catch(|| ip.interp_array(&xa, &ya).map(|a| unpad(a.into_dyn(), q))),
                q,
            )
        }
        "interp_into/dirty-buffer" => {
            let l = ip.index_point(0, 0).2.len();
            let r = crate::driver::catch(|| {
                let mut rows: Vec<T> = vec![];
                for (&x, &y) in qx.iter().zip(qy) {
                    let mut buf = Array1::from_elem(l, dirt::<T>());
                    match ip.interp_into(x, y, buf.view_mut()) {
                        Ok(()) => rows.extend(buf.iter().cloned()),
                        Err(e) => return Err(e),
                    }
                }
                Ok(ArrayD::from_shape_vec(Dyn(&[q, l]), rows).expect("rows"))
            });
            flat(r, q)
        }
        "interp_array_into/Ix1/dirty-buffer" => {
            let l = ip.index_point(0, 0).2.len();
            let (xa, ya) = (Array1::from(qx.to_vec()), Array1::from(qy.to_vec()));
            let mut buf = Array2::from_elem((q, l), dirt::<T>());
            let r = crate::driver::catch(|| ip.interp_array_into(&xa, &ya, buf.view_mut()));
            flat(r.map(|r| r.map(|_| buf.into_dyn())), q)
        }
        _ => unreachable!("unknown entry {entry}"),
    }
}

/// The same logical (nx x ny x L) array in different memory layouts.
pub fn layouts3<T: Fl>(data: &Array3<T>) -> Vec<(&'static str, Array3<T>)> {
    let (nx, ny, l) = data.dim();
    let mut f = Array3::<T>::zeros(ndarray::ShapeBuilder::f((nx, ny, l)));
    f.assign(data);
    // x and y exchanged in memory: stored as (ny, nx, L) in C order, viewed as (nx, ny, L)
    let sw = Array3::from_shape_fn((ny, nx, l), |(j, i, k)| data[[i, j, k]]).permuted_axes([1, 0, 2]);
    // lanes reversed in memory
    let mut rev = Array3::from_shape_fn((nx, ny, l), |(i, j, k)| data[[i, j, l - 1 - k]]);
    rev.invert_axis(ndarray::Axis(2));
    // y reversed in memory
    let mut revy = Array3::from_shape_fn((nx, ny, l), |(i, j, k)| data[[i, ny - 1 - j, k]]);
    revy.invert_axis(ndarray::Axis(1));
    debug_assert!(f == *data && sw == *data && rev == *data && revy == *data);
    vec![
        ("C", data.clone()),
        ("F", f),
        ("xy-swapped", sw),
        ("lanes-rev", rev),
        ("y-rev", revy),
    ]
}

// ---------------------------------------------------------------------------------------
// general call drivers: any entry point x any query shape (static rank 0..4 or dynamic)

use ndarray::{Ix0, Ix1, Ix4};

pub const CALLS: [&str; 6] = [
    "interp",
    "interp_into",
    "interp_array/static",
    "interp_array/dyn",
    "interp_array_into/static",
    "interp_array_into/dyn",
];

fn shaped<T: Fl, D: Dimension>(qs: &[T], shape: &[usize]) -> Array<T, D> {
    ArrayD::from_shape_vec(Dyn(shape), qs.to_vec())
        .expect("query shape")
        .into_dimensionality::<D>()
        .expect("query rank")
}

fn buf_for<T: Fl, D: Dimension>(shape: &[usize], trailing: &[usize]) -> Array<T, D> {
    let mut s = shape.to_vec();
    s.extend_from_slice(trailing);
    // poison so that unwritten elements are visible
    ArrayD::from_elem(Dyn(&s), T::from_f64_lossy(-777.25))
        .into_dimensionality::<D>()
        .expect("buffer rank")
}

/// Call one entry point of a 1-D interpolator over (n x L) data with the queries `qs` arranged
/// in `qshape`. Result normalised to (Q x L).
pub fn call1d<T: Fl, S>(
    ip: &Interp1D<OwnedRepr<T>, OwnedRepr<T>, Ix2, S>,
    qs: &[T],
    qshape: &[usize],
    l: usize,
    call: &str,
) -> Result<Array2<T>, Fail>
where
    // (Sync: a tree may require it of the interpolator for its batch entry points)
    S: Interp1DStrategy<OwnedRepr<T>, OwnedRepr<T>, Ix2> + Sync,
{
    let q = qs.len();
    assert_eq!(q, qshape.iter().product::<usize>());
    macro_rules! arr {
        ($dq:ty) => {{
            let qa: Array<T, $dq> = shaped(qs, qshape);
            flat(
                crate::driver::catch(|| ip.interp_array(&qa).map(|a| a.into_dyn())),
                q,
            )
        }};
    }
    macro_rules! arr_into {
        ($dq:ty, $dout:ty) => {{
            let qa: Array<T, $dq> = shaped(qs, qshape);
            let mut buf: Array<T, $dout> = buf_for(qshape, &[l]);
            let r = crate::driver::catch(|| ip.interp_array_into(&qa, buf.view_mut()));
            flat(r.map(|r| r.map(|_| buf.into_dyn())), q)
        }};
    }
    match call {
        "interp" => {
            let r = crate::driver::catch(|| {
                let mut rows: Vec<T> = vec![];
                for &x in qs {
                    match ip.interp(x) {
                        Ok(a) => rows.extend(a.iter().cloned()),
                        Err(e) => return Err(e),
                    }
                }
                Ok(ArrayD::from_shape_vec(Dyn(&[q, l]), rows).expect("rows"))
            });
            flat(r, q)
        }
        "interp_into" => {
            let r = crate::driver::catch(|| {
                let mut rows: Vec<T> = vec![];
                for &x in qs {
                    let mut buf = Array1::from_elem(l, T::from_f64_lossy(-777.25));
                    match ip.interp_into(x, buf.view_mut()) {
                        Ok(()) => rows.extend(buf.iter().cloned()),
                        Err(e) => return Err(e),
                    }
                }
                Ok(ArrayD::from_shape_vec(Dyn(&[q, l]), rows).expect("rows"))
            });
            flat(r, q)
        }
        "interp_array/static" => match qshape.len() {
            0 => arr!(Ix0),
            1 => arr!(Ix1),
            2 => arr!(Ix2),
            3 => arr!(Ix3),
            4 => arr!(Ix4),
            _ => arr!(Dyn), // no static type for more than 4 query axes here
        },
        "interp_array/dyn" => arr!(Dyn),
        "interp_array_into/static" => match qshape.len() {
            0 => arr_into!(Ix0, Ix1),
            1 => arr_into!(Ix1, Ix2),
            2 => arr_into!(Ix2, Ix3),
            3 => arr_into!(Ix3, Ix4),
            4 => arr_into!(Ix4, ndarray::Ix5),
            _ => arr_into!(Dyn, Dyn),
        },
        "interp_array_into/dyn" => arr_into!(Dyn, Dyn),
        _ => unreachable!("unknown call {call}"),
    }
}

/// Same for a 2-D interpolator over (nx x ny x L) data.
#[allow(clippy::too_many_arguments)]
pub fn call2d<T: Fl, S>(
    ip: &Interp2D<OwnedRepr<T>, OwnedRepr<T>, OwnedRepr<T>, Ix3, S>,
    qx: &[T],
    qy: &[T],
    qshape: &[usize],
    l: usize,
    call: &str,
) -> Result<Array2<T>, Fail>
where
    S: Interp2DStrategy<OwnedRepr<T>, OwnedRepr<T>, OwnedRepr<T>, Ix3>,
{
    let q = qx.len();
    assert_eq!(q, qshape.iter().product::<usize>());
    assert_eq!(q, qy.len());
    macro_rules! arr {
        ($dq:ty) => {{
            let xa: Array<T, $dq> = shaped(qx, qshape);
            let ya: Array<T, $dq> = shaped(qy, qshape);
            flat(
                crate::driver::catch(|| ip.interp_array(&xa, &ya).map(|a| a.into_dyn())),
                q,
            )
        }};
    }
    macro_rules! arr_into {
        ($dq:ty, $dout:ty) => {{
            let xa: Array<T, $dq> = shaped(qx, qshape);
            let ya: Array<T, $dq> = shaped(qy, qshape);
            let mut buf: Array<T, $dout> = buf_for(qshape, &[l]);
            let r = crate::driver::catch(|| ip.interp_array_into(&xa, &ya, buf.view_mut()));
            flat(r.map(|r| r.map(|_| buf.into_dyn())), q)
        }};
    }
    match call {
        "interp" => {
            let r = crate::driver::catch(|| {
                let mut rows: Vec<T> = vec![];
                for (&x, &y) in qx.iter().zip(qy) {
                    match ip.interp(x, y) {
                        Ok(a) => rows.extend(a.iter().cloned()),
                        Err(e) => return Err(e),
                    }
                }
                Ok(ArrayD::from_shape_vec(Dyn(&[q, l]), rows).expect("rows"))
            });
            flat(r, q)
        }
        "interp_into" => {
            let r = crate::driver::catch(|| {
                let mut rows: Vec<T> = vec![];
                for (&x, &y) in qx.iter().zip(qy) {
                    let mut buf = Array1::from_elem(l, T::from_f64_lossy(-777.25));
                    match ip.interp_into(x, y, buf.view_mut()) {
                        Ok(()) => rows.extend(buf.iter().cloned()),
                        Err(e) => return Err(e),
                    }
                }
                Ok(ArrayD::from_shape_vec(Dyn(&[q, l]), rows).expect("rows"))
            });
            flat(r, q)
        }
        "interp_array/static" => match qshape.len() {
            0 => arr!(Ix0),
            1 => arr!(Ix1),
            2 => arr!(Ix2),
            3 => arr!(Ix3),
            4 => arr!(Ix4),
            _ => arr!(Dyn), // no static type for more than 4 query axes here
        },
        "interp_array/dyn" => arr!(Dyn),
        "interp_array_into/static" => match qshape.len() {
            0 => arr_into!(Ix0, Ix1),
            1 => arr_into!(Ix1, Ix2),
            2 => arr_into!(Ix2, Ix3),
            3 => arr_into!(Ix3, Ix4),
            4 => arr_into!(Ix4, ndarray::Ix5),
            _ => arr_into!(Dyn, Dyn),
        },
        "interp_array_into/dyn" => arr_into!(Dyn, Dyn),
        _ => unreachable!("unknown call {call}"),
    }
}


// ---------------------------------------------------------------------------------------
// axis storage

thread_local! {
    static AXIS_REV: std::cell::Cell<bool> = const { std::cell::Cell::new(false) };
}

/// When set, every axis handed to a builder by this module is an owned array whose memory
/// order is reversed (negative stride) - same logical contents.
pub fn set_axis_reversed_in_memory(on: bool) {
    AXIS_REV.with(|c| c.set(on));
}

pub fn ax1<T: Fl>(x: &[T]) -> Array1<T> {
    if AXIS_REV.with(|c| c.get()) {
        let mut r: Vec<T> = x.to_vec();
        r.reverse();
        let mut a = Array1::from(r);
        a.invert_axis(ndarray::Axis(0));
        a
    } else {
        Array1::from(x.to_vec())
    }
}


/// The same boundary specification in other axis units: the axis is multiplied by `cx` (a power
/// of two), so first derivatives divide by cx and second derivatives by cx^2. `None` when a
/// converted value is not finite.
pub fn spec_in_axis_units(spec: &BcSpec, cx: f64) -> Option<BcSpec> {
    let conv = |e: End| -> Option<End> {
        Some(match e {
            End::First(v) => {
                let w = v / cx;
                if !w.is_finite() {
                    return None;
                }
                End::First(w)
            }
            End::Second(v) => {
                let w = v / (cx * cx);
                if !w.is_finite() {
                    return None;
                }
                End::Second(w)
            }
            o => o,
        })
    };
    Some(match spec {
        BcSpec::Lanes(v) => BcSpec::Lanes(v.iter().map(|&(l, r)| Some((conv(l)?, conv(r)?))).collect::<Option<Vec<_>>>()?),
        BcSpec::RowAll(e) => BcSpec::RowAll(conv(*e)?),
        BcSpec::Rows(v) => BcSpec::Rows(
            v.iter()
                .map(|r| {
                    Some(match r {
                        RowSpec::Kind(e) => RowSpec::Kind(conv(*e)?),
                        RowSpec::Mixed(l, r) => RowSpec::Mixed(conv(*l)?, conv(*r)?),
                    })
                })
                .collect::<Option<Vec<_>>>()?,
        ),
        o => o.clone(),
    })
}


// ---------------------------------------------------------------------------------------
// builder option histories

/// One call on the `CubicSpline` strategy builder
#[derive(Clone, Copy, Debug, PartialEq)]
pub enum SplineOpt {
    Boundary(u8), // 0 NotAKnot, 1 Natural, 2 Clamped, 3 Periodic
    Extrapolate(bool),
}

/// Every sequence of 1..=max_len option calls; the configuration a sequence denotes is the last
/// boundary (default NotAKnot) and the last extrapolate flag (default false) it contains.
pub fn spline_option_histories(max_len: usize) -> Vec<Vec<SplineOpt>> {
    let alphabet = [SplineOpt::Boundary(0), SplineOpt::Boundary(1), SplineOpt::Boundary(3), SplineOpt::Extrapolate(true), SplineOpt::Extrapolate(false)];
    let mut all: Vec<Vec<SplineOpt>> = vec![vec![]];
    let mut frontier: Vec<Vec<SplineOpt>> = vec![vec![]];
    for _ in 0..max_len {
        let mut next = vec![];
        for h in &frontier {
            for a in &alphabet {
                let mut v = h.clone();
                v.push(*a);
                next.push(v);
            }
        }
        all.extend(next.iter().cloned());
        frontier = next;
    }
    all
}

pub fn denoted(h: &[SplineOpt]) -> (u8, bool) {
    let mut b = 0u8;
    let mut e = false;
    for o in h {
        match o {
            SplineOpt::Boundary(k) => b = *k,
            SplineOpt::Extrapolate(v) => e = *v,
        }
    }
    (b, e)
}

/// Build a spline over 1-lane-per-column data by applying the option calls in the given order.
pub fn build_spline_with_history(x: &[f64], data: Array2<f64>, h: &[SplineOpt]) -> Result<Spline1D<f64, Ix2>, BuilderError> {
    let mut s = CubicSpline::new();
    for o in h {
        s = match o {
            SplineOpt::Boundary(0) => s.boundary(BoundaryCondition::NotAKnot),
            SplineOpt::Boundary(1) => s.boundary(BoundaryCondition::Natural),
            SplineOpt::Boundary(2) => s.boundary(BoundaryCondition::Clamped),
            SplineOpt::Boundary(_) => s.boundary(BoundaryCondition::Periodic),
            SplineOpt::Extrapolate(v) => s.extrapolate(*v),
        };
    }
    Interp1DBuilder::new(data).x(ax1(x)).strategy(s).build()
}

/// Compare every option history whose denoted configuration satisfies `keep` with the canonical
/// two-call history of that configuration: all answers (values and errors) must be bit-identical.
pub fn check_spline_option_histories(max_len: usize, keep: &dyn Fn(u8, bool) -> bool, out: &mut crate::driver::JobOut) {
    use crate::json::Json;
    let x = [-2.0, -1.25, 0.5, 1.0, 3.5, 4.0];
    let n = x.len();
    let mk = |periodic: bool| -> Array2<f64> {
        let mut d = Array2::from_shape_fn((n, 2), |(i, j)| ((i * 3 + j * 5) as f64 * 0.37).sin() * (1.0 + j as f64) + 0.25 * i as f64);
        if periodic {
            for j in 0..2 {
                d[[n - 1, j]] = d[[0, j]];
            }
        }
        d
    };
    let span = x[n - 1] - x[0];
    let mut qs: Vec<f64> = vec![];
    for w in x.windows(2) {
        qs.extend([w[0], w[0] + 0.3 * (w[1] - w[0])]);
    }
    qs.extend([x[n - 1], x[0] - 0.01, x[0] - 0.4 * span, x[0] - 2.5 * span, x[n - 1] + 0.01, x[n - 1] + 0.7 * span, x[n - 1] + 3.25 * span]);
    let observe = |ip: &Spline1D<f64, Ix2>| -> Vec<Result<Vec<u64>, String>> { qs.iter().map(|&q| crate::driver::catch(|| ip.interp(q)).map_err(|p| format!("panic: {p}")).and_then(|r| r.map(|a| a.iter().map(|v| v.to_bits()).collect()).map_err(|e| e.to_string()))).collect() };
    let mut canon: std::collections::BTreeMap<(u8, bool), Vec<Result<Vec<u64>, String>>> = Default::default();
    for h in spline_option_histories(max_len) {
        let (b, e) = denoted(&h);
        if !keep(b, e) {
            continue;
        }
        let c = canon.entry((b, e)).or_insert_with(|| {
            let ip = build_spline_with_history(&x, mk(b == 3), &[SplineOpt::Extrapolate(e), SplineOpt::Boundary(b)]).expect("canonical configuration builds");
            observe(&ip)
        });
        out.states += 1;
        out.evals += 1;
        out.transitions += h.len() as u64;
        if h.len() >= 2 {
            out.nontrivial += 1;
        }
        let key = format!("builder-history:{h:?}").replace(' ', "");
        match crate::driver::catch(|| build_spline_with_history(&x, mk(b == 3), &h)) {
            Ok(Ok(ip)) => {
                let got = observe(&ip);
                out.outcome(if &got == c { "history:same-as-canonical" } else { "history:differs" });
                if &got != c {
                    let k = got.iter().zip(c.iter()).position(|(a, b)| a != b).unwrap_or(0);
                    let show = |r: &Result<Vec<u64>, String>| match r {
                        Ok(v) => format!("{:?}", v.iter().map(|b| f64::from_bits(*b)).collect::<Vec<_>>()),
                        Err(e) => format!("Err({e})"),
                    };
                    out.violate(
                        key,
                        format!("CubicSpline built with the option calls {h:?} (denoting boundary #{b}, extrapolate = {e}) answers q = {} with {}, the same configuration built with .extrapolate({e}).boundary(#{b}) with {}", qs[k], show(&got[k]), show(&c[k])),
                        Json::obj(vec![("option_calls", Json::str(&format!("{h:?}"))), ("x", Json::f64s(&x)), ("query", Json::Num(qs[k]))]),
                    );
                }
            }
            other => out.violate(key, format!("CubicSpline with the option calls {h:?} did not build: {:?}", other.map(|r| r.map(|_| ()))), Json::Null),
        }
    }
}


// ---------------------------------------------------------------------------------------
// knots on "round" positions, queries one ulp around them, batches at least as long as the axis

/// For every axis of three families of non-dyadic "round" knots (subsets of k/10, k/3, 7k/10 with
/// 4..6 knots) and a symmetric dyadic family: all knots, their two neighbouring floats and the interval
/// midpoints are answered (1) one by one on a fresh interpolator, (2) as one static rank-1 batch,
/// (3) as a dynamic rank-1 batch, (4) one by one again on the interpolator that has just served the
/// batches, (5) one by one on another fresh interpolator. All five must agree bit for bit
/// (Linear and CubicSpline).
pub fn edge_knot_batches(out: &mut crate::driver::JobOut, family: usize) {
    use crate::json::Json;
    let base: Vec<f64> = match family {
        0 => (0..10).map(|k| k as f64 * 0.1).collect(),
        1 => (0..10).map(|k| k as f64 / 3.0).collect(),
        2 => (0..10).map(|k| k as f64 * 0.7).collect(),
        _ => vec![-4.0, -2.0, -1.0, -0.5, 0.0, 0.5, 1.0, 2.0, 4.0, 8.0],
    };
    let m = base.len();
    for mask in 0u32..(1 << m) {
        let n = mask.count_ones() as usize;
        if !(4..=6).contains(&n) {
            continue;
        }
        let x: Vec<f64> = (0..m).filter(|i| mask >> i & 1 == 1).map(|i| base[i]).collect();
        // (family 3: data |x| and a generic lane; the others: generic)
        let data = Array2::from_shape_fn((n, 2), |(i, j)| if j == 0 { x[i].abs() } else { ((i * 5 + 1) as f64 * 0.37).sin() * 2.0 + 0.3 * i as f64 });
        let mut q: Vec<f64> = vec![];
        for (i, &k) in x.iter().enumerate() {
            q.push(k);
            if i > 0 {
                q.push(k.next_down());
            }
            if i + 1 < n {
                q.push(k.next_up());
                q.push(k + (x[i + 1] - k) * 0.5);
            }
        }
        let qa = ndarray::Array1::from(q.clone());
        let qd = ArrayD::from_shape_vec(IxDyn(&[q.len()]), q.clone()).unwrap();
        macro_rules! run {
            ($name:expr, $strat:expr) => {{
                let mk = || Interp1DBuilder::new(data.clone()).x(ax1(&x)).strategy($strat).build().expect("valid axis");
                macro_rules! singles {
                    ($ip:expr) => {
                        q.iter().flat_map(|&v| $ip.interp(v).expect("in range").iter().map(|t: &f64| t.to_bits()).collect::<Vec<u64>>()).collect::<Vec<u64>>()
                    };
                }
                // (in-range queries on a valid axis: a failure or panic here is a finding, not an engine error)
                let five = crate::driver::catch(|| {
                    let ip = mk();
                    let s1 = singles!(ip);
                    let b1: Vec<u64> = ip.interp_array(&qa).expect("in range").iter().map(|t| t.to_bits()).collect();
                    let b2: Vec<u64> = ip.interp_array(&qd).expect("in range").iter().map(|t| t.to_bits()).collect();
                    let s2 = singles!(ip);
                    let fresh = mk();
                    let s3 = singles!(fresh);
                    (s1, b1, b2, s2, s3)
                });
                let (s1, b1, b2, s2, s3) = match five {
                    Ok(f) => f,
                    Err(p) => {
                        out.evals += 1;
                        out.outcome("edge-knots:not answered");
                        out.violate(
                            format!("edge-knots:{}:family{family}:{mask:#x}", $name),
                            format!("{} over x = {x:?}: in-range queries (knots, their neighbours, midpoints) were not answered: {p}", $name),
                            Json::obj(vec![("x", Json::f64s(&x))]),
                        );
                        continue;
                    }
                };
                out.evals += 5;
                out.nontrivial += 5;
                out.transitions += 5 * q.len() as u64;
                out.states += 2;
                let all_same = s1 == b1 && s1 == b2 && s1 == s2 && s1 == s3;
                out.outcome(if all_same { "edge-knots:all five agree" } else { "edge-knots:differ" });
                if !all_same {
                    let which = if s1 != b1 { "the static rank-1 batch" } else if s1 != b2 { "the dynamic rank-1 batch" } else if s1 != s2 { "single queries after the batches (same interpolator)" } else { "single queries on a second fresh interpolator" };
                    let other = if s1 != b1 { &b1 } else if s1 != b2 { &b2 } else if s1 != s2 { &s2 } else { &s3 };
                    let k = s1.iter().zip(other.iter()).position(|(a, b)| a != b).unwrap_or(0);
                    out.violate(
                        format!("edge-knots:{}:family{family}:{mask:#x}", $name),
                        format!("{} over x = {x:?}: {which} differ(s) from single queries on a fresh interpolator at query {} (lane {}): {:e} vs {:e}", $name, q[k / 2], k % 2, f64::from_bits(other[k]), f64::from_bits(s1[k])),
                        Json::obj(vec![("x", Json::f64s(&x)), ("query", Json::Num(q[k / 2]))]),
                    );
                }
            }};
        }
        run!("Linear", Linear::new());
        run!("CubicSpline", CubicSpline::new());
    }
}
