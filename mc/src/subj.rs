//! Helpers that drive the *real* ndarray-interp code (the subject): boundary construction,
//! builders, uniform outcome capture.

use ndarray::{Array, Array1, Array2, ArrayD, Dimension, IxDyn, OwnedRepr, RemoveAxis};
use ndarray_interp::interp1d::cubic_spline::{
    BoundaryCondition, CubicSpline, CubicSplineStrategy, RowBoundary, SingleBoundary,
};
use ndarray_interp::interp1d::{Interp1D, Interp1DBuilder, Linear};
use ndarray_interp::{BuilderError, InterpolateError};

use crate::fl::Fl;
use crate::refm::{Cond, End};

/// Whole-data-set boundary specification (type independent)
#[derive(Clone, Debug, PartialEq)]
pub enum BcSpec {
    TopNotAKnot,
    TopNatural,
    TopClamped,
    Periodic,
    /// `Individual` with the same non-mixed row condition for every lane
    RowAll(End),
    /// `Individual(Mixed)` with one (left, right) pair per lane (cyclic over lanes)
    Lanes(Vec<(End, End)>),
}

impl BcSpec {
    pub fn name(&self) -> String {
        match self {
            BcSpec::TopNotAKnot => "NotAKnot".into(),
            BcSpec::TopNatural => "Natural".into(),
            BcSpec::TopClamped => "Clamped".into(),
            BcSpec::Periodic => "Periodic".into(),
            BcSpec::RowAll(e) => format!("Row:{}", e.name()),
            BcSpec::Lanes(v) => {
                if v.len() == 1 {
                    format!("Mixed:{}|{}", v[0].0.name(), v[0].1.name())
                } else {
                    let mut s = format!("PerLane{}:", v.len());
                    for (i, (l, r)) in v.iter().enumerate().take(4) {
                        if i > 0 {
                            s.push(';');
                        }
                        s.push_str(&format!("{}|{}", l.name(), r.name()));
                    }
                    if v.len() > 4 {
                        s.push_str(";..");
                    }
                    s
                }
            }
        }
    }
    pub fn is_periodic(&self) -> bool {
        matches!(self, BcSpec::Periodic)
    }
    /// the mathematical condition for lane `j`
    pub fn cond(&self, j: usize) -> Cond {
        match self {
            BcSpec::TopNotAKnot => Cond::Ends(End::NotAKnot, End::NotAKnot),
            BcSpec::TopNatural => Cond::Ends(End::Natural, End::Natural),
            BcSpec::TopClamped => Cond::Ends(End::Clamped, End::Clamped),
            BcSpec::Periodic => Cond::Periodic,
            BcSpec::RowAll(e) => Cond::Ends(*e, *e),
            BcSpec::Lanes(v) => {
                let (l, r) = v[j % v.len()];
                Cond::Ends(l, r)
            }
        }
    }
}

pub fn single<T: Fl>(e: End) -> SingleBoundary<T> {
    match e {
        End::NotAKnot => SingleBoundary::NotAKnot,
        End::Natural => SingleBoundary::Natural,
        End::Clamped => SingleBoundary::Clamped,
        End::First(v) => SingleBoundary::FirstDeriv(T::from_f64_exact(v).expect("boundary value")),
        End::Second(v) => {
            SingleBoundary::SecondDeriv(T::from_f64_exact(v).expect("boundary value"))
        }
    }
}

/// the RowBoundary of lane j
pub fn row<T: Fl>(spec: &BcSpec, j: usize) -> RowBoundary<T> {
    match spec {
        BcSpec::RowAll(End::NotAKnot) => RowBoundary::NotAKnot,
        BcSpec::RowAll(End::Natural) => RowBoundary::Natural,
        BcSpec::RowAll(End::Clamped) => RowBoundary::Clamped,
        BcSpec::RowAll(e) => RowBoundary::Mixed {
            left: single(*e),
            right: single(*e),
        },
        BcSpec::Lanes(v) => {
            let (l, r) = v[j % v.len()];
            RowBoundary::Mixed {
                left: single(l),
                right: single(r),
            }
        }
        BcSpec::TopNotAKnot => RowBoundary::NotAKnot,
        BcSpec::TopNatural => RowBoundary::Natural,
        BcSpec::TopClamped => RowBoundary::Clamped,
        BcSpec::Periodic => unreachable!("Periodic has no row form"),
    }
}

/// Boundary condition object for data with the given trailing shape (lanes in C order).
pub fn boundary<T: Fl, D: Dimension>(spec: &BcSpec, trailing: &[usize]) -> BoundaryCondition<T, D> {
    match spec {
        BcSpec::TopNotAKnot => BoundaryCondition::NotAKnot,
        BcSpec::TopNatural => BoundaryCondition::Natural,
        BcSpec::TopClamped => BoundaryCondition::Clamped,
        BcSpec::Periodic => BoundaryCondition::Periodic,
        _ => {
            let lanes: usize = trailing.iter().product();
            let rows: Vec<RowBoundary<T>> = (0..lanes).map(|j| row(spec, j)).collect();
            let mut shape = vec![1usize];
            shape.extend_from_slice(trailing);
            let arr = ArrayD::from_shape_vec(IxDyn(&shape), rows).expect("boundary array shape");
            BoundaryCondition::Individual(
                arr.into_dimensionality::<D>()
                    .expect("boundary dimensionality"),
            )
        }
    }
}

pub type Spline1D<T, D> =
    Interp1D<OwnedRepr<T>, OwnedRepr<T>, D, CubicSplineStrategy<OwnedRepr<T>, D>>;
pub type Linear1D<T, D> = Interp1D<OwnedRepr<T>, OwnedRepr<T>, D, Linear>;

/// build a spline interpolator over owned arrays
pub fn build_spline<T: Fl, D: Dimension + RemoveAxis>(
    x: &[T],
    data: Array<T, D>,
    spec: &BcSpec,
    extrapolate: bool,
) -> Result<Spline1D<T, D>, BuilderError> {
    let trailing: Vec<usize> = data.shape()[1..].to_vec();
    let strat = CubicSpline::new()
        .extrapolate(extrapolate)
        .boundary(boundary::<T, D>(spec, &trailing));
    Interp1DBuilder::new(data)
        .x(Array1::from(x.to_vec()))
        .strategy(strat)
        .build()
}

pub fn build_linear<T: Fl, D: Dimension + RemoveAxis>(
    x: Option<&[T]>,
    data: Array<T, D>,
    extrapolate: bool,
) -> Result<Linear1D<T, D>, BuilderError> {
    let b = Interp1DBuilder::new(data).strategy(Linear::new().extrapolate(extrapolate));
    match x {
        Some(x) => b.x(Array1::from(x.to_vec())).build(),
        None => b.build(),
    }
}

/// n x L data matrix from lanes
pub fn lanes_matrix<T: Fl>(lanes: &[Vec<T>]) -> Array2<T> {
    let n = lanes[0].len();
    let l = lanes.len();
    Array2::from_shape_fn((n, l), |(i, j)| lanes[j][i])
}

pub fn builder_err_kind(e: &BuilderError) -> &'static str {
    match e {
        BuilderError::NotEnoughData(_) => "NotEnoughData",
        BuilderError::Monotonic(_) => "Monotonic",
        BuilderError::ShapeError(_) => "ShapeError",
        BuilderError::ValueError(_) => "ValueError",
    }
}

pub fn interp_err_kind(e: &InterpolateError) -> &'static str {
    match e {
        InterpolateError::OutOfBounds(_) => "OutOfBounds",
    }
}

/// Outcome of one call of the subject, in comparable form
#[derive(Clone, Debug, PartialEq)]
pub enum Outcome {
    /// values as bit patterns (NaN canonicalised) + shape
    Ok(Vec<usize>, Vec<u64>),
    Err(&'static str),
    Panic,
}

impl Outcome {
    pub fn class(&self) -> &'static str {
        match self {
            Outcome::Ok(..) => "Ok",
            Outcome::Err(k) => k,
            Outcome::Panic => "panic",
        }
    }
}

pub fn canon_bits<T: Fl>(v: T) -> u64 {
    if v.is_nan() {
        u64::MAX
    } else {
        v.bits()
    }
}

pub fn outcome_of<T: Fl, D: Dimension>(
    r: Result<Result<Array<T, D>, InterpolateError>, String>,
) -> Outcome {
    match r {
        Err(_) => Outcome::Panic,
        Ok(Err(e)) => Outcome::Err(interp_err_kind(&e)),
        Ok(Ok(a)) => Outcome::Ok(a.shape().to_vec(), a.iter().map(|&v| canon_bits(v)).collect()),
    }
}
