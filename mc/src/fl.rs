//! Floating point element types of the subject (`f64`, `f32`) behind one trait, plus
//! bit-level helpers.

use crate::rat::Rat;
use ndarray_interp::interp1d::cubic_spline::SplineNum;
use std::fmt::{Debug, Display};

pub trait Fl:
    SplineNum + num_traits::Float + Debug + Display + Send + Sync + 'static + PartialOrd + Default
{
    const NAME: &'static str;
    /// machine epsilon (2^-52 / 2^-23) as f64
    const EPS: f64;
    fn to_f64(self) -> f64;
    /// round to nearest
    fn from_f64_lossy(v: f64) -> Self;
    /// `Some` iff `v` is exactly representable
    fn from_f64_exact(v: f64) -> Option<Self> {
        let t = Self::from_f64_lossy(v);
        if t.to_f64().to_bits() == v.to_bits() || (v.is_nan() && t.to_f64().is_nan()) {
            Some(t)
        } else {
            None
        }
    }
    fn bits(self) -> u64;
    fn up(self) -> Self;
    fn down(self) -> Self;
    fn rat(self) -> Rat {
        Rat::from_f64(self.to_f64())
    }
}

impl Fl for f64 {
    const NAME: &'static str = "f64";
    const EPS: f64 = f64::EPSILON;
    fn to_f64(self) -> f64 {
        self
    }
    fn from_f64_lossy(v: f64) -> Self {
        v
    }
    fn bits(self) -> u64 {
        self.to_bits()
    }
    fn up(self) -> Self {
        self.next_up()
    }
    fn down(self) -> Self {
        self.next_down()
    }
}

impl Fl for f32 {
    const NAME: &'static str = "f32";
    const EPS: f64 = f32::EPSILON as f64;
    fn to_f64(self) -> f64 {
        self as f64
    }
    fn from_f64_lossy(v: f64) -> Self {
        v as f32
    }
    fn bits(self) -> u64 {
        self.to_bits() as u64
    }
    fn up(self) -> Self {
        self.next_up()
    }
    fn down(self) -> Self {
        self.next_down()
    }
}

/// bit-identity with NaN payloads ignored (`+0` and `-0` are different)
pub fn same_bits<T: Fl>(a: T, b: T) -> bool {
    (a.is_nan() && b.is_nan()) || a.bits() == b.bits()
}

/// convert a whole vector exactly; `None` when one element is not representable in `T`
pub fn vec_exact<T: Fl>(v: &[f64]) -> Option<Vec<T>> {
    v.iter().map(|&x| T::from_f64_exact(x)).collect()
}

/// printable exact form of a float (hex bits + decimal)
pub fn show<T: Fl>(v: T) -> String {
    format!("{:e}[{:#x}]", v.to_f64(), v.bits())
}
