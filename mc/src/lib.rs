//! nimc - bounded-exhaustive model checking harness for ndarray-interp (see /verif/DESIGN.md)
pub mod alpha;
pub mod dd;
pub mod driver;
pub mod fl;
pub mod json;
pub mod rat;
pub mod refm;
pub mod spl;
pub mod subj;

pub use driver::{catch, finish, main_with, run_jobs, try_exact, Ctx, JobOut, Meta, Summary, Tier};
pub use json::Json;
