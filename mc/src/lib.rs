//! nimc - bounded-exhaustive model checking harness for ndarray-interp (see /verif/DESIGN.md)
pub mod alpha;
pub mod baton;
pub mod dd;
pub mod driver;
pub mod fl;
pub mod json;
pub mod rat;
pub mod sched;
pub mod refm;
pub mod spl;
pub mod subj;

pub use driver::{catch, finish, main_with, run_jobs, try_exact, Ctx, JobOut, Meta, Summary, Tier};
pub use json::Json;

/// Build an interpolator from input the check knows to be valid. When the build fails (a C10
/// matter, reported by the C10 check) the case is skipped and counted instead of judged.
#[macro_export]
macro_rules! valid_build {
    ($out:expr, $e:expr, $esc:expr) => {
        match $crate::catch(|| $e) {
            Ok(Ok(ip)) => ip,
            _ => {
                $out.count("skipped:build_of_valid_input_failed(C10_matter)", 1);
                $esc
            }
        }
    };
}
