//! C08 - every lane of n-dimensional data is interpolated independently.
use ndarray::{Array1, Array2, ArrayD, Axis, Dimension, Ix1, Ix2, Ix3, Ix4, Ix5, Ix6, IxDyn, RemoveAxis};
use nimc::alpha::{self, Axis as AxisA};
use nimc::refm::End;
use nimc::spl::k_for;
use nimc::subj::{build_bilinear, build_linear, build_spline, BcSpec, RowSpec};
use nimc::{catch, main_with, run_jobs, Ctx, JobOut, Json, Meta, Summary};

const GENERIC: [f64; 11] = [1.0, -0.5, 2.0, 0.25, -3.0, 1.5, 0.875, -1.25, 0.5, 3.0, -0.75];

#[derive(Clone, Debug)]
enum Strat {
    Linear,
    Spline(BcSpec),
    Bilinear,
}

#[derive(Clone, Debug)]
struct Job {
    ax: AxisA,
    trailing: Vec<usize>,
    dynamic: bool,
    strat: Strat,
    /// lanes with an odd C-order index hold only zeros (whole blocks of all-zero lanes)
    zero_odd_lanes: bool,
    /// the data does not depend on the last trailing index: the blocks along the last axis are
    /// bit-identical copies of each other (replicated channels)
    dup_last: bool,
}
impl Job {
    fn key(&self) -> String {
        format!(
            "{}:{:?}{}{}:{}",
            self.ax.name,
            self.trailing,
            if self.dynamic { "dyn" } else { "" },
            if self.zero_odd_lanes { "/odd-lanes-zero" } else if self.dup_last { "/replicated-along-last-axis" } else { "" },
            match &self.strat {
                Strat::Linear => "Linear".to_string(),
                Strat::Bilinear => "Bilinear".to_string(),
                Strat::Spline(s) => s.name(),
            }
        )
        .replace(' ', "")
    }
}

fn lane_data(n: usize, j: usize, periodic: bool) -> Vec<f64> {
    let mut v: Vec<f64> = (0..n).map(|i| GENERIC[(i + 3 * j) % 11] * (1 + j % 3) as f64).collect();
    if periodic {
        v[n - 1] = v[0];
    }
    v
}

fn six_rows() -> Vec<RowSpec> {
    vec![
        RowSpec::Kind(End::NotAKnot),
        RowSpec::Kind(End::Natural),
        RowSpec::Kind(End::Clamped),
        RowSpec::Mixed(End::First(0.5), End::NotAKnot),
        RowSpec::Mixed(End::Natural, End::Second(-2.0)),
        RowSpec::Mixed(End::Clamped, End::First(0.5)),
    ]
}

#[derive(Clone, Copy)]
enum Poison {
    Nan,
    Inf,
    Big,
    Boundary,
}
const POISONS: [(Poison, &str); 4] = [(Poison::Nan, "NaN"), (Poison::Inf, "+inf"), (Poison::Big, "other values x 2^20"), (Poison::Boundary, "other boundary condition")];

/// evaluate an n-d 1-D-interpolator through interp() per query -> (Q x L), lanes in C order
fn eval_1d<D: Dimension + RemoveAxis>(strat: &Strat, x: &[f64], data: ArrayD<f64>, qs: &[f64]) -> Result<Array2<f64>, String> {
    let data = data.into_dimensionality::<D>().map_err(|e| format!("machinery: {e}"))?;
    let l: usize = data.shape()[1..].iter().product();
    let mut rows: Vec<f64> = Vec::with_capacity(qs.len() * l);
    match strat {
        Strat::Linear => {
            let ip = catch(|| build_linear::<f64, D>(Some(x), data, false))?.map_err(|e| format!("build: {e}"))?;
            for &q in qs {
                let r = catch(|| ip.interp(q))?.map_err(|e| format!("query: {e}"))?;
                rows.extend(r.iter());
            }
        }
        Strat::Spline(spec) => {
            let ip = catch(|| build_spline::<f64, D>(x, data, spec, false))?.map_err(|e| format!("build: {e}"))?;
            for &q in qs {
                let r = catch(|| ip.interp(q))?.map_err(|e| format!("query: {e}"))?;
                rows.extend(r.iter());
            }
        }
        Strat::Bilinear => unreachable!(),
    }
    Array2::from_shape_vec((qs.len(), l), rows).map_err(|e| format!("result size: {e}"))
}

fn eval_2d<D>(x: &[f64], y: &[f64], data: ArrayD<f64>, qx: &[f64], qy: &[f64]) -> Result<Array2<f64>, String>
where
    D: Dimension + RemoveAxis,
    D::Smaller: RemoveAxis,
{
    let data = data.into_dimensionality::<D>().map_err(|e| format!("machinery: {e}"))?;
    let l: usize = data.shape()[2..].iter().product();
    let ip = catch(|| build_bilinear::<f64, D>(Some(x), Some(y), data, false))?.map_err(|e| format!("build: {e}"))?;
    let mut rows: Vec<f64> = Vec::with_capacity(qx.len() * l);
    for (&a, &b) in qx.iter().zip(qy) {
        let r = catch(|| ip.interp(a, b))?.map_err(|e| format!("query: {e}"))?;
        rows.extend(r.iter());
    }
    Array2::from_shape_vec((qx.len(), l), rows).map_err(|e| format!("result size: {e}"))
}

fn eval_1d_dispatch(job: &Job, x: &[f64], strat: &Strat, data: ArrayD<f64>, qs: &[f64]) -> Result<Array2<f64>, String> {
    if job.dynamic {
        return eval_1d::<IxDyn>(strat, x, data, qs);
    }
    match data.ndim() {
        1 => eval_1d::<Ix1>(strat, x, data, qs),
        2 => eval_1d::<Ix2>(strat, x, data, qs),
        3 => eval_1d::<Ix3>(strat, x, data, qs),
        4 => eval_1d::<Ix4>(strat, x, data, qs),
        5 => eval_1d::<Ix5>(strat, x, data, qs),
        6 => eval_1d::<Ix6>(strat, x, data, qs),
        _ => eval_1d::<IxDyn>(strat, x, data, qs),
    }
}

fn eval_2d_dispatch(job: &Job, x: &[f64], y: &[f64], data: ArrayD<f64>, qx: &[f64], qy: &[f64]) -> Result<Array2<f64>, String> {
    if job.dynamic {
        return eval_2d::<IxDyn>(x, y, data, qx, qy);
    }
    match data.ndim() {
        2 => eval_2d::<Ix2>(x, y, data, qx, qy),
        3 => eval_2d::<Ix3>(x, y, data, qx, qy),
        4 => eval_2d::<Ix4>(x, y, data, qx, qy),
        5 => eval_2d::<Ix5>(x, y, data, qx, qy),
        6 => eval_2d::<Ix6>(x, y, data, qx, qy),
        _ => eval_2d::<IxDyn>(x, y, data, qx, qy),
    }
}

/// standalone spec of lane j
fn lane_spec(spec: &BcSpec, j: usize) -> BcSpec {
    match spec {
        BcSpec::Lanes(v) => BcSpec::Lanes(vec![v[j % v.len()]]),
        BcSpec::Rows(v) => BcSpec::Rows(vec![v[j % v.len()]]),
        o => o.clone(),
    }
}

fn same(a: f64, b: f64) -> bool {
    a.to_bits() == b.to_bits() || (a.is_nan() && b.is_nan())
}

fn run(job: &Job, out: &mut JobOut) {
    let x = &job.ax.x;
    let n = x.len();
    let l: usize = job.trailing.iter().product();
    let key = job.key();
    let case = |extra: Vec<(&str, Json)>| {
        let mut v = vec![("x", Json::f64s(x)), ("trailing_shape", Json::usizes(&job.trailing)), ("dynamic_rank", Json::Bool(job.dynamic)), ("strategy", Json::str(&format!("{:?}", job.strat)))];
        v.extend(extra);
        Json::obj(v)
    };
    let qs = alpha::grid_queries(x, 4);
    let two_d = matches!(job.strat, Strat::Bilinear);
    // second axis for 2-D: a fixed 3-knot axis
    let y = [-1.0, 0.5, 1.0];
    let (qx2, qy2): (Vec<f64>, Vec<f64>) = {
        let mut a = vec![];
        let mut b = vec![];
        for &u in &qs {
            for &v in &[-1.0, -0.25, 0.5, 0.875, 1.0] {
                a.push(u);
                b.push(v);
            }
        }
        (a, b)
    };
    let periodic = matches!(&job.strat, Strat::Spline(s) if s.is_periodic());
    // lanes: data of lane j (for 2-D: a (n x 3) table per lane)
    let last_len = job.trailing.last().copied().unwrap_or(1).max(1);
    let lane_tab = |j: usize, variant: usize| -> Vec<f64> {
        let j = if job.dup_last && variant == 0 { j / last_len } else { j };
        if job.zero_odd_lanes && j % 2 == 1 && variant == 0 {
            return vec![0.0; n * if two_d { 3 } else { 1 }];
        }
        if two_d {
            let mut t = vec![];
            for i in 0..n {
                for c in 0..3 {
                    t.push(GENERIC[(i * 2 + c * 5 + 3 * j + variant) % 11] * (1 + j % 3) as f64);
                }
            }
            t
        } else {
            lane_data(n, j + 7 * variant, periodic)
        }
    };
    let inner: usize = if two_d { 3 } else { 1 };
    let build_data = |tabs: &Vec<Vec<f64>>| -> ArrayD<f64> {
        let mut shape = vec![n];
        if two_d {
            shape.push(3);
        }
        shape.extend_from_slice(&job.trailing);
        let lanes = tabs.len();
        ArrayD::from_shape_fn(IxDyn(&shape), |ix| {
            let ix = ix.slice();
            let (i, c, rest) = if two_d { (ix[0], ix[1], &ix[2..]) } else { (ix[0], 0, &ix[1..]) };
            // lane index in C order
            let mut j = 0usize;
            for (a, &d) in rest.iter().zip(&job.trailing) {
                j = j * d + a;
            }
            let _ = lanes;
            tabs[j][i * inner + c]
        })
    };
    let tabs: Vec<Vec<f64>> = (0..l).map(|j| lane_tab(j, 0)).collect();
    let eval = |strat: &Strat, data: ArrayD<f64>| -> Result<Array2<f64>, String> {
        if two_d {
            eval_2d_dispatch(job, x, &y, data, &qx2, &qy2)
        } else {
            eval_1d_dispatch(job, x, strat, data, &qs)
        }
    };
    // the same logical data in other memory layouts must give the same lanes
    let relayout = |d: &ArrayD<f64>, how: &str| -> ArrayD<f64> {
        match how {
            "perm" => d.clone().reversed_axes().as_standard_layout().to_owned().reversed_axes(),
            "rev-last" => {
                let ax = Axis(d.ndim() - 1);
                let mut r = d.clone();
                r.invert_axis(ax);
                let mut r = r.as_standard_layout().to_owned();
                r.invert_axis(ax);
                r
            }
            _ => d.clone(),
        }
    };
    let base = match eval(&job.strat, build_data(&tabs)) {
        Ok(b) => b,
        Err(e) => {
            out.violate(format!("{key}:base"), format!("n-d interpolation of valid data failed: {e}"), case(vec![]));
            return;
        }
    };
    for how in ["perm", "rev-last"] {
        let d0 = build_data(&tabs);
        let d = relayout(&d0, how);
        assert!(d == d0);
        out.transitions += 1;
        match eval(&job.strat, d) {
            Ok(r) => {
                out.evals += r.len() as u64;
                out.nontrivial += r.len() as u64;
                // within rounding (bit-identity across data layouts is C13's statement)
                let lane_scale = |j: usize| tabs[j].iter().fold(0.0f64, |m, v| m.max(v.abs())) * job.ax.mesh_ratio.max(1.0);
                let kk0 = if matches!(job.strat, Strat::Spline(_)) { k_for(&job.ax) } else { 24.0 };
                if let Some(p) = r.iter().zip(base.iter()).enumerate().position(|(i, (a, b))| !same(*a, *b) && !((a - b).abs() <= kk0 * f64::EPSILON * lane_scale(i % l.max(1)).max(b.abs()))) {
                    out.violate(
                        format!("{key}:layout-{how}"),
                        format!("with the data stored in layout '{how}' (same logical contents) lane {} gives {:e} instead of {:e}", p % l.max(1), r.iter().nth(p).unwrap(), base.iter().nth(p).unwrap()),
                        case(vec![("data_layout", Json::str(how))]),
                    );
                }
            }
            Err(e) => out.violate(format!("{key}:layout-{how}"), format!("with the data stored in layout '{how}' the interpolation failed: {e}"), case(vec![("data_layout", Json::str(how))])),
        }
    }
    out.states += 1;
    out.transitions += 1;
    let nq = base.nrows();
    if base.ncols() != l {
        out.violate(format!("{key}:lanes"), format!("result has {} lanes, data has {l}", base.ncols()), case(vec![]));
        return;
    }
    // (a) every lane equals the stand-alone interpolator of that lane
    let kk = if matches!(job.strat, Strat::Spline(_)) { k_for(&job.ax) } else { 24.0 };
    for j in 0..l {
        let alone_strat = match &job.strat {
            Strat::Spline(s) => Strat::Spline(lane_spec(s, j)),
            o => o.clone(),
        };
        let alone_job = Job { ax: job.ax.clone(), trailing: vec![], dynamic: false, strat: alone_strat.clone(), zero_odd_lanes: false, dup_last: false };
        let mut shape = vec![n];
        if two_d {
            shape.push(3);
        }
        let d1 = ArrayD::from_shape_vec(IxDyn(&shape), tabs[j].clone()).unwrap();
        let r = if two_d { eval_2d_dispatch(&alone_job, x, &y, d1, &qx2, &qy2) } else { eval_1d_dispatch(&alone_job, x, &alone_strat, d1, &qs) };
        out.transitions += 1;
        match r {
            Err(e) => out.violate(format!("{key}:alone{j}"), format!("stand-alone interpolator of lane {j} failed: {e}"), case(vec![("lane", Json::Int(j as i128))])),
            Ok(a) => {
                let scale = tabs[j].iter().fold(0.0f64, |m, v| m.max(v.abs())) * (job.ax.mesh_ratio).max(1.0);
                let mut bitsame = true;
                for qi in 0..nq {
                    let (g, w) = (base[[qi, j]], a[[qi, 0]]);
                    out.evals += 1;
                    out.nontrivial += 1;
                    if !same(g, w) {
                        bitsame = false;
                    }
                    if !((g - w).abs() <= kk * f64::EPSILON * scale.max(w.abs())) {
                        out.violate(
                            format!("{key}:alone{j}"),
                            format!("lane {j} of the n-d result is {g:e} at query {qi}, the interpolator built from lane {j} alone gives {w:e}"),
                            case(vec![("lane", Json::Int(j as i128)), ("lane_data", Json::f64s(&tabs[j])), ("query_index", Json::Int(qi as i128))]),
                        );
                        break;
                    }
                }
                out.outcome(if bitsame { "lane-vs-alone:bit-identical" } else { "lane-vs-alone:within-rounding" });
            }
        }
    }
    // (b) changing lane i leaves every other lane bit-identical
    for i in 0..l {
        for (p, pname) in POISONS {
            let mut t2 = tabs.clone();
            let mut strat2 = job.strat.clone();
            match p {
                Poison::Nan => t2[i].iter_mut().for_each(|v| *v = f64::NAN),
                Poison::Inf => t2[i].iter_mut().for_each(|v| *v = f64::INFINITY),
                Poison::Big => {
                    t2[i] = lane_tab(i, 1).iter().map(|v| v * 1048576.0).collect();
                }
                Poison::Boundary => {
                    // another condition for lane i only (Individual configurations)
                    match &job.strat {
                        Strat::Spline(BcSpec::Rows(v)) => {
                            let mut v2: Vec<RowSpec> = (0..l).map(|j| v[j % v.len()]).collect();
                            v2[i] = if v2[i] == RowSpec::Mixed(End::Second(3.0), End::First(-1.0)) { RowSpec::Kind(End::Natural) } else { RowSpec::Mixed(End::Second(3.0), End::First(-1.0)) };
                            strat2 = Strat::Spline(BcSpec::Rows(v2));
                        }
                        Strat::Spline(BcSpec::Lanes(v)) => {
                            let mut v2: Vec<(End, End)> = (0..l).map(|j| v[j % v.len()]).collect();
                            v2[i] = if v2[i] == (End::Second(3.0), End::First(-1.0)) { (End::Natural, End::Natural) } else { (End::Second(3.0), End::First(-1.0)) };
                            strat2 = Strat::Spline(BcSpec::Lanes(v2));
                        }
                        _ => continue,
                    }
                }
            }
            if periodic {
                let m = t2[i].len();
                t2[i][m - 1] = t2[i][0];
                if matches!(p, Poison::Nan) {
                    continue; // NaN ends are not equal: not a valid periodic data set
                }
            }
            out.transitions += 1;
            match eval(&strat2, build_data(&t2)) {
                Err(e) => out.violate(format!("{key}:poison{i}:{pname}"), format!("after setting lane {i} to {pname} the interpolation failed: {e}"), case(vec![("changed_lane", Json::Int(i as i128))])),
                Ok(r2) => {
                    out.states += 1;
                    'lanes: for j in 0..l {
                        if j == i {
                            continue;
                        }
                        for qi in 0..nq {
                            out.evals += 1;
                            out.nontrivial += 1;
                            if !same(base[[qi, j]], r2[[qi, j]]) {
                                out.violate(
                                    format!("{key}:poison{i}:{pname}"),
                                    format!("lane {j} changed from {:e} to {:e} (query {qi}) when lane {i} was set to {pname}", base[[qi, j]], r2[[qi, j]]),
                                    case(vec![("changed_lane", Json::Int(i as i128)), ("observed_lane", Json::Int(j as i128)), ("change", Json::str(pname))]),
                                );
                                break 'lanes;
                            }
                        }
                    }
                    out.outcome("other-lanes:checked");
                }
            }
        }
    }
    if out.sample.is_none() {
        out.sample = Some(case(vec![("lanes", Json::Int(l as i128)), ("queries", Json::Int(nq as i128))]));
    }
}

/// A data set above 16 MiB with two trailing axes (33 x 260 x 250 f64, and 33 x 250 x 260): every
/// lane of the n-d spline against the spline built from that lane alone.
fn run_big(trailing: (usize, usize), top: &BcSpec, out: &mut JobOut) {
    use ndarray_interp::interp1d::cubic_spline::CubicSpline;
    use ndarray_interp::interp1d::Interp1DBuilder;
    use ndarray::{Array1 as A1, Array3};
    let n = 33usize;
    let (ta, tb) = trailing;
    let x: Vec<f64> = (0..n).map(|i| i as f64 + if i % 5 == 2 { 0.25 } else { 0.0 }).collect();
    let val = |i: usize, a: usize, b: usize| -> f64 { GENERIC[(i * 3 + a * 5 + b * 7) % 11] * (1 + (a + 2 * b) % 3) as f64 + 0.001 * (a * tb + b) as f64 };
    let periodic = top.is_periodic();
    let data = Array3::from_shape_fn((n, ta, tb), |(i, a, b)| val(if periodic && i == n - 1 { 0 } else { i }, a, b));
    let q = A1::from(vec![0.5, 7.3, 31.75]);
    let key = format!("big:{n}x{ta}x{tb}:{}", top.name());
    let strat = || CubicSpline::new().boundary(nimc::subj::boundary::<f64, ndarray::Ix3>(top, &[ta, tb]));
    let res = match catch(|| Interp1DBuilder::new(data.view()).x(A1::from(x.clone())).strategy(strat()).build().map(|ip| ip.interp_array(&q))) {
        Ok(Ok(Ok(r))) => r,
        other => {
            out.violate(format!("{key}:build"), format!("valid large data set not handled: {:?}", other.map(|r| r.map(|r| r.map(|_| ())))), Json::Null);
            return;
        }
    };
    out.states += 1;
    let xa = A1::from(x.clone());
    let lane_strat = || CubicSpline::new().boundary(nimc::subj::boundary::<f64, ndarray::Ix1>(top, &[]));
    'lanes: for a in 0..ta {
        for b in 0..tb {
            let col = data.slice(ndarray::s![.., a, b]).to_owned();
            let alone = Interp1DBuilder::new(col).x(xa.clone()).strategy(lane_strat()).build().expect("lane alone").interp_array(&q).expect("in range");
            out.evals += 1;
            out.nontrivial += 1;
            out.transitions += 1;
            for k in 0..q.len() {
                if !((alone[k] - res[[k, a, b]]).abs() <= 1e-10 * 50.0) {
                    out.violate(key.clone(), format!("lane ({a},{b}) of the {n} x {ta} x {tb} data set gives {:e} at q = {}, the spline built from that lane alone {:e}", res[[k, a, b]], q[k], alone[k]), Json::Null);
                    break 'lanes;
                }
            }
        }
    }
    out.sample = Some(Json::str(&key));
}

/// Every ordered pair of (left, right) end conditions as the conditions of two *adjacent* lanes
/// (25 x 25 pairs, derivative values shared between the lanes), also with the pair repeated
/// (lanes P, Q, P, Q): each lane must be the spline that lane gives when it is built alone.
fn run_adjacent_pairs(repeat: bool, out: &mut JobOut) {
    use ndarray::{Array1 as A1, Array2 as A2};
    use ndarray_interp::interp1d::cubic_spline::CubicSpline;
    use ndarray_interp::interp1d::Interp1DBuilder;
    let x = vec![0.0, 0.5, 2.0, 2.75, 4.0, 6.5];
    let n = x.len();
    let pairs = alpha::end_pairs();
    let lanes = if repeat { 4 } else { 2 };
    let q = A1::from(vec![0.25, 1.0, 2.5, 3.9, 6.0, 6.5]);
    let xa = A1::from(x.clone());
    for (ip_, p) in pairs.iter().enumerate() {
        for (iq, qq) in pairs.iter().enumerate() {
            if ip_ == iq {
                continue;
            }
            let conds: Vec<(End, End)> = (0..lanes).map(|j| if j % 2 == 0 { *p } else { *qq }).collect();
            let data = A2::from_shape_fn((n, lanes), |(i, j)| GENERIC[(i * 3 + j * 5) % 11] * (1 + j % 2) as f64);
            let key = format!("adjacent-lanes:{}|{}+{}|{}{}", p.0.name(), p.1.name(), qq.0.name(), qq.1.name(), if repeat { ":x2" } else { "" });
            let spec = BcSpec::Lanes(conds.clone());
            let res = match catch(|| Interp1DBuilder::new(data.view()).x(xa.clone()).strategy(CubicSpline::new().boundary(nimc::subj::boundary::<f64, ndarray::Ix2>(&spec, &[lanes]))).build().map(|ip| ip.interp_array(&q))) {
                Ok(Ok(Ok(r))) => r,
                other => {
                    out.violate(format!("{key}:build"), format!("valid per-lane conditions not handled: {:?}", other.map(|r| r.map(|r| r.map(|_| ())))), Json::Null);
                    continue;
                }
            };
            out.states += 1;
            for j in 0..lanes {
                let col = data.column(j).to_owned();
                let one = BcSpec::Lanes(vec![conds[j]]);
                let alone = match catch(|| Interp1DBuilder::new(col).x(xa.clone()).strategy(CubicSpline::new().boundary(nimc::subj::boundary::<f64, ndarray::Ix1>(&one, &[]))).build().map(|ip| ip.interp_array(&q))) {
                    Ok(Ok(Ok(r))) => r,
                    _ => continue,
                };
                out.evals += 1;
                out.nontrivial += 1;
                out.transitions += 1;
                let ok = (0..q.len()).all(|k| same(alone[k], res[[k, j]]));
                out.outcome(if ok { "adjacent-lanes:same" } else { "adjacent-lanes:differs" });
                if !ok {
                    let k = (0..q.len()).find(|&k| !same(alone[k], res[[k, j]])).unwrap();
                    out.violate(key.clone(), format!("lanes with the end conditions {:?}: lane {j} gives {:e} at q = {}, the spline built from that lane alone (same condition) {:e}", conds.iter().map(|c| format!("{}|{}", c.0.name(), c.1.name())).collect::<Vec<_>>(), res[[k, j]], q[k], alone[k]), Json::Null);
                    break;
                }
            }
        }
    }
    out.sample = Some(Json::str("25 x 25 ordered pairs of (left, right) end conditions on adjacent lanes"));
}

fn body(ctx: &Ctx) -> (Summary, Meta) {
    let quick = ctx.quick();
    let mut axes = if quick {
        vec![
            alpha::axis_from_word("w", 0.0, &[1.0, 2.0, 0.5]),
            alpha::axis_from_word("w", -3.0, &[0.5, 1.0, 1.0, 2.0]),
            alpha::axis_from_word("w", 1.25, &[2.0, 1.0]),
        ]
    } else {
        alpha::full_word_axes(&alpha::h4(), "w", 3, 6, &[0.0, -3.0])
    };
    axes.push(alpha::axis_from_word("W", 0.0, &[1.0, 8.0, 0.125, 1.0]));
    let trailing: Vec<Vec<usize>> = vec![
        vec![], vec![1], vec![3], vec![0], vec![2, 3], vec![3, 2], vec![2, 2], vec![1, 2], vec![2, 0], vec![2, 1, 2], vec![2, 2, 2, 2], vec![2, 2, 1, 2, 2], vec![2, 1, 2, 1, 2, 1],
    ];
    let rows = six_rows();
    let mut jobs = vec![];
    for ax in &axes {
        for tr in &trailing {
            for dynamic in [false, true] {
                if !dynamic && 1 + tr.len() > 6 {
                    continue;
                }
                let l: usize = tr.iter().product();
                let mut strats = vec![
                    Strat::Linear,
                    Strat::Spline(BcSpec::TopNotAKnot),
                    Strat::Spline(BcSpec::TopNatural),
                    Strat::Spline(BcSpec::TopClamped),
                    Strat::Spline(BcSpec::Periodic),
                    Strat::Spline(BcSpec::RowAll(End::Natural)),
                    // a different condition per lane (Latin assignment)
                    Strat::Spline(BcSpec::Rows((0..l.max(1)).map(|j| rows[(j * 5 + 1) % 6]).collect())),
                    Strat::Spline(BcSpec::Lanes((0..l.max(1)).map(|j| alpha::end_pairs()[(j * 7 + 3) % 25]).collect())),
                ];
                if l == 3 && (tr.len() == 1) && ax.name == axes[0].name {
                    // every assignment of the 6 row conditions to 3 lanes
                    for a in 0..6 {
                        for b in 0..6 {
                            for c in 0..6 {
                                strats.push(Strat::Spline(BcSpec::Rows(vec![rows[a], rows[b], rows[c]])));
                            }
                        }
                    }
                }
                if l == 4 && tr.len() == 2 {
                    // square trailing shape with 4 different conditions: a transposed assignment shows
                    strats.push(Strat::Spline(BcSpec::Rows(vec![rows[0], rows[3], rows[4], rows[1]])));
                }
                if 2 + tr.len() <= 6 || dynamic {
                    strats.push(Strat::Bilinear);
                }
                for s in strats {
                    // whole blocks of all-zero lanes with derivative boundary values (a spline through
                    // zeros is not zero when S' or S'' is prescribed)
                    if l >= 2 && matches!(&s, Strat::Spline(BcSpec::Lanes(_)) | Strat::Spline(BcSpec::Rows(_))) {
                        jobs.push(Job { ax: ax.clone(), trailing: tr.clone(), dynamic, strat: s.clone(), zero_odd_lanes: true, dup_last: false });
                    }
                    jobs.push(Job { ax: ax.clone(), trailing: tr.clone(), dynamic, strat: s, zero_odd_lanes: false, dup_last: false });
                }
            }
        }
    }
    // replicated channels: blocks along the last trailing axis are bit-identical, the boundary
    // conditions are the same for all lanes but one (at every position), or any of 3 per lane
    for ax in axes.iter().take(2) {
        for tr in [vec![2], vec![2, 2], vec![3, 2], vec![2, 3], vec![2, 2, 2], vec![2, 1, 2]] {
            let l: usize = tr.iter().product();
            for dynamic in [false, true] {
                let mut assigns: Vec<Vec<RowSpec>> = vec![];
                for p in 0..l {
                    for (a, b) in [(rows[0], rows[3]), (rows[3], rows[4]), (rows[1], rows[5])] {
                        assigns.push((0..l).map(|j| if j == p { b } else { a }).collect());
                    }
                }
                if l == 4 {
                    for code in 0..81usize {
                        assigns.push((0..4).map(|j| [rows[0], rows[3], rows[4]][code / 3usize.pow(j as u32) % 3]).collect());
                    }
                }
                for a in assigns {
                    jobs.push(Job { ax: ax.clone(), trailing: tr.clone(), dynamic, strat: Strat::Spline(BcSpec::Rows(a)), zero_odd_lanes: false, dup_last: true });
                }
            }
        }
    }
    // long data sets with few lanes (code paths chosen by the number of points / lanes)
    for n in [256usize, 300] {
        let mut w = vec![1.0; n - 1];
        w[7] = 0.5;
        w[n / 2] = 2.0;
        w[n - 3] = 4.0;
        let ax = alpha::axis_from_word("long", 0.0, &w);
        for tr in [vec![2], vec![3], vec![8], vec![2, 2]] {
            for s in [Strat::Linear, Strat::Spline(BcSpec::TopNotAKnot), Strat::Spline(BcSpec::TopNatural), Strat::Spline(BcSpec::Periodic), Strat::Spline(BcSpec::RowAll(End::Clamped))] {
                jobs.push(Job { ax: ax.clone(), trailing: tr.clone(), dynamic: false, strat: s, zero_odd_lanes: false, dup_last: false });
            }
        }
    }
    let njobs = jobs.len();
    let sum = run_jobs(ctx, "lanes", &jobs, |j| j.key(), |j| {
        let mut out = JobOut::default();
        run(j, &mut out);
        out
    });
    let big_jobs: Vec<((usize, usize), BcSpec)> = vec![((260, 250), BcSpec::TopNotAKnot), ((250, 260), BcSpec::TopNatural), ((260, 250), BcSpec::Periodic)];
    let mut sum = sum;
    sum.merge(run_jobs(ctx, "data-above-16MiB", &big_jobs, |j| format!("big:{:?}:{}", j.0, j.1.name()), |j| {
        let mut out = JobOut::default();
        run_big(j.0, &j.1, &mut out);
        out
    }));
    let _ = (Array1::<f64>::zeros(1), Axis(0));
    sum.merge(run_jobs(ctx, "adjacent-lane-pairs", &[false, true], |r| format!("adjacent-lanes:{}", if *r { "P,Q,P,Q" } else { "P,Q" }), |r| {
        let mut out = JobOut::default();
        run_adjacent_pairs(*r, &mut out);
        out
    }));
    let meta = Meta {
        rule: "for every (axis, trailing shape incl. length-0/1 and non-square ones, static Ix1..Ix6 or dynamic rank, strategy / boundary configuration incl. a different condition per lane, all 216 assignments of 6 row conditions to 3 lanes, and 4 different conditions on a square (2,2) trailing shape; data replicated along the last trailing axis with one lane's condition differing at every position / all 81 assignments of 3 conditions to 4 lanes): (a) every lane of the n-d result is compared with the interpolator built from that lane (and its own boundary condition) alone; (b) for every lane i, rebuilding with lane i set to NaN / +inf / other values x 2^20 / another boundary condition leaves every other lane bit-identical. Phase data-above-16MiB: 33 x 260 x 250 (and 250 x 260) f64 data sets, every one of the 65000 lanes against its stand-alone spline. Every comparison is non-trivial. Phase adjacent-lane-pairs: every ordered pair of the 25 (left, right) end conditions on two adjacent lanes (and as P, Q, P, Q), derivative values shared between the lanes: every lane bit-identical to the spline built from that lane alone with its own condition.".into(),
        bounds: format!("{njobs} (axis, trailing shape, rank kind, configuration) jobs; tier {}", ctx.tier.name()),
        assumptions: vec!["(a) is required within rounding (K eps scale); bit-identity is reported as an observed outcome".into()],
        extra: vec![],
    };
    (sum, meta)
}

fn main() {
    main_with("C08", body)
}
