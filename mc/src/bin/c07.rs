//! C07 - a periodic spline with extrapolation is evaluated as a periodic function.
use ndarray::Array2;
use nimc::alpha::{self, Axis, Lane};
use nimc::fl::{vec_exact, Fl};
use nimc::rat::Rat;
use nimc::refm::{err_dd, rat_to_dd, Cond, RefSpline};
use nimc::spl::k_for;
use nimc::subj::{build_spline, call1d, lanes_matrix, BcSpec};
use nimc::{catch, main_with, run_jobs, try_exact, Ctx, JobOut, Json, Meta, Summary};

#[derive(Clone)]
struct Job {
    ax: Axis,
    f32: bool,
    ks: Vec<i64>,
    /// the implementation sees axis and queries multiplied by this power of two (the reference stays
    /// unscaled: the spline over c*x evaluated at c*q is the spline over x evaluated at q)
    xscale: f64,
}
impl Job {
    fn key(&self) -> String {
        if self.xscale == 1.0 {
            format!("{}:{}", if self.f32 { "f32" } else { "f64" }, self.ax.name)
        } else {
            format!("{}:{}*2^{}", if self.f32 { "f32" } else { "f64" }, self.ax.name, self.xscale.log2())
        }
    }
}

fn ks(quick: bool) -> Vec<i64> {
    let mut v: Vec<i64> = vec![];
    let r = if quick { 3 } else { 64 };
    for k in -r..=r {
        v.push(k);
    }
    for j in 2..=20 {
        if quick && j % 5 != 0 && j != 3 {
            continue;
        }
        v.push(1 << j);
        v.push(-(1 << j));
    }
    for k in [7i64, 64, 999_999, 1_000_000] {
        v.push(k);
        v.push(-k);
    }
    // so far away that neighbouring floats are many periods apart (the reference wraps the float
    // that is actually passed, exactly)
    for j in [30, 40, 52, 55] {
        if quick && j == 40 {
            continue;
        }
        v.push((1i64 << j) + 1);
        v.push(-(1i64 << j) - 1);
    }
    v.sort();
    v.dedup();
    v
}

fn run<T: Fl>(job: &Job, out: &mut JobOut) {
    let axis = &job.ax;
    let Some(xt) = vec_exact::<T>(&axis.x) else {
        return;
    };
    let n = xt.len();
    let lanes: Vec<Lane> = alpha::lanes(&axis.x, n <= 8)
        .iter()
        .map(alpha::close_periodic)
        .filter(|l| vec_exact::<T>(&l.y).is_some())
        .collect();
    let lt: Vec<Vec<T>> = lanes.iter().map(|l| vec_exact::<T>(&l.y).unwrap()).collect();
    let data: Array2<T> = lanes_matrix(&lt);
    let nl = lanes.len();
    let key = job.key();
    let case = |extra: Vec<(&str, Json)>| {
        let mut v = vec![("type", Json::str(T::NAME)), ("x", Json::f64s(&axis.x))];
        v.extend(extra);
        Json::obj(v)
    };
    let c = T::from_f64_lossy(job.xscale);
    let xt_impl: Vec<T> = xt.iter().map(|&v| v * c).collect();
    if xt_impl.windows(2).any(|w| !(w[0] < w[1])) || xt_impl.iter().any(|v| !v.is_finite()) {
        return;
    }
    let ip = match catch(|| build_spline::<T, _>(&xt_impl, data.clone(), &BcSpec::Periodic, true)) {
        Ok(Ok(i)) => i,
        other => {
            out.violate(format!("{key}:build"), format!("periodic build failed: {:?}", other.map(|r| r.map(|_| ()))), case(vec![]));
            return;
        }
    };
    out.states += 1;
    let xr = axis.rat();
    let (x0, xn) = (xr[0], xr[n - 1]);
    let p = xn - x0;
    let refs: Vec<RefSpline> = lanes
        .iter()
        .map(|l| {
            let yr: Vec<Rat> = l.y.iter().map(|&v| Rat::from_f64(v)).collect();
            RefSpline::solve(&xr, &yr, Cond::Periodic)
        })
        .collect();
    let scales: Vec<f64> = refs.iter().map(|r| r.scale().to_f64()).collect();
    let lips: Vec<f64> = refs.iter().map(|r| r.lipschitz().to_f64()).collect();
    let kk = k_for(axis);

    // base queries (in range) and their images
    let base = alpha::grid_queries(&axis.x, 4);
    let pf = axis.span();
    let mut qs: Vec<T> = vec![];
    let mut meta: Vec<(i64, bool)> = vec![]; // (k, is image of a range end neighbour)
    for &k in &job.ks {
        for &b in &base {
            let v = T::from_f64_lossy(b + k as f64 * pf);
            qs.push(v);
            meta.push((k, false));
        }
        // floats adjacent to the images of the range start
        let e = T::from_f64_lossy(axis.x[0] + k as f64 * pf);
        for v in [e.up(), e.down(), e.up().up(), e.down().down()] {
            qs.push(v);
            meta.push((k, true));
        }
    }
    // reference: exact spline at the exactly wrapped float query
    struct RefV {
        v: nimc::dd::DD,
        w: f64,
    }
    let wrapped: Vec<(Rat, f64)> = qs
        .iter()
        .map(|&q| {
            // denormal neighbours of 0: the value differs from the one at 0 by Lipschitz * 5e-324
            let qr = Rat::try_from_f64(Fl::to_f64(q)).unwrap_or(Rat::ZERO);
            let m = ((qr - x0) / p).floor();
            let w = qr - Rat::int(m) * p;
            (w, w.to_f64())
        })
        .collect();
    // the exact rounding error of the first step every formulation has to take, fl(q - x0)
    let first_rounding: Vec<f64> = qs
        .iter()
        .map(|&q| {
            let d = q - xt[0];
            match (Rat::try_from_f64(Fl::to_f64(d)), Rat::try_from_f64(Fl::to_f64(q))) {
                (Some(dr), Some(qr)) => (dr - (qr - x0)).to_f64().abs(),
                _ => 0.0,
            }
        })
        .collect();
    let qs_impl: Vec<T> = qs.iter().map(|&q| q * c).collect();
    if qs_impl.iter().any(|v| !v.is_finite()) {
        return;
    }
    for (call, shape2d) in [("interp_array/static", false), ("interp_array/dyn", true), ("interp", false)] {
        let sh: Vec<usize> = if shape2d && qs.len() % 2 == 0 { vec![qs.len() / 2, 2] } else { vec![qs.len()] };
        let label = format!("{call}{}", if shape2d { "/2d-shape" } else { "" });
        out.transitions += 1;
        let res = match call1d(&ip, &qs_impl, &sh, nl, call) {
            Ok(r) => r,
            Err(f) => {
                out.outcome(format!("{label}:{}", f.class()));
                out.violate(format!("{key}:{label}:rejected"), format!("periodic extrapolation did not answer: {}", f.text()), case(vec![]));
                continue;
            }
        };
        out.outcome(format!("{label}:Ok"));
        let mut reported = false;
        for (j, lane) in lanes.iter().enumerate() {
            for (qi, &q) in qs.iter().enumerate() {
                let (w, wf) = wrapped[qi];
                let i = nimc::refm::bracket_scan(&xr, w);
                let rv = match try_exact(|| refs[j].eval_piece(i, w)) {
                    Some(v) => RefV { v: rat_to_dd(v), w: wf },
                    None => RefV { v: refs[j].eval_piece_dd(i, wf), w: wf },
                };
                let got = Fl::to_f64(res[[qi, j]]);
                let qf = Fl::to_f64(q);
                // rounding of the wrapped argument: fl(q - x0) (its error is known exactly; it is 0
                // when the difference is representable), the remainder is exact, a possible
                // "+ period" and the final "+ x0" round at the magnitude of the range
                let arg_err = first_rounding[qi] + 4.0 * T::EPS * (axis.x[0].abs() + pf);
                let tol = kk * T::EPS * scales[j].max(rv.v.to_f64().abs()) + lips[j] * arg_err;
                assert!(tol.is_finite(), "tolerance not finite (machinery): scale {} lip {} ref {:?}", scales[j], lips[j], rv.v);
                let err = err_dd(got, rv.v);
                out.evals += 1;
                if meta[qi].0 != 0 {
                    out.nontrivial += 1;
                }
                out.maximum("err_over_tol", err / tol);
                if !(err <= tol) && !reported {
                    reported = true;
                    out.violate(
                        format!("{key}:{label}:{}", lane.name),
                        format!(
                            "S({qf:e}) = {got:e} (k = {} periods away) but the spline at the wrapped argument {:e} is {:e} (err {err:e}, tol {tol:e})",
                            meta[qi].0, rv.w, rv.v.to_f64()
                        ),
                        case(vec![
                            ("call", Json::str(&label)),
                            ("lane", Json::str(&lane.name)),
                            ("data", Json::f64s(&lane.y)),
                            ("query", Json::Num(qf)),
                            ("periods", Json::Int(meta[qi].0 as i128)),
                            ("wrapped", Json::Num(rv.w)),
                            ("expected", Json::Num(rv.v.to_f64())),
                            ("observed", Json::Num(got)),
                        ]),
                    );
                }
            }
        }
    }
    if out.sample.is_none() {
        out.sample = Some(case(vec![
            ("period", Json::Num(pf)),
            ("k_values", Json::Arr(job.ks.iter().map(|&k| Json::Int(k as i128)).collect())),
            ("queries", Json::Int(qs.len() as i128)),
            ("lanes", Json::Int(nl as i128)),
        ]));
    }
}

/// Axes whose knots are not dyadic (0.7, 2.9, ...): no exact rational spline is available; the
/// oracle is the implementation's own in-range value at the exactly wrapped query, with a
/// Lipschitz allowance for the rounding of the wrapped argument. Finite queries must never be
/// rejected.
fn run_decimal(job: &Job, out: &mut JobOut) {
    let x = &job.ax.x;
    let n = x.len();
    let key = format!("f64:decimal:{}", job.ax.name);
    let mut d = Array2::from_shape_fn((n, 2), |(i, j)| ((i * 3 + j * 5) as f64 * 0.37).sin() * (1.0 + j as f64) + 0.1 * i as f64);
    for j in 0..2 {
        d[[n - 1, j]] = d[[0, j]];
    }
    let case = |extra: Vec<(&str, Json)>| {
        let mut v = vec![("type", Json::str("f64")), ("x", Json::f64s(x)), ("axis_kind", Json::str("non-dyadic knots"))];
        v.extend(extra);
        Json::obj(v)
    };
    let (Ok(Ok(ip)), Ok(Ok(plain))) = (
        catch(|| build_spline::<f64, _>(x, d.clone(), &BcSpec::Periodic, true)),
        catch(|| build_spline::<f64, _>(x, d.clone(), &BcSpec::Periodic, false)),
    ) else {
        out.violate(format!("{key}:build"), "periodic build failed", case(vec![]));
        return;
    };
    out.states += 1;
    let (x0, xn) = (Rat::from_f64(x[0]), Rat::from_f64(x[n - 1]));
    let p = xn - x0;
    let pf = x[n - 1] - x[0];
    // Lipschitz estimate from a fine in-range sampling of the implementation itself
    let fine: Vec<f64> = (0..=64 * (n - 1)).map(|i| (x[0] + pf * i as f64 / (64 * (n - 1)) as f64).min(x[n - 1])).collect();
    let Ok(fv) = call1d(&plain, &fine, &[fine.len()], 2, "interp_array/static") else {
        out.violate(format!("{key}:fine"), "in-range sampling failed", case(vec![]));
        return;
    };
    let mut lip = [0.0f64; 2];
    let mut mag = [0.0f64; 2];
    for j in 0..2 {
        for i in 1..fine.len() {
            let dx = fine[i] - fine[i - 1];
            if dx > 0.0 {
                lip[j] = lip[j].max(((fv[[i, j]] - fv[[i - 1, j]]) / dx).abs());
            }
            mag[j] = mag[j].max(fv[[i, j]].abs());
        }
    }
    // queries: images of the range ends and of interior points, and their 1-2 ulp neighbours
    let mut qs = vec![];
    let mut ks = vec![];
    for &k in &job.ks {
        for base in [x[0], x[n - 1], x[0] + 0.37 * pf, x[1]] {
            let e = base + k as f64 * pf;
            for v in [e, e.next_up(), e.next_down(), e.next_up().next_up(), e.next_down().next_down()] {
                qs.push(v);
                ks.push(k);
            }
        }
    }
    // exact wrap of every float query
    let wrap = |q: f64| -> (Rat, f64) {
        let qr = Rat::from_f64(q);
        let mut m = ((q - x[0]) / pf).floor() as i128;
        loop {
            let w = qr - Rat::int(m) * p;
            if w < x0 {
                m -= 1;
            } else if w >= xn {
                m += 1;
            } else {
                return (w, w.to_f64());
            }
        }
    };
    let wr: Vec<(Rat, f64)> = qs.iter().map(|&q| wrap(q)).collect();
    let wq: Vec<f64> = wr.iter().map(|w| w.1.clamp(x[0], x[n - 1])).collect();
    let Ok(refv) = call1d(&plain, &wq, &[wq.len()], 2, "interp_array/static") else {
        out.violate(format!("{key}:ref"), "in-range reference evaluation failed", case(vec![]));
        return;
    };
    for (call, sh) in [("interp_array/static", vec![qs.len()]), ("interp", vec![qs.len()])] {
        out.transitions += 1;
        let res = match call1d(&ip, &qs, &sh, 2, call) {
            Ok(r) => r,
            Err(f) => {
                out.outcome(format!("decimal:{call}:{}", f.class()));
                out.violate(format!("{key}:{call}:rejected"), format!("a finite query was not answered by the periodic extrapolating spline: {}", f.text()), case(vec![("call", Json::str(call))]));
                continue;
            }
        };
        out.outcome(format!("decimal:{call}:Ok"));
        let mut reported = false;
        for (qi, &q) in qs.iter().enumerate() {
            for j in 0..2 {
                // rounding of the wrapped argument: two roundings at the magnitude of q, one at the
                // magnitude of the axis, plus the rounding of the reference argument itself
                let arg_err = 4.0 * f64::EPSILON * (q.abs() + x[0].abs() + pf);
                let tol = 64.0 * f64::EPSILON * mag[j] + 2.0 * lip[j] * arg_err;
                let err = (res[[qi, j]] - refv[[qi, j]]).abs();
                out.evals += 1;
                out.nontrivial += 1;
                out.maximum("decimal_err_over_tol", err / tol);
                if !(err <= tol) && !reported {
                    reported = true;
                    out.violate(
                        format!("{key}:{call}:lane{j}"),
                        format!("S({q:e}) = {:e} ({} periods away) but the spline at the wrapped argument {:e} is {:e} (err {err:e}, tol {tol:e})", res[[qi, j]], ks[qi], wq[qi], refv[[qi, j]]),
                        case(vec![("call", Json::str(call)), ("query", Json::Num(q)), ("periods", Json::Int(ks[qi] as i128)), ("wrapped", Json::Num(wq[qi]))]),
                    );
                }
            }
        }
    }
    if out.sample.is_none() {
        out.sample = Some(case(vec![("queries", Json::Int(qs.len() as i128))]));
    }
}

fn body(ctx: &Ctx) -> (Summary, Meta) {
    let quick = ctx.quick();
    let kv = ks(quick);
    let offs = [0.0, -3.0, 1.25, 5.0, 1024.0];
    let mut axes = vec![];
    if quick {
        axes.extend(alpha::full_word_axes(&alpha::h3(), "w", 3, 5, &offs));
        axes.extend(alpha::full_word_axes(&alpha::hw(), "W", 3, 4, &[0.0, 5.0]));
    } else {
        axes.extend(alpha::full_word_axes(&alpha::h4(), "w", 3, 6, &offs));
        axes.extend(alpha::full_word_axes(&alpha::h3(), "w", 7, 7, &[1.25, -3.0]));
        axes.extend(alpha::full_word_axes(&alpha::hw(), "W", 3, 5, &[0.0, 5.0]));
    }
    let mut jobs = vec![];
    for f32 in [false, true] {
        for a in &axes {
            if f32 && a.mesh_ratio > 8.0 {
                continue;
            }
            jobs.push(Job { ax: a.clone(), f32, ks: kv.clone(), xscale: 1.0 });
            // very small and very large units
            if a.name.starts_with("w[") && a.n() <= if quick { 4 } else { 5 } {
                // (f32: 3 dy / dx^2 of the 2^20 lanes has to stay below 2^127)
                for e in if f32 { [-30, 20] } else { [-60, 40] } {
                    jobs.push(Job { ax: a.clone(), f32, ks: kv.clone(), xscale: 2.0f64.powi(e) });
                }
            }
        }
    }
    // non-dyadic axes
    let n_dyadic = jobs.len();
    for (name, x) in [
        ("dec[0.7..2.9]", vec![0.7, 1.3, 2.9]),
        ("dec[-2.8..1.6]", vec![-2.8, -1.1, 0.3, 1.6]),
        ("dec[0.1..0.7]", vec![0.1, 0.2, 0.4, 0.7]),
        ("dec[10.3..13.7]", vec![10.3, 11.1, 12.9, 13.7]),
        ("dec[-0.3..0.3]", vec![-0.3, -0.1, 0.0, 0.3]),
        ("dec[1e-3..7e-3]", vec![1e-3, 2.5e-3, 4e-3, 7e-3]),
        ("dec[-1/3..2/3]", vec![-1.0 / 3.0, 0.1, 0.5, 2.0 / 3.0]),
    ] {
        jobs.push(Job { ax: Axis::new(name.into(), x), f32: false, ks: kv.clone(), xscale: 1.0 });
    }
    let njobs = jobs.len();
    let jobs_idx: Vec<(usize, &Job)> = jobs.iter().enumerate().collect();
    let mut sum = run_jobs(ctx, "periodic", &jobs_idx, |j| if j.0 >= n_dyadic { format!("f64:decimal:{}", j.1.ax.name) } else { j.1.key() }, |&(idx, j)| {
        let mut out = JobOut::default();
        if idx >= n_dyadic {
            run_decimal(j, &mut out);
        } else if j.f32 {
            run::<f32>(j, &mut out);
        } else {
            run::<f64>(j, &mut out);
        }
        out
    });
    sum.merge(run_jobs(ctx, "builder-option-histories", &[()], |_| "builder-option-histories".to_string(), |_| {
        let mut out = JobOut::default();
        nimc::subj::check_spline_option_histories(4, &|b, e| b == 3 && e, &mut out);
        out.sample = Some(Json::str("[Boundary(3), Extrapolate(true), Boundary(1)] vs [Extrapolate(true), Boundary(1)]"));
        out
    }));
    let meta = Meta {
        rule: "every axis word (n>=3, 5 offsets incl. axes that exclude the origin) with periodic-closed lanes, Periodic boundary + extrapolate(true); queries x + kP for every in-range grid query x and every k of the list (|k| up to 2^55 + 1: the float actually passed is wrapped exactly), each job also with axis and queries in units of 2^-60 and 2^40, plus the 1 and 2 ulp neighbours of every image of the range start; oracle = certified exact periodic spline evaluated at the *exactly* wrapped float query; 3 call forms. Plus 7 axes with non-dyadic knots: images of range ends / knots / interior points and their 1-2 ulp neighbours for every k, compared with the implementation's in-range value at the exactly wrapped argument (Lipschitz allowance), and never rejected. Non-trivial = k != 0. Phase builder-option-histories: every sequence of up to 4 CubicSpline option calls that denotes (Periodic, extrapolate) answers in- and out-of-range queries bit-identically to .extrapolate(true).boundary(Periodic).".into(),
        bounds: format!("{njobs} (type, axis) jobs, {} values of k in [-10^6, 10^6]: {:?}; tier {}", kv.len(), if quick { kv.clone() } else { vec![] }, ctx.tier.name()),
        assumptions: vec!["tolerance K eps scale + Lipschitz * (|fl(q - x0) - (q - x0)| + 4 eps (|x0| + P)): the rounding of the wrapped argument allowed by the statement is taken to be the rounding of the difference q - x0 (known exactly per query, zero when representable) plus two roundings at the magnitude of the range; non-dyadic axes: 4 eps (|q| + |x0| + P)".into()],
        extra: vec![],
    };
    (sum, meta)
}

fn main() {
    main_with("C07", body)
}
