//! C01 - Linear 1-D interpolation returns the exact piecewise-linear interpolant.
use nimc::alpha::{self, Axis, Lane};
use nimc::dd::DD;
use nimc::fl::{vec_exact, Fl};
use nimc::refm::{bracket_scan, chord_ref, err_dd};
use nimc::subj::{build_linear, eval_entry, lanes_matrix, layouts2, ENTRIES_1D};
use nimc::{catch, main_with, run_jobs, Ctx, JobOut, Json, Meta, Summary};

#[derive(Clone)]
struct Job {
    axis: Axis,
    explicit: bool,
    f32: bool,
    /// extreme magnitudes: the implementation sees axis and queries x cx and data x cd (powers of
    /// two); the reference is computed on the unscaled problem and scales exactly
    cx: f64,
    cd: f64,
}

impl Job {
    fn key(&self) -> String {
        format!(
            "{}:{}{}:{}",
            if self.f32 { "f32" } else { "f64" },
            self.axis.name,
            if self.cx != 1.0 || self.cd != 1.0 { format!("(axis*2^{},data*2^{})", self.cx.log2(), self.cd.log2()) } else { String::new() },
            if self.explicit { "x" } else { "index" }
        )
    }
}

fn value_set_eps(e: f64) -> Vec<f64> {
    vec![
        -1048576.0,
        -7.0,
        -1.0,
        -(2.0f64.powi(-10)),
        0.0,
        2.0f64.powi(-10),
        1.0,
        1.0 + e,
        1.0 + 2.0 * e,
        1.5,
        2.0,
        7.0,
    ]
}

fn axes(quick: bool, f32: bool) -> Vec<Axis> {
    let mut v = vec![];
    let e = if f32 {
        f32::EPSILON as f64
    } else {
        f64::EPSILON
    };
    let vs = value_set_eps(e);
    v.extend(alpha::subsets_axes(&vs, "v", 2, if quick { 4 } else { 12 }));
    let offs = [0.0, -3.0, 1.25, 1048576.0, -1048576.0, 1099511627776.0];
    if quick {
        v.extend(alpha::full_word_axes(&alpha::h3(), "w", 2, 5, &offs));
        v.extend(alpha::long_word_axes(
            &alpha::h4(),
            "L",
            &[8, 16, 40],
            1,
            &[0.0],
        ));
    } else {
        v.extend(alpha::full_word_axes(&alpha::h4(), "w", 2, 8, &offs));
        v.extend(alpha::full_word_axes(&alpha::hw(), "W", 2, 6, &[0.0]));
        v.extend(alpha::long_word_axes(
            &alpha::h4(),
            "L",
            &[8, 12, 16, 24, 40],
            2,
            &[0.0, -1048576.0],
        ));
    }
    // non-dyadic spacings (the O(1) guess of the lookup is inexact there)
    for (name, x) in [
        ("dec1", vec![0.1, 0.2, 0.3, 0.4]),
        ("dec2", vec![-100.0, -50.3, 0.3]),
        ("dec3", vec![0.1, 0.2, 0.30000000000000004, 0.4, 0.7, 1.1]),
        ("geo", vec![1.0, 3.0, 9.0, 27.0, 81.0, 243.0]),
        ("far", vec![-1048576.0, -1048575.0, -1048573.5, 2.0]),
        ("log80", (1..=80).map(|i| (i as f64).ln()).collect()),
        ("wave120", (0..120).map(|i| i as f64 + 2.5 * (i as f64 * 0.35).sin()).collect()),
        ("sqrt60", (0..60).map(|i| (16.0 * i as f64).sqrt()).collect()),
        ("wave600", (0..600).map(|i| i as f64 * 0.01 + 0.3 * (i as f64 * 0.021).sin()).collect()),
    ] {
        v.push(Axis::new(name.to_string(), x));
    }
    // one far-away knot and a burst of closely spaced ones: the whole burst is within rounding
    // distance (relative to the span) of the knot the position estimate lands on
    for k in [9usize, 12, 17] {
        for exp in if f32 { [16, 18, 21] } else { [43, 46, 50] } {
            let step = 2.0f64.powi(-exp);
            let mut left: Vec<f64> = vec![-4096.0];
            left.extend((0..k).map(|i| i as f64 * step));
            let right: Vec<f64> = left.iter().rev().map(|t| -t).collect();
            v.push(Axis::new(format!("burst-after-far-knot:k{k}:2^-{exp}"), left));
            v.push(Axis::new(format!("burst-before-far-knot:k{k}:2^-{exp}"), right));
        }
    }
    v
}

fn queries<T: Fl>(x: &[T]) -> Vec<T> {
    let n = x.len();
    let four = T::from_f64_lossy(4.0);
    let mut q = vec![];
    for i in 0..n {
        q.push(x[i]);
        if i > 0 {
            q.push(x[i].down());
        }
        if i + 1 < n {
            q.push(x[i].up());
            let h = x[i + 1] - x[i];
            for k in 1..4 {
                let v = x[i] + h * (T::from_f64_lossy(k as f64) / four);
                if v >= x[i] && v <= x[i + 1] {
                    q.push(v);
                }
            }
        }
    }
    q
}

fn run<T: Fl>(job: &Job, out: &mut JobOut) {
    nimc::subj::set_axis_reversed_in_memory(false);
    let n = job.axis.n();
    let xs64: Vec<f64> = if job.explicit {
        job.axis.x.clone()
    } else {
        (0..n).map(|i| i as f64).collect()
    };
    let Some(xt) = vec_exact::<T>(&xs64) else {
        return;
    };
    if xt.windows(2).any(|w| !(w[0] < w[1])) {
        return;
    }
    let lanes: Vec<Lane> = alpha::lanes(&xs64, n <= 12)
        .into_iter()
        .filter(|l| vec_exact::<T>(&l.y).is_some())
        .collect();
    let lt: Vec<Vec<T>> = lanes
        .iter()
        .map(|l| vec_exact::<T>(&l.y).unwrap())
        .collect();
    let data = lanes_matrix(&lt);
    let key = job.key();
    let case = |extra: Vec<(&str, Json)>| {
        let mut v = vec![
            ("type", Json::str(T::NAME)),
            ("axis_name", Json::str(&job.axis.name)),
            ("x", Json::f64s(&xs64)),
            ("explicit_axis", Json::Bool(job.explicit)),
            ("data_layouts", Json::str("C, F, lanes-reversed")),
        ];
        v.extend(extra);
        Json::obj(v)
    };
    let qs = queries(&xt);
    // reference values
    struct RefV {
        exact: DD,
        m: f64,
        strict_inside: bool,
        differ: bool,
    }
    let mut refs: Vec<Vec<RefV>> = vec![];
    for &q in &qs {
        let i = bracket_scan(&xt, q);
        let row = lanes
            .iter()
            .map(|l| {
                let (y1, y2) = (l.y[i], l.y[i + 1]);
                let (exact, was_exact) =
                    chord_ref(xt[i].to_f64(), y1, xt[i + 1].to_f64(), y2, q.to_f64());
                if !was_exact {
                    out.count("references_in_double_double", 1);
                }
                RefV {
                    exact,
                    m: y1.abs().max(y2.abs()),
                    strict_inside: xt[i] < q && q < xt[i + 1],
                    differ: y1 != y2,
                }
            })
            .collect();
        refs.push(row);
    }
    for r in refs.iter().flatten() {
        if r.strict_inside && r.differ {
            out.nontrivial += 1;
        }
    }
    // what the implementation sees (identical unless this is an extreme-magnitude job)
    let (cxt, cdt) = (T::from_f64_lossy(job.cx), T::from_f64_lossy(job.cd));
    let xt_unscaled = xt.clone();
    let _ = &xt_unscaled;
    let xt: Vec<T> = xt.iter().map(|&v| v * cxt).collect();
    let qs_impl: Vec<T> = qs.iter().map(|&v| v * cxt).collect();
    let data = data.mapv(|v| v * cdt);
    if xt.iter().chain(qs_impl.iter()).chain(data.iter()).any(|v| !v.is_finite()) {
        return;
    }
    for (layout, data) in layouts2(&data) {
        let key = format!("{key}:{layout}");
        nimc::subj::set_axis_reversed_in_memory(layout == "rev");
        let ip = match catch(|| {
            build_linear::<T, _>(
                if job.explicit { Some(&xt) } else { None },
                data.clone(),
                false,
            )
        }) {
            Ok(Ok(i)) => i,
            Ok(Err(e)) => {
                out.violate(
                    format!("{key}:build"),
                    format!("valid input rejected by build(): {e}"),
                    case(vec![]),
                );
                return;
            }
            Err(p) => {
                out.violate(
                    format!("{key}:build"),
                    format!("build() panicked: {p}"),
                    case(vec![]),
                );
                return;
            }
        };
        out.states += 1;
        for entry in ENTRIES_1D {
            let res = match eval_entry(&ip, &qs_impl, entry) {
                Ok(r) => r,
                Err(f) => {
                    out.outcome(format!("{entry}:{}", f.class()));
                    out.violate(
                        format!("{key}:{entry}"),
                        format!("in-range batch not answered: {}", f.text()),
                        case(vec![("entry", Json::str(entry))]),
                    );
                    continue;
                }
            };
            out.transitions += 1;
            out.outcome(format!("{entry}:Ok"));
            let mut reported = false;
            for (qi, &q) in qs.iter().enumerate() {
                for (j, l) in lanes.iter().enumerate() {
                    let r = &refs[qi][j];
                    let got = (res[[qi, j]] / cdt).to_f64();
                    let tol = 8.0 * T::EPS * r.m;
                    let err = err_dd(got, r.exact);
                    out.evals += 1;
                    if r.m > 0.0 {
                        out.maximum("err_over_eps_max_y", err / (T::EPS * r.m));
                    }
                    if !(err <= tol) && !reported {
                        reported = true;
                        out.violate(
                        format!("{key}:{entry}:{}", l.name),
                        format!(
                            "Linear at q={} returned {got:e}, the chord through the bracketing points gives {:e} (err {err:e}, tol {tol:e})",
                            nimc::fl::show(q),
                            r.exact.to_f64()
                        ),
                        case(vec![
                            ("entry", Json::str(entry)),
                            ("lane", Json::str(&l.name)),
                            ("data", Json::f64s(&l.y)),
                            ("query", Json::Num(q.to_f64())),
                            ("query_bits", Json::str(&format!("{:#x}", q.bits()))),
                            ("expected", Json::Num(r.exact.to_f64())),
                            ("observed", Json::Num(got)),
                        ]),
                    );
                    }
                }
            }
        }
    }
    if out.sample.is_none() {
        out.sample = Some(case(vec![
            ("lanes", Json::Int(lanes.len() as i128)),
            ("queries", Json::Int(qs.len() as i128)),
        ]));
    }
}

/// The storage of the axis is reused: an interpolator over a *view* of a buffer is queried and
/// dropped, the buffer is overwritten with another axis of the same length, and a new interpolator is
/// built over the same view. The second one must return the interpolant of the second axis
/// (whatever a query path remembers must not be keyed by the address of the axis).
fn run_reuse(n: usize, first: usize, out: &mut JobOut) {
    use ndarray::{Array1, ArrayView1};
    use ndarray_interp::interp1d::{Interp1DBuilder, Linear};
    let words: Vec<Vec<f64>> = {
        let mut ws: Vec<Vec<f64>> = vec![vec![]];
        for _ in 0..n - 1 {
            ws = ws.iter().flat_map(|w| [1.0, 2.0, 0.5].iter().map(move |h| { let mut v = w.clone(); v.push(*h); v })).collect();
        }
        ws
    };
    let knots = |w: &[f64]| -> Vec<f64> {
        let mut x = vec![-1.0];
        for h in w {
            x.push(x[x.len() - 1] + h);
        }
        x
    };
    let y: Vec<f64> = (0..n).map(|i| [1.0, -2.0, 4.0, 0.5, 3.0, -1.0][i % 6]).collect();
    let data = Array1::from(y.clone());
    let mut buf: Vec<f64> = knots(&words[first]);
    let addr = buf.as_ptr() as usize;
    let query_all = |buf: &Vec<f64>, which: &str, a: usize, b: usize, out: &mut JobOut| {
        let x = ArrayView1::from(&buf[..]);
        let ip = match catch(|| Interp1DBuilder::new(data.view()).x(x).strategy(Linear::new()).build()) {
            Ok(Ok(ip)) => ip,
            other => {
                out.violate(format!("reuse:n{n}:{a}->{b}:{which}:build"), format!("build over a view of a reused buffer failed: {:?}", other.map(|r| r.map(|_| ()))), Json::f64s(buf));
                return;
            }
        };
        out.states += 1;
        let mut qs: Vec<f64> = buf.clone();
        for w in buf.windows(2) {
            qs.push(w[0] + (w[1] - w[0]) * 0.25);
            qs.push(w[0] + (w[1] - w[0]) * 0.75);
        }
        for &q in &qs {
            let i = bracket_scan(buf, q);
            let (exact, _) = chord_ref(buf[i], y[i], buf[i + 1], y[i + 1], q);
            let m = y[i].abs().max(y[i + 1].abs());
            out.evals += 1;
            out.transitions += 1;
            if which == "second" {
                out.nontrivial += 1;
            }
            let got = catch(|| ip.interp_scalar(q));
            let ok = match &got {
                Ok(Ok(v)) => err_dd(*v, exact) <= 8.0 * f64::EPSILON * m,
                _ => false,
            };
            out.outcome(if ok { "reuse:agrees" } else { "reuse:differs" });
            if !ok {
                out.violate(
                    format!("reuse:n{n}:{a}->{b}:{which}"),
                    format!("Linear over a view of a buffer that earlier held another axis: q={q} returned {got:?}, the chord through the bracketing points gives {:e}", exact.to_f64()),
                    Json::obj(vec![("first_axis", Json::f64s(&knots(&words[a]))), ("second_axis", Json::f64s(&knots(&words[b]))), ("data", Json::f64s(&y)), ("query", Json::Num(q))]),
                );
                return;
            }
        }
    };
    for b in 0..words.len() {
        if b == first {
            continue;
        }
        // (re)fill with the first axis, query, drop; overwrite with the second, rebuild, query
        buf.copy_from_slice(&knots(&words[first]));
        query_all(&buf, "first", first, b, out);
        buf.copy_from_slice(&knots(&words[b]));
        assert_eq!(buf.as_ptr() as usize, addr);
        query_all(&buf, "second", first, b, out);
    }
    if out.sample.is_none() {
        out.sample = Some(Json::obj(vec![("phase", Json::str("axis storage reuse")), ("n", Json::Int(n as i128)), ("first_axis", Json::f64s(&knots(&words[first])))]));
    }
}

/// An f32 axis with more knots than f32 can count (2^24 + 2: the last index is not representable):
/// every second f32 starting at 1.0, so that the float between two knots is the exact midpoint of
/// the cell. Cells at both ends, at the binade boundaries and the last three are queried.
fn run_huge_f32(out: &mut JobOut) {
    use ndarray::Array1;
    use ndarray_interp::interp1d::{Interp1DBuilder, Linear};
    let n: usize = (1 << 24) + 2;
    let knot = |i: usize| f32::from_bits(0x3f80_0000 + 2 * i as u32);
    let val = |i: usize| [3.0f32, -1.0, 4.0, 1.5, -5.0, 9.0, 2.0][i % 7];
    let x: Array1<f32> = (0..n).map(knot).collect();
    let y: Array1<f32> = (0..n).map(val).collect();
    let ip = match catch(|| Interp1DBuilder::new(y).x(x).strategy(Linear::new()).build()) {
        Ok(Ok(ip)) => ip,
        other => {
            out.violate("huge-f32-axis:build", format!("a strictly increasing f32 axis of 2^24 + 2 knots was not accepted: {:?}", other.map(|r| r.map(|_| ()))), Json::Null);
            return;
        }
    };
    out.states += 1;
    let mut cells: Vec<usize> = vec![0, 1, 2, (1 << 22) - 1, 1 << 22, (1 << 23) - 1, 1 << 23, 3 << 22, (1 << 24) - 2, (1 << 24) - 1, n - 4, n - 3, n - 2];
    cells.dedup();
    for k in cells {
        let mid = f32::from_bits(0x3f80_0000 + 2 * k as u32 + 1);
        for (q, want, what) in [(knot(k), val(k), "left knot"), (mid, (val(k) + val(k + 1)) / 2.0, "midpoint"), (knot(k + 1), val(k + 1), "right knot")] {
            let got = catch(|| ip.interp_scalar(q));
            out.evals += 1;
            out.transitions += 1;
            out.nontrivial += 1;
            let ok = matches!(&got, Ok(Ok(v)) if (v - want).abs() <= 8.0 * f32::EPSILON * val(k).abs().max(val(k + 1).abs()));
            if !ok {
                out.violate(
                    format!("huge-f32-axis:cell{k}:{what}").replace(' ', ""),
                    format!("Linear<f32> on an axis of 2^24 + 2 knots, cell {k}, {what} (q = {q:e}): got {got:?}, the chord gives {want}"),
                    Json::obj(vec![("cell", Json::Int(k as i128)), ("query_bits", Json::str(&format!("{:#x}", q.to_bits()))), ("expected", Json::Num(want as f64))]),
                );
            }
        }
    }
    out.sample = Some(Json::str("f32 axis = every second float from 1.0, 2^24 + 2 knots"));
}

/// Dynamic-rank data with many trailing axes, queried through static rank-1, static rank-2 and
/// dynamic query arrays (results of up to 22 axes): shape and every element.
fn run_high_rank(trailing_axes: usize, out: &mut JobOut) {
    use ndarray::{Array1, Array2, ArrayD, IxDyn};
    use ndarray_interp::interp1d::{Interp1DBuilder, Linear};
    let x = vec![-1.0, 0.5, 1.0, 3.0];
    let mut shape = vec![4usize];
    for k in 0..trailing_axes {
        shape.push(if k == 0 || k + 1 == trailing_axes { 2 } else { 1 });
    }
    let lanes: usize = shape[1..].iter().product();
    let val = |i: usize, k: usize| -> f64 { [1.0, -0.5, 2.0, 0.25, -3.0, 1.5, 0.875][(3 * i + 5 * k) % 7] * (1 + (i + k) % 3) as f64 };
    let mut c = 0usize;
    let data = ArrayD::from_shape_fn(IxDyn(&shape), |_| {
        let (i, k) = (c / lanes, c % lanes);
        c += 1;
        val(i, k)
    });
    let key = format!("high-rank:{trailing_axes}-trailing-axes");
    let ip = match catch(|| Interp1DBuilder::new(data.clone()).x(Array1::from(x.clone())).strategy(Linear::new()).build()) {
        Ok(Ok(ip)) => ip,
        other => {
            out.violate(format!("{key}:build"), format!("valid dynamic-rank data not accepted: {:?}", other.map(|r| r.map(|_| ()))), Json::Null);
            return;
        }
    };
    out.states += 1;
    let q = vec![-1.0, 0.875, 2.5, 3.0];
    let mut results: Vec<(&str, Vec<usize>, Result<ArrayD<f64>, String>)> = vec![];
    let q1 = Array1::from(q.clone());
    results.push(("interp_array(Ix1 query)", vec![4], catch(|| ip.interp_array(&q1)).and_then(|r| r.map(|a| a.into_dyn()).map_err(|e| e.to_string()))));
    let q2 = Array2::from_shape_vec((2, 2), q.clone()).unwrap();
    results.push(("interp_array(Ix2 query)", vec![2, 2], catch(|| ip.interp_array(&q2)).and_then(|r| r.map(|a| a.into_dyn()).map_err(|e| e.to_string()))));
    let qd = ArrayD::from_shape_vec(IxDyn(&[1, 4, 1]), q.clone()).unwrap();
    results.push(("interp_array(dynamic query)", vec![1, 4, 1], catch(|| ip.interp_array(&qd)).and_then(|r| r.map_err(|e| e.to_string()))));
    {
        let mut ws = vec![4usize];
        ws.extend_from_slice(&shape[1..]);
        let mut buf = ArrayD::from_elem(IxDyn(&ws), f64::NAN);
        let r = catch(|| ip.interp_array_into(&q1, buf.view_mut())).and_then(|r| r.map_err(|e| e.to_string()));
        results.push(("interp_array_into(Ix1 query)", vec![4], r.map(|_| buf)));
    }
    for (call, qshape, res) in results {
        let mut want_shape = qshape.clone();
        want_shape.extend_from_slice(&shape[1..]);
        out.evals += 1;
        out.nontrivial += 1;
        out.transitions += 1;
        let what = match &res {
            Ok(a) if a.shape() != &want_shape[..] => Some(format!("result shape {:?}, expected {:?}", a.shape(), want_shape)),
            Ok(a) => {
                let mut bad = None;
                for (e, &got) in a.iter().enumerate() {
                    let (qi, k) = (e / lanes, e % lanes);
                    let i = bracket_scan(&x, q[qi]);
                    let (exact, _) = chord_ref(x[i], val(i, k), x[i + 1], val(i + 1, k), q[qi]);
                    if !(err_dd(got, exact) <= 8.0 * f64::EPSILON * 9.0) {
                        bad = Some(format!("element {e} is {got:e}, the chord gives {:e}", exact.to_f64()));
                        break;
                    }
                }
                bad
            }
            Err(e) => Some(format!("not answered: {e}")),
        };
        if let Some(w) = what {
            out.violate(format!("{key}:{call}").replace(' ', ""), format!("Linear over dynamic-rank data of shape {shape:?}, {call}: {w}"), Json::usizes(&shape));
        }
    }
    out.sample = Some(Json::usizes(&shape));
}

fn body(ctx: &Ctx) -> (Summary, Meta) {
    let mut jobs = vec![];
    for f32 in [false, true] {
        for a in axes(ctx.quick(), f32) {
            if f32 && a.mesh_ratio > 8.0 && a.name.starts_with('W') {
                continue;
            }
            // extreme magnitudes for short word axes: |y| * dx, |y| / dx, dx^2 ... leave the float
            // range for formulas other than the two-point form
            if a.name.starts_with("w[") && a.n() <= 4 && (a.name.ends_with("@0") || a.name.ends_with("@-3")) {
                let e = if f32 { 60 } else { 500 };
                let (big, small) = (2.0f64.powi(e), 2.0f64.powi(-e));
                // (axis and data scaled in opposite directions are left out: there the slope dy/dx itself
                // leaves the float range, which no two-point formula with a slope can avoid)
                let mut pairs = vec![(big, big), (small, small), (big, 1.0), (1.0, big), (small, 1.0), (1.0, small)];
                if !f32 {
                    pairs.push((2.0f64.powi(100), 2.0f64.powi(900)));
                    pairs.push((2.0f64.powi(-100), 2.0f64.powi(-900)));
                }
                for (cx, cd) in pairs {
                    jobs.push(Job { axis: a.clone(), explicit: true, f32, cx, cd });
                }
            }
            jobs.push(Job {
                axis: a,
                explicit: true,
                f32,
                cx: 1.0,
                cd: 1.0,
            });
        }
        for n in [2usize, 3, 4, 5, 6, 7, 8, 40] {
            jobs.push(Job {
                axis: Axis::new(format!("index{n}"), (0..n).map(|i| i as f64).collect()),
                explicit: false,
                f32,
                cx: 1.0,
                cd: 1.0,
            });
        }
    }
    let njobs = jobs.len();
    let mut sum = run_jobs(
        ctx,
        "linear-exact",
        &jobs,
        |j| j.key(),
        |j| {
            let mut out = JobOut::default();
            if j.f32 {
                run::<f32>(j, &mut out);
            } else {
                run::<f64>(j, &mut out);
            }
            out
        },
    );
    let reuse_jobs: Vec<(usize, usize)> = [3usize, 4, 5].iter().flat_map(|&n| (0..3usize.pow(n as u32 - 1)).map(move |a| (n, a))).collect();
    sum.merge(run_jobs(ctx, "axis-storage-reuse", &reuse_jobs, |j| format!("reuse:n{}:first{}", j.0, j.1), |j| {
        let mut out = JobOut::default();
        run_reuse(j.0, j.1, &mut out);
        out
    }));
    sum.merge(run_jobs(ctx, "high-rank-dynamic-data", &[4usize, 5, 7, 12, 18], |t| format!("high-rank:{t}-trailing-axes"), |t| {
        let mut out = JobOut::default();
        run_high_rank(*t, &mut out);
        out
    }));
    sum.merge(run_jobs(ctx, "huge-f32-axis", &[()], |_| "huge-f32-axis".to_string(), |_| {
        let mut out = JobOut::default();
        run_huge_f32(&mut out);
        out
    }));
    let meta = Meta {
        rule: "every axis of the alphabet (value-set subsets incl. ulp clusters and far offsets, interval words, long deviation-bounded words, non-dyadic axes, default index axes) x all data lanes x every query {knot, both float neighbours of every knot, quarter points, range ends} x 4 entry points; oracle = exact rational chord through the two knots found by linear scan. Non-trivial = query strictly inside an interval whose two knot values differ. Phase axis-storage-reuse: every ordered pair (A, B) of different interval words over {1, 2, 1/2} with 3..5 knots: an interpolator over a view of a buffer holding A is queried at every knot and quarter point and dropped, the buffer is overwritten with B and a second interpolator over the same view is queried; both against the exact chord. Phase high-rank-dynamic-data: IxDyn data with 4 .. 18 trailing axes through static rank-1 / rank-2 and dynamic query arrays, shape and every element. Phase huge-f32-axis: an f32 axis of 2^24 + 2 knots (every second float from 1.0; the last index is not representable in f32), knots and exact midpoints of 13 cells at the ends, at binade boundaries and at the very end.".into(),
        bounds: format!("{njobs} (type, axis) jobs; tier {}", ctx.tier.name()),
        assumptions: vec!["tolerance 8 eps max(|y1|,|y2|) (a few ulps of the larger bracketing value)".into()],
        extra: vec![],
    };
    (sum, meta)
}

fn main() {
    main_with("C01", body)
}
