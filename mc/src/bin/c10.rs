//! C10 - build() accepts exactly the valid inputs and reports the rest as BuilderError.
use std::collections::BTreeSet;

use ndarray::{Array1, ArrayD, Dimension, Ix1, Ix2, Ix3, IxDyn, RemoveAxis};
use ndarray_interp::interp1d::cubic_spline::{BoundaryCondition, CubicSpline, RowBoundary};
use ndarray_interp::interp1d::{Interp1DBuilder, Linear};
use ndarray_interp::interp2d::{Bilinear, Interp2DBuilder};
use nimc::subj::builder_err_kind;
use nimc::{catch, main_with, run_jobs, Ctx, JobOut, Json, Meta, Summary};

/// order patterns of an explicit axis of length m
fn axis_patterns(m: usize) -> Vec<(String, Vec<f64>, bool)> {
    // (name, values, strictly increasing?)
    let inc: Vec<f64> = (0..m).map(|i| i as f64 * 0.5 - 1.0).collect();
    let mut v = vec![("increasing".to_string(), inc.clone(), m >= 2)];
    if m >= 2 {
        for p in 0..m - 1 {
            let mut t = inc.clone();
            t[p + 1] = t[p];
            v.push((format!("tie@{p}"), t, false));
            let mut s = inc.clone();
            s.swap(p, p + 1);
            v.push((format!("swap@{p}"), s, false));
        }
        let mut d = inc.clone();
        d.reverse();
        v.push(("decreasing".to_string(), d, false));
    }
    for p in 0..m {
        let mut t = inc.clone();
        t[p] = f64::NAN;
        v.push((format!("NaN@{p}"), t, false));
    }
    if m >= 3 {
        let mut t = inc.clone();
        t[m - 1] = f64::INFINITY;
        v.push(("inf-last".to_string(), t, true));
    }
    v
}

#[derive(Clone, Debug)]
enum Strat {
    Linear,
    CubicNotAKnot,
    /// periodic with the first/last rows: equal, unequal in lane k, NaN ends
    CubicPeriodic(PerEnds),
    /// Individual with a boundary array of the given shape relation
    CubicIndividual(BShape),
}
#[derive(Clone, Copy, Debug, PartialEq)]
enum PerEnds {
    Equal,
    /// lane k of the last row differs from the first row: by 1.0 / by one ulp / by 2^-20 relative
    UnequalLane(usize, u8),
    NanEnds,
    /// first and last rows equal and infinite (+inf in the even lanes, -inf in the odd ones): valid
    InfEnds,
}
#[derive(Clone, Copy, Debug, PartialEq)]
enum BShape {
    Ok,
    WrongLeading,
    WrongTrailing,
    WrongRank,
}

impl Strat {
    fn min(&self) -> usize {
        match self {
            Strat::Linear => 2,
            _ => 3,
        }
    }
}

#[derive(Clone, Debug)]
struct Case1 {
    /// data shape (rank 0 only for dynamic)
    shape: Vec<usize>,
    dynamic: bool,
    /// None = default index axis
    axis: Option<(String, Vec<f64>, bool)>,
    strat: Strat,
}

fn expected_1d(c: &Case1) -> BTreeSet<&'static str> {
    let mut v = BTreeSet::new();
    if c.shape.is_empty() {
        v.insert("ShapeError");
        return v;
    }
    let n = c.shape[0];
    if n < c.strat.min() {
        v.insert("NotEnoughData");
    }
    match &c.axis {
        None => {
            if n < 2 {
                v.insert("Monotonic"); // a default axis with < 2 points is not strictly increasing
            }
        }
        Some((_, x, inc)) => {
            if x.len() != n {
                v.insert("ShapeError");
            }
            if !*inc {
                v.insert("Monotonic");
            }
        }
    }
    match &c.strat {
        Strat::CubicIndividual(b) if *b != BShape::Ok => {
            v.insert("ShapeError");
        }
        // with zero lanes the first and last rows are (vacuously) equal
        Strat::CubicPeriodic(p) if !matches!(p, PerEnds::Equal | PerEnds::InfEnds) && c.shape[1..].iter().product::<usize>() > 0 => {
            v.insert("ValueError");
        }
        _ => {}
    }
    v
}

fn data_for(c: &Case1) -> ArrayD<f64> {
    let mut d = ArrayD::from_shape_fn(IxDyn(&c.shape), |ix| {
        let mut v = 1.0;
        for (k, i) in ix.slice().iter().enumerate() {
            v += (*i as f64 + 1.0) * [0.5, 0.25, 2.0, 1.0][k % 4];
        }
        v
    });
    if let Strat::CubicPeriodic(p) = &c.strat {
        if !c.shape.is_empty() && c.shape[0] >= 1 {
            let n = c.shape[0];
            let first = d.index_axis(ndarray::Axis(0), 0).to_owned();
            d.index_axis_mut(ndarray::Axis(0), n - 1).assign(&first);
            match p {
                PerEnds::Equal => {}
                PerEnds::UnequalLane(k, how) => {
                    let mut last = d.index_axis_mut(ndarray::Axis(0), n - 1);
                    let len = last.len();
                    if len > 0 {
                        if let Some(e) = last.iter_mut().nth(k % len) {
                            *e = match how {
                                0 => *e + 1.0,
                                1 => f64::from_bits(e.to_bits() + 1),
                                _ => *e * (1.0 + 2.0f64.powi(-20)),
                            };
                        }
                    }
                }
                PerEnds::NanEnds => {
                    d.index_axis_mut(ndarray::Axis(0), n - 1).fill(f64::NAN);
                    d.index_axis_mut(ndarray::Axis(0), 0).fill(f64::NAN);
                }
                PerEnds::InfEnds => {
                    for row in [0, n - 1] {
                        for (k, e) in d.index_axis_mut(ndarray::Axis(0), row).iter_mut().enumerate() {
                            *e = if k % 2 == 0 { f64::INFINITY } else { f64::NEG_INFINITY };
                        }
                    }
                }
            }
        }
    }
    d
}

fn bounds_for<D: Dimension>(c: &Case1, b: BShape) -> Option<BoundaryCondition<f64, D>> {
    let mut s = c.shape.clone();
    if s.is_empty() {
        s = vec![1];
    }
    s[0] = 1;
    match b {
        BShape::Ok => {}
        BShape::WrongLeading => s[0] = 2,
        BShape::WrongTrailing => {
            if s.len() < 2 {
                return None;
            }
            let l = s.len() - 1;
            s[l] += 1;
        }
        BShape::WrongRank => s.push(1),
    }
    let arr = ArrayD::from_elem(IxDyn(&s), RowBoundary::Natural);
    arr.into_dimensionality::<D>().ok().map(BoundaryCondition::Individual)
}

/// "Ok" | error kind | "panic: .."
fn build_1d<D: Dimension + RemoveAxis>(c: &Case1) -> Option<String> {
    let data = data_for(c).into_dimensionality::<D>().ok()?;
    let x = c.axis.as_ref().map(|a| Array1::from(a.1.clone()));
    macro_rules! go {
        ($strat:expr) => {{
            let r = catch(|| {
                let b = Interp1DBuilder::new(data.clone()).strategy($strat);
                match x.clone() {
                    Some(x) => b.x(x).build().map(|_| ()),
                    None => b.build().map(|_| ()),
                }
            });
            Some(match r {
                Ok(Ok(())) => "Ok".to_string(),
                Ok(Err(e)) => builder_err_kind(&e).to_string(),
                Err(p) => format!("panic: {p}"),
            })
        }};
    }
    match &c.strat {
        Strat::Linear => go!(Linear::new()),
        Strat::CubicNotAKnot => go!(CubicSpline::<f64, D>::new()),
        Strat::CubicPeriodic(_) => go!(CubicSpline::<f64, D>::new().boundary(BoundaryCondition::Periodic)),
        Strat::CubicIndividual(b) => {
            let bc = bounds_for::<D>(c, *b)?;
            go!(CubicSpline::<f64, D>::new().boundary(bc))
        }
    }
}

fn judge(out: &mut JobOut, key: String, got: String, want: &BTreeSet<&'static str>, case: Json) {
    out.evals += 1;
    out.transitions += 1;
    out.outcome(got.split(':').next().unwrap_or("?").to_string());
    if !want.is_empty() {
        out.nontrivial += 1;
    }
    let ok = if want.is_empty() { got == "Ok" } else { want.contains(got.as_str()) };
    if !ok {
        out.violate(
            key,
            format!(
                "build() returned {got}; {}",
                if want.is_empty() { "the input is valid".to_string() } else { format!("the input violates requirements whose error kinds are {want:?}") }
            ),
            case,
        );
    }
}

fn cases_1d() -> Vec<Case1> {
    let mut v = vec![];
    let strats = |trail: usize| -> Vec<Strat> {
        let mut s = vec![
            Strat::Linear,
            Strat::CubicNotAKnot,
            Strat::CubicPeriodic(PerEnds::Equal),
            Strat::CubicPeriodic(PerEnds::NanEnds),
            Strat::CubicPeriodic(PerEnds::InfEnds),
            Strat::CubicIndividual(BShape::Ok),
            Strat::CubicIndividual(BShape::WrongLeading),
            Strat::CubicIndividual(BShape::WrongTrailing),
            Strat::CubicIndividual(BShape::WrongRank),
        ];
        for k in 0..trail.max(1) {
            for how in 0..3 {
                s.push(Strat::CubicPeriodic(PerEnds::UnequalLane(k, how)));
            }
        }
        s
    };
    // rank 0 (dynamic only)
    for st in strats(1) {
        for axis in [None, Some(("increasing".to_string(), vec![0.0, 1.0, 2.0], true)), Some(("empty".to_string(), vec![], false))] {
            v.push(Case1 { shape: vec![], dynamic: true, axis, strat: st.clone() });
        }
    }
    for (trailing, dynamic) in [(vec![], false), (vec![], true), (vec![2], false), (vec![2], true), (vec![2, 1], false), (vec![2, 1], true), (vec![0], true), (vec![3], false)] {
        let lanes: usize = trailing.iter().product();
        for n in 0..=5usize {
            let mut shape = vec![n];
            shape.extend_from_slice(&trailing);
            let mut axes: Vec<Option<(String, Vec<f64>, bool)>> = vec![None];
            for m in [n.wrapping_sub(1), n, n + 1] {
                if m > 6 {
                    continue;
                }
                for p in axis_patterns(m) {
                    axes.push(Some(p));
                }
            }
            for st in strats(lanes) {
                if n > st.min() + 2 {
                    continue;
                }
                for a in &axes {
                    v.push(Case1 { shape: shape.clone(), dynamic, axis: a.clone(), strat: st.clone() });
                }
            }
        }
    }
    v
}

fn run_1d(c: &Case1, out: &mut JobOut) {
    let want = expected_1d(c);
    let got = if c.dynamic {
        build_1d::<IxDyn>(c)
    } else {
        match c.shape.len() {
            1 => build_1d::<Ix1>(c),
            2 => build_1d::<Ix2>(c),
            3 => build_1d::<Ix3>(c),
            _ => None,
        }
    };
    let Some(got) = got else {
        return; // combination not expressible with static dimensions
    };
    let key = key_1d(c);
    judge(
        out,
        key,
        got,
        &want,
        Json::obj(vec![
            ("builder", Json::str("Interp1DBuilder")),
            ("data_shape", Json::usizes(&c.shape)),
            ("dynamic_rank", Json::Bool(c.dynamic)),
            ("axis", match &c.axis { None => Json::str("default index axis"), Some(a) => Json::Arr(a.1.iter().map(|v| Json::Num(*v)).collect()) }),
            ("axis_pattern", Json::str(&c.axis.as_ref().map(|a| a.0.clone()).unwrap_or_default())),
            ("strategy", Json::str(&format!("{:?}", c.strat))),
        ]),
    );
}

fn key_1d(c: &Case1) -> String {
    format!(
        "1d:{:?}{}:{}:{:?}",
        c.shape,
        if c.dynamic { "dyn" } else { "" },
        c.axis.as_ref().map(|a| format!("{}/{}", a.0, a.1.len())).unwrap_or("default".into()),
        c.strat
    )
    .replace(' ', "")
}

#[derive(Clone, Debug)]
struct Case2 {
    shape: Vec<usize>,
    dynamic: bool,
    x: Option<(String, Vec<f64>, bool)>,
    y: Option<(String, Vec<f64>, bool)>,
}

fn expected_2d(c: &Case2) -> BTreeSet<&'static str> {
    let mut v = BTreeSet::new();
    if c.shape.len() < 2 {
        v.insert("ShapeError");
        return v;
    }
    for (k, a) in [(0usize, &c.x), (1, &c.y)] {
        let n = c.shape[k];
        if n < 2 {
            v.insert("NotEnoughData");
        }
        match a {
            None => {
                if n < 2 {
                    v.insert("Monotonic");
                }
            }
            Some((_, x, inc)) => {
                if x.len() != n {
                    v.insert("ShapeError");
                }
                if !*inc {
                    v.insert("Monotonic");
                }
            }
        }
    }
    v
}

fn build_2d<D>(c: &Case2) -> Option<String>
where
    D: Dimension + RemoveAxis,
    D::Smaller: RemoveAxis,
{
    let data = ArrayD::from_elem(IxDyn(&c.shape), 1.5f64).into_dimensionality::<D>().ok()?;
    let r = catch(|| {
        let b = Interp2DBuilder::new(data.clone()).strategy(Bilinear::new());
        match (c.x.clone(), c.y.clone()) {
            (Some(x), Some(y)) => b.x(Array1::from(x.1)).y(Array1::from(y.1)).build().map(|_| ()),
            (Some(x), None) => b.x(Array1::from(x.1)).build().map(|_| ()),
            (None, Some(y)) => b.y(Array1::from(y.1)).build().map(|_| ()),
            (None, None) => b.build().map(|_| ()),
        }
    });
    Some(match r {
        Ok(Ok(())) => "Ok".to_string(),
        Ok(Err(e)) => builder_err_kind(&e).to_string(),
        Err(p) => format!("panic: {p}"),
    })
}

fn axis_options(n: usize, quick: bool) -> Vec<Option<(String, Vec<f64>, bool)>> {
    let mut axes: Vec<Option<(String, Vec<f64>, bool)>> = vec![None];
    for m in [n.wrapping_sub(1), n, n + 1] {
        if m > 5 {
            continue;
        }
        for p in axis_patterns(m) {
            if quick && m != n && !(p.0 == "increasing" || p.0 == "decreasing" || p.0 == "NaN@0") {
                continue;
            }
            axes.push(Some(p));
        }
    }
    axes
}

fn cases_2d(quick: bool) -> Vec<Case2> {
    let mut v = vec![];
    let inc3 = Some(("increasing".to_string(), vec![0.0, 1.0, 2.0], true));
    for shape in [vec![], vec![3]] {
        for x in [None, inc3.clone()] {
            for y in [None, inc3.clone(), Some(("empty".to_string(), vec![], false))] {
                v.push(Case2 { shape: shape.clone(), dynamic: true, x: x.clone(), y });
            }
        }
    }
    for (trailing, dynamic) in [(vec![], false), (vec![], true), (vec![2], false), (vec![2], true), (vec![0], true)] {
        for nx in 0..=4usize {
            for ny in 0..=4usize {
                if quick && nx == 4 && ny == 4 {
                    continue;
                }
                let mut shape = vec![nx, ny];
                shape.extend_from_slice(&trailing);
                for x in axis_options(nx, quick) {
                    for y in axis_options(ny, quick) {
                        v.push(Case2 { shape: shape.clone(), dynamic, x: x.clone(), y });
                    }
                }
            }
        }
    }
    v
}

fn run_2d(c: &Case2, out: &mut JobOut) {
    let want = expected_2d(c);
    let got = if c.dynamic {
        build_2d::<IxDyn>(c)
    } else {
        match c.shape.len() {
            2 => build_2d::<Ix2>(c),
            3 => build_2d::<Ix3>(c),
            _ => None,
        }
    };
    let Some(got) = got else { return };
    let nm = |a: &Option<(String, Vec<f64>, bool)>| a.as_ref().map(|a| format!("{}/{}", a.0, a.1.len())).unwrap_or("default".into());
    let key = format!("2d:{:?}{}:x={}:y={}", c.shape, if c.dynamic { "dyn" } else { "" }, nm(&c.x), nm(&c.y)).replace(' ', "");
    judge(
        out,
        key,
        got,
        &want,
        Json::obj(vec![
            ("builder", Json::str("Interp2DBuilder")),
            ("data_shape", Json::usizes(&c.shape)),
            ("dynamic_rank", Json::Bool(c.dynamic)),
            ("x", match &c.x { None => Json::str("default"), Some(a) => Json::Arr(a.1.iter().map(|v| Json::Num(*v)).collect()) }),
            ("y", match &c.y { None => Json::str("default"), Some(a) => Json::Arr(a.1.iter().map(|v| Json::Num(*v)).collect()) }),
        ]),
    );
}

enum AnyCase {
    One(Case1),
    Two(Case2),
}

/// cases outside the small decision table: long axes with one defect at every position,
/// axes that alias each other or the data, and the default index axis of a long f32 data set
fn special_cases(quick: bool, deep: bool, out: &mut JobOut) {
    use ndarray::{Array2, ArrayView1};
    let mut judge1 = |key: String, got: Result<Result<(), ndarray_interp::BuilderError>, String>, want: &[&'static str], out: &mut JobOut, what: String| {
        let g = match got {
            Ok(Ok(())) => "Ok".to_string(),
            Ok(Err(e)) => builder_err_kind(&e).to_string(),
            Err(p) => format!("panic: {p}"),
        };
        let set: BTreeSet<&'static str> = want.iter().cloned().collect();
        judge(out, key, g, &set, Json::str(&what));
    };
    // (1) long axes, one defect at every position
    let mut lens: Vec<usize> = if quick { vec![65, 128, 129, 200] } else { vec![33, 64, 65, 127, 128, 129, 130, 200, 256, 257, 1025] };
    if deep {
        lens.extend([511, 512, 513, 2047, 2048, 2049, 4097]);
    }
    for &n in &lens {
        let inc: Vec<f64> = (0..n).map(|i| i as f64 * 0.5 - 3.0).collect();
        let mut variants: Vec<(String, Vec<f64>, bool)> = vec![("increasing".into(), inc.clone(), true)];
        for p in 0..n - 1 {
            let mut t = inc.clone();
            t[p + 1] = t[p];
            variants.push((format!("tie@{p}"), t, false));
            let mut d = inc.clone();
            d[p + 1] = d[p] - 0.25;
            variants.push((format!("dip@{p}"), d, false));
        }
        for p in 0..n {
            let mut t = inc.clone();
            t[p] = f64::NAN;
            variants.push((format!("NaN@{p}"), t, false));
        }
        for (name, x, ok) in variants {
            let want: &[&'static str] = if ok { &[] } else { &["Monotonic"] };
            let xa = Array1::from(x.clone());
            let d1 = Array1::from_elem(n, 1.0);
            let r = catch(|| Interp1DBuilder::new(d1.clone()).x(xa.clone()).build().map(|_| ()));
            judge1(format!("long1d:n{n}:{name}"), r, want, out, format!("Interp1D, axis of {n} points, {name}"));
            let d2 = Array2::from_elem((n, 2), 1.0);
            let r = catch(|| Interp2DBuilder::new(d2.clone()).x(xa.clone()).build().map(|_| ()));
            judge1(format!("long2dx:n{n}:{name}"), r, want, out, format!("Interp2D, x axis of {n} points, {name}"));
            let d3 = Array2::from_elem((2, n), 1.0);
            let r = catch(|| Interp2DBuilder::new(d3.clone()).y(xa.clone()).build().map(|_| ()));
            judge1(format!("long2dy:n{n}:{name}"), r, want, out, format!("Interp2D, y axis of {n} points, {name}"));
        }
    }
    // (2) aliasing: x and y are views into one table that start at the same element
    for m in [3usize, 4, 5] {
        for (xok, yok) in [(true, true), (true, false), (false, true), (false, false)] {
            let mut table = Array2::<f64>::zeros((m, m));
            for i in 0..m {
                for j in 0..m {
                    table[[i, j]] = 100.0 + (i * m + j) as f64;
                }
            }
            for i in 0..m {
                table[[i, 0]] = if xok { i as f64 } else { [0.0, 5.0, 1.0, 6.0, 2.0][i] };
            }
            for j in 1..m {
                table[[0, j]] = if yok { table[[0, 0]] + j as f64 } else { [0.0, 5.0, 1.0, 6.0, 2.0][j] };
            }
            let x: ArrayView1<f64> = table.column(0);
            let y: ArrayView1<f64> = table.row(0);
            let xinc = x.iter().zip(x.iter().skip(1)).all(|(a, b)| a < b);
            let yinc = y.iter().zip(y.iter().skip(1)).all(|(a, b)| a < b);
            let data = Array2::from_elem((m, m), 1.0);
            let want: &[&'static str] = if xinc && yinc { &[] } else { &["Monotonic"] };
            let r = catch(|| Interp2DBuilder::new(data.clone()).x(x).y(y).build().map(|_| ()));
            judge1(format!("alias2d:m{m}:x{xinc}:y{yinc}"), r, want, out, format!("x = table.column(0), y = table.row(0) of one {m}x{m} table: x {:?}, y {:?}", x.to_vec(), y.to_vec()));
            // the same view for both axes
            let want: &[&'static str] = if xinc { &[] } else { &["Monotonic"] };
            let r = catch(|| Interp2DBuilder::new(data.clone()).x(x).y(x).build().map(|_| ()));
            judge1(format!("alias2d-same:m{m}:x{xinc}"), r, want, out, format!("x and y are the same view {:?}", x.to_vec()));
            // 1-D: the axis is a view of the data's first column
            let r = catch(|| Interp1DBuilder::new(table.view()).x(x).build().map(|_| ()));
            judge1(format!("alias1d:m{m}:x{xinc}:{yok}"), r, want, out, format!("Interp1D with x = data.column(0) = {:?}", x.to_vec()));
        }
    }
    // (4) integer element types (signed and unsigned): the verdict must not depend on being able to
    // form a negative difference
    macro_rules! int_axes {
        ($($t:ty),*) => {$(
            for n in 2..=5usize {
                let inc: Vec<$t> = [1, 3, 6, 10, 15][..n].iter().map(|&v| v as $t).collect();
                let mut variants: Vec<(String, Vec<$t>, bool)> = vec![("increasing".into(), inc.clone(), true)];
                for p in 0..n - 1 {
                    let mut t = inc.clone();
                    t[p + 1] = t[p];
                    variants.push((format!("tie@{p}"), t, false));
                    let mut d = inc.clone();
                    d[p + 1] = d[p] - 1;
                    variants.push((format!("dip@{p}"), d, false));
                    let mut z = inc.clone();
                    z[p + 1] = 0;
                    variants.push((format!("zero@{}", p + 1), z, false));
                }
                let mut dec = inc.clone();
                dec.reverse();
                variants.push(("decreasing".into(), dec, false));
                variants.push(("constant".into(), vec![7 as $t; n], false));
                let mut top = inc.clone();
                top[n - 1] = <$t>::MAX;
                variants.push(("increasing-to-MAX".into(), top.clone(), true));
                top[0] = <$t>::MIN;
                variants.push(("MIN-to-MAX".into(), top.clone(), true));
                top.reverse();
                variants.push(("MAX-to-MIN".into(), top, false));
                // unit steps at the top of the type and a third of the way up (beyond 2^53 for the
                // 64-bit types, where neighbouring integers are not distinct as f64)
                for (bname, base) in [("MAX-n", <$t>::MAX - (n as $t)), ("MAX/3", <$t>::MAX / 3)] {
                    let inc_b: Vec<$t> = (0..n).map(|i| base + i as $t).collect();
                    variants.push((format!("{bname}+i"), inc_b.clone(), true));
                    for p in 0..n - 1 {
                        let mut t = inc_b.clone();
                        t[p + 1] = t[p];
                        variants.push((format!("{bname}+i:tie@{p}"), t, false));
                        let mut d = inc_b.clone();
                        d.swap(p, p + 1);
                        variants.push((format!("{bname}+i:swap@{p}"), d, false));
                    }
                }
                for (name, x, ok) in variants {
                    let want: &[&'static str] = if ok { &[] } else { &["Monotonic"] };
                    let xa = Array1::from(x.clone());
                    let d1 = Array1::<$t>::from_elem(n, 1 as $t);
                    let r = catch(|| Interp1DBuilder::new(d1.clone()).x(xa.clone()).build().map(|_| ()));
                    judge1(format!("int1d:{}:n{n}:{name}", stringify!($t)), r, want, out, format!("Interp1D<{}>, x = {x:?}", stringify!($t)));
                    let d2 = Array2::<$t>::from_elem((n, 2), 1 as $t);
                    let r = catch(|| Interp2DBuilder::new(d2.clone()).x(xa.clone()).build().map(|_| ()));
                    judge1(format!("int2dx:{}:n{n}:{name}", stringify!($t)), r, want, out, format!("Interp2D<{}>, x = {x:?}", stringify!($t)));
                    let d3 = Array2::<$t>::from_elem((2, n), 1 as $t);
                    let r = catch(|| Interp2DBuilder::new(d3.clone()).y(xa.clone()).build().map(|_| ()));
                    judge1(format!("int2dy:{}:n{n}:{name}", stringify!($t)), r, want, out, format!("Interp2D<{}>, y = {x:?}", stringify!($t)));
                }
            }
        )*};
    }
    int_axes!(u8, u16, u32, u64, usize, i8, i32, i64);
    // (5) narrow integer element types with data longer than the type can count: constructing must
    // not panic; with an explicit valid axis the build succeeds, with the default index axis (whose
    // values cannot all be represented) it returns an error
    macro_rules! narrow_types {
        ($($t:ty),*) => {$(
            let (lo, hi) = (<$t>::MIN as i64, <$t>::MAX as i64);
            let all = (hi - lo + 1) as usize; // number of values of the type
            for n in [hi as usize, hi as usize + 1, hi as usize + 2, all - 1, all, all + 1, all + 44] {
                let any_err: &[&'static str] = &["ShapeError", "Monotonic", "NotEnoughData", "ValueError"];
                let d1 = Array1::<$t>::from_elem(n, 1 as $t);
                // default index axis: representable iff n - 1 <= MAX
                let want: &[&'static str] = if n - 1 <= hi as usize { &[] } else { any_err };
                let r = catch(|| Interp1DBuilder::new(d1.clone()).build().map(|_| ()));
                judge1(format!("narrow1d:{}:n{n}:default-axis", stringify!($t)), r, want, out, format!("Interp1D<{}> over {n} values with the default index axis", stringify!($t)));
                // explicit axis lo, lo+1, ..: exists iff n <= number of values of the type
                if n <= all {
                    let xa = Array1::from((0..n as i64).map(|i| (lo + i) as $t).collect::<Vec<$t>>());
                    let r = catch(|| Interp1DBuilder::new(d1.clone()).x(xa.clone()).build().map(|_| ()));
                    judge1(format!("narrow1d:{}:n{n}:explicit-axis", stringify!($t)), r, &[], out, format!("Interp1D<{}> over {n} values with the explicit axis {lo}, {}, ..", stringify!($t), lo + 1));
                    let d2 = Array2::<$t>::from_elem((n, 2), 1 as $t);
                    let ya = Array1::from(vec![0 as $t, 5 as $t]);
                    let r = catch(|| Interp2DBuilder::new(d2.clone()).x(xa.clone()).y(ya.clone()).build().map(|_| ()));
                    judge1(format!("narrow2dx:{}:n{n}:explicit-axes", stringify!($t)), r, &[], out, format!("Interp2D<{}> over ({n}, 2) values with explicit axes", stringify!($t)));
                    let d3 = Array2::<$t>::from_elem((2, n), 1 as $t);
                    let r = catch(|| Interp2DBuilder::new(d3.clone()).x(ya.clone()).y(xa.clone()).build().map(|_| ()));
                    judge1(format!("narrow2dy:{}:n{n}:explicit-axes", stringify!($t)), r, &[], out, format!("Interp2D<{}> over (2, {n}) values with explicit axes", stringify!($t)));
                }
                let d2 = Array2::<$t>::from_elem((n, 2), 1 as $t);
                let r = catch(|| Interp2DBuilder::new(d2.clone()).build().map(|_| ()));
                judge1(format!("narrow2d:{}:n{n}:default-axes", stringify!($t)), r, want, out, format!("Interp2D<{}> over ({n}, 2) values with default axes", stringify!($t)));
            }
        )*};
    }
    narrow_types!(i8, u8, i16, u16);
    // (3) the default index axis of a long f32 data set is not strictly increasing (2^24 + 1 is
    // not representable): build must report it, not hand out an interpolator
    let n = (1usize << 24) + 2;
    let d = Array1::<f32>::zeros(n);
    let r = catch(|| Interp1DBuilder::new(d.view()).build().map(|_| ()));
    judge1("f32-default-axis-2^24+2".into(), r, &["Monotonic"], out, format!("Interp1D over {n} f32 values with the default index axis"));
    if !quick {
        let d = Array2::<f32>::zeros((n, 2));
        let r = catch(|| Interp2DBuilder::new(d.view()).build().map(|_| ()));
        judge1("f32-default-x-axis-2^24+2".into(), r, &["Monotonic"], out, format!("Interp2D over ({n}, 2) f32 values with default axes"));
    }
}

// ------------------------------------------------------------------------------------------
// builder call orders: the builders are type-state builders whose calls can come in any order and
// can be repeated (the last call of a kind wins). Every sequence of up to 3 calls must behave like
// the canonical expression of the configuration it denotes: same verdict, same error kind, same
// answers.

use ndarray::Array2;

fn obs1<S>(r: Result<Result<ndarray_interp::interp1d::Interp1D<ndarray::OwnedRepr<f64>, ndarray::OwnedRepr<f64>, Ix1, S>, ndarray_interp::BuilderError>, String>) -> String
where
    S: ndarray_interp::interp1d::Interp1DStrategy<ndarray::OwnedRepr<f64>, ndarray::OwnedRepr<f64>, Ix1>,
{
    match r {
        Err(p) => format!("panic: {p}"),
        Ok(Err(e)) => format!("Err({})", builder_err_kind(&e)),
        Ok(Ok(ip)) => {
            let q = [-3.5, -3.0, -1.0, 0.0, 0.5, 3.0, 4.0, 5.0, 6.5, 7.0, 8.0];
            let v: Vec<String> = q.iter().map(|&x| match catch(|| ip.interp_scalar(x)) { Ok(Ok(v)) => format!("{:#x}", v.to_bits()), Ok(Err(_)) => "OutOfBounds".to_string(), Err(_) => "panic".to_string() }).collect();
            format!("Ok[{}]", v.join(","))
        }
    }
}

fn obs2<S>(r: Result<Result<ndarray_interp::interp2d::Interp2D<ndarray::OwnedRepr<f64>, ndarray::OwnedRepr<f64>, ndarray::OwnedRepr<f64>, Ix2, S>, ndarray_interp::BuilderError>, String>) -> String
where
    S: ndarray_interp::interp2d::Interp2DStrategy<ndarray::OwnedRepr<f64>, ndarray::OwnedRepr<f64>, ndarray::OwnedRepr<f64>, Ix2>,
{
    match r {
        Err(p) => format!("panic: {p}"),
        Ok(Err(e)) => format!("Err({})", builder_err_kind(&e)),
        Ok(Ok(ip)) => {
            let q = [(-0.5, 0.0), (0.0, 0.0), (1.5, -2.0), (3.0, 1.0), (2.0, 3.5), (7.0, 5.0), (8.0, 1.0), (1.0, 6.0)];
            let v: Vec<String> = q.iter().map(|&(x, y)| match catch(|| ip.interp_scalar(x, y)) { Ok(Ok(v)) => format!("{:#x}", v.to_bits()), Ok(Err(_)) => "OutOfBounds".to_string(), Err(_) => "panic".to_string() }).collect();
            format!("Ok[{}]", v.join(","))
        }
    }
}

include!("../gen/c10_orders.rs");

fn builder_call_orders(out: &mut JobOut) {
    let d1 = Array1::from(vec![1.0, -2.0, 4.0, 0.5, 3.0]);
    let xa = Array1::from(vec![0.0, 1.0, 2.0, 4.0, 7.0]);
    let xb = Array1::from(vec![-3.0, -1.0, 0.0, 2.0, 5.0]);
    let xbad = Array1::from(vec![0.0, 2.0, 1.0, 4.0, 7.0]);
    let mut check = |name: &str, got: String, cname: &str, want: String| {
        out.evals += 1;
        out.states += 1;
        out.transitions += 1;
        out.nontrivial += 1;
        out.outcome(format!("call-order:{}", got.split(['[', '(']).next().unwrap_or("")));
        if got != want {
            out.violate(
                format!("call-order:{name}"),
                format!("the builder calls [{name}] give {got}, the configuration they denote, built as [{cname}], gives {want}"),
                Json::str(name),
            );
        }
    };
    builder_orders_1d(&d1, &xa, &xb, &xbad, &mut check);
    let d2 = Array2::from_shape_fn((5, 4), |(i, j)| ((i * 4 + j) as f64 * 0.37).sin() * 3.0);
    let yb = Array1::from(vec![-2.0, 0.0, 1.0, 5.0]);
    let ybad = Array1::from(vec![-2.0, 0.0, 0.0, 5.0]);
    builder_orders_2d(&d2, &xa, &xbad, &yb, &ybad, &mut check);
}

fn body(ctx: &Ctx) -> (Summary, Meta) {
    // the former thorough bounds cost under a second: they are the quick tier now
    let quick = false;
    let deep = !ctx.quick();
    let mut all: Vec<AnyCase> = cases_1d().into_iter().map(AnyCase::One).collect();
    let n1 = all.len();
    all.extend(cases_2d(quick).into_iter().map(AnyCase::Two));
    let n2 = all.len() - n1;
    // group into chunks so that the job list stays small
    let chunks: Vec<Vec<&AnyCase>> = all.chunks(256).map(|c| c.iter().collect()).collect();
    let sum = run_jobs(ctx, "decision-table", &chunks, |c| match c[0] { AnyCase::One(c) => key_1d(c), AnyCase::Two(c) => format!("2d-chunk:{:?}", c.shape) }, |chunk| {
        let mut out = JobOut::default();
        for c in chunk {
            match c {
                AnyCase::One(c) => run_1d(c, &mut out),
                AnyCase::Two(c) => run_2d(c, &mut out),
            }
        }
        out.states = out.evals;
        if out.sample.is_none() {
            if let Some(AnyCase::One(c)) = chunk.first() {
                out.sample = Some(Json::str(&key_1d(c)));
            }
        }
        out
    });
    let mut sum = sum;
    sum.merge(run_jobs(ctx, "special-cases", &[()], |_| "special".to_string(), |_| {
        let mut out = JobOut::default();
        special_cases(quick, deep, &mut out);
        builder_call_orders(&mut out);
        out.states = out.evals;
        out.sample = Some(Json::str("long axes with one defect at every position; aliased axis views; f32 default axis of 2^24+2 points"));
        out
    }));
    let meta = Meta {
        rule: "full factorial decision table. 1-D: data rank {dynamic 0, static and dynamic 1..3} x length 0..min+2 x axis {default, explicit of length n-1, n, n+1} x order pattern {increasing, tie / adjacent swap / NaN at each position, decreasing, +inf last, empty, single} x strategy {Linear, CubicSpline NotAKnot, Periodic with ends equal / equal and infinite / unequal in each lane / NaN, Individual with boundary array shape ok / wrong leading / wrong trailing / wrong rank}; 2-D: x-factors x y-factors x rank {dynamic 0, 1, ok}, non-square. Oracle: valid iff no requirement violated; otherwise the returned BuilderError kind must belong to the kinds of the violated requirements; never a panic. Plus special cases: long axes (up to 257 / 1025 points) with a tie, a dip or NaN at every position for Interp1D and both axes of Interp2D; x and y as views into one table starting at the same element (column and row), the same view for both axes, the axis as a view of the data; the default index axis of 2^24+2 f32 values (not strictly increasing after the cast). Non-trivial = input with at least one violated requirement. Builder call orders: every sequence of 0..3 calls over {x(A), x(B), x(not increasing), strategy(Linear), strategy(Linear+extrapolate), strategy(CubicSpline)} (1-D) and {x, x(bad), y, y(bad), strategy(Bilinear), strategy(Bilinear+extrapolate)} (2-D) - 518 expressions - gives the verdict, error kind and answers of the canonical expression of the configuration it denotes (the last call of a kind wins).".into(),
        bounds: format!("{n1} 1-D cases + {n2} 2-D cases (every combination of simultaneous violations); tier {}", ctx.tier.name()),
        assumptions: vec!["an axis with fewer than 2 points counts as not strictly increasing (consistent with C12)".into()],
        extra: vec![],
    };
    (sum, meta)
}

fn main() {
    main_with("C10", body)
}
