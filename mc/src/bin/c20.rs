//! C20 - Linear and Bilinear results depend only on the bracketing data points.
use ndarray::{Array2, Array3};
use nimc::alpha::{self, Axis};
use nimc::fl::{same_bits, vec_exact, Fl};
use nimc::refm::bracket_scan;
use nimc::subj::{build_bilinear, build_linear, call1d, call2d};
use nimc::{catch, main_with, run_jobs, Ctx, JobOut, Json, Meta, Summary};

#[derive(Clone)]
struct Job {
    ax: Axis,
    ay: Option<Axis>,
    f32: bool,
    /// axes stored with reversed memory order (negative stride)
    rev: bool,
}
impl Job {
    fn key(&self) -> String {
        format!(
            "{}{}:{}{}",
            if self.f32 { "f32" } else { "f64" },
            if self.rev { "/axes-reversed-in-memory" } else { "" },
            self.ax.name,
            self.ay.as_ref().map(|a| format!("x{}", a.name)).unwrap_or_default()
        )
    }
}

/// ascending queries: outside below, per interval {knot, +1ulp, 1/4, 1/2, 3/4, next knot -1ulp}, last knot, outside above
fn queries<T: Fl>(x: &[T]) -> Vec<T> {
    let n = x.len();
    let p = x[n - 1] - x[0];
    let four = T::from_f64_lossy(4.0);
    let mut q = vec![x[0] - p, x[0] - p / four, x[0].down()];
    for i in 0..n - 1 {
        let h = x[i + 1] - x[i];
        q.push(x[i]);
        q.push(x[i].up());
        for k in 1..4 {
            q.push(x[i] + h * (T::from_f64_lossy(k as f64) / four));
        }
        q.push(x[i + 1].down());
    }
    q.push(x[n - 1]);
    q.extend([x[n - 1].up(), x[n - 1] + p / four, x[n - 1] + p * four]);
    // keep them ascending and inside their nominal place
    q.dedup_by(|a, b| a == b);
    q
}

fn poisons<T: Fl>() -> Vec<(T, &'static str)> {
    vec![
        (T::nan(), "NaN"),
        (T::infinity(), "+inf"),
        (T::neg_infinity(), "-inf"),
        (T::from_f64_lossy(7.5), "7.5"),
    ]
}

const CALLS: [(&str, bool); 2] = [("interp_array/static", false), ("interp_array/dyn", true)];

fn shape_for(q: usize, two_d: bool) -> Vec<usize> {
    if two_d && q % 2 == 0 {
        vec![q / 2, 2]
    } else {
        vec![q]
    }
}

fn run1d<T: Fl>(job: &Job, out: &mut JobOut) {
    let Some(xt) = vec_exact::<T>(&job.ax.x) else {
        return;
    };
    let n = xt.len();
    let key = job.key();
    let nl = 3;
    let gen = |i: usize, k: usize| -> f64 {
        match k {
            0 => [1.0, -0.5, 2.0, 0.25, -3.0, 1.5, 0.875][i % 7],
            1 => 0.1 * (i as f64 + 1.0) * if i % 2 == 0 { 1.0 } else { -1.7 },
            _ => 1048576.0 * [0.7, 0.3, 0.9, 0.1][i % 4],
        }
    };
    let data = Array2::from_shape_fn((n, nl), |(i, k)| T::from_f64_lossy(gen(i, k)));
    let qs = queries(&xt);
    let br: Vec<usize> = qs.iter().map(|&q| bracket_scan(&xt, q)).collect();
    let case = |extra: Vec<(&str, Json)>| {
        let mut v = vec![("type", Json::str(T::NAME)), ("x", Json::f64s(&job.ax.x))];
        v.extend(extra);
        Json::obj(v)
    };
    let Ok(Ok(base)) = catch(|| build_linear::<T, _>(Some(&xt), data.clone(), true)) else {
        out.violate(format!("{key}:build"), "build failed", case(vec![]));
        return;
    };
    out.states += 1;
    for (call, two_d) in CALLS {
        let sh = shape_for(qs.len(), two_d);
        let Ok(b) = call1d(&base, &qs, &sh, nl, call) else {
            out.violate(format!("{key}:{call}:base"), "base evaluation failed", case(vec![]));
            continue;
        };
        out.transitions += 1;
        // (1) poison one non-bracketing data row (all lanes), and all of them at once
        let mut variants: Vec<(String, Vec<usize>)> = (0..n).map(|r| (format!("row{r}"), vec![r])).collect();
        variants.push(("all-other-rows".into(), (0..n).collect()));
        for (vname, rows) in &variants {
            for (pv, pname) in poisons::<T>() {
                let all = rows.len() > 1;
                // for "all": one twin per bracket; otherwise one twin per row
                let brackets: Vec<Option<usize>> = if all { (0..n - 1).map(Some).collect() } else { vec![None] };
                for bsel in brackets {
                    let mut d = data.clone();
                    for &r in rows {
                        if let Some(bi) = bsel {
                            if r == bi || r == bi + 1 {
                                continue;
                            }
                        }
                        for k in 0..nl {
                            d[[r, k]] = pv;
                        }
                    }
                    let Ok(Ok(twin)) = catch(|| build_linear::<T, _>(Some(&xt), d, true)) else {
                        out.violate(format!("{key}:{vname}:{pname}:build"), "twin build failed", case(vec![]));
                        continue;
                    };
                    out.states += 1;
                    out.transitions += 1;
                    let t = match call1d(&twin, &qs, &sh, nl, call) {
                        Ok(t) => t,
                        Err(f) => {
                            out.violate(format!("{key}:{call}:{vname}:{pname}"), format!("twin evaluation failed: {}", f.text()), case(vec![]));
                            continue;
                        }
                    };
                    let mut reported = false;
                    for (qi, &q) in qs.iter().enumerate() {
                        let relevant = match bsel {
                            Some(bi) => br[qi] == bi,
                            None => !rows.contains(&br[qi]) && !rows.contains(&(br[qi] + 1)),
                        };
                        if !relevant {
                            // non-vacuity: where the bracket does touch the change the twin does differ
                            if (0..nl).any(|k| !same_bits(b[[qi, k]], t[[qi, k]])) {
                                out.count("results_changed_where_the_bracket_is_touched", 1);
                            }
                            continue;
                        }
                        for k in 0..nl {
                            out.evals += 1;
                            out.nontrivial += 1;
                            out.outcome(if same_bits(b[[qi, k]], t[[qi, k]]) { "bit-identical" } else { "changed" });
                            if !same_bits(b[[qi, k]], t[[qi, k]]) && !reported {
                                reported = true;
                                out.violate(
                                    format!("{key}:{call}:{vname}:{pname}"),
                                    format!(
                                        "Linear at q={:e} (bracket {}..{}) changed from {:e} to {:e} when {vname} (not bracketing) was set to {pname}",
                                        Fl::to_f64(q), br[qi], br[qi] + 1, Fl::to_f64(b[[qi, k]]), Fl::to_f64(t[[qi, k]])
                                    ),
                                    case(vec![("call", Json::str(call)), ("poisoned", Json::str(vname)), ("poison", Json::str(pname)), ("query", Json::Num(Fl::to_f64(q))), ("lane", Json::Int(k as i128)), ("queries_in_order", Json::Arr(qs.iter().map(|v| Json::Num(Fl::to_f64(*v))).collect()))]),
                                );
                            }
                        }
                    }
                }
            }
        }
        // (2) move one non-bracketing axis knot strictly between its neighbours
        for r in 0..n {
            let lo = if r > 0 { Some(xt[r - 1]) } else { None };
            let hi = if r + 1 < n { Some(xt[r + 1]) } else { None };
            let span = xt[n - 1] - xt[0];
            let mut cands: Vec<T> = vec![];
            let four = T::from_f64_lossy(4.0);
            match (lo, hi) {
                (Some(l), Some(h)) => {
                    cands.extend([l + (h - l) / four, l + (h - l) * T::from_f64_lossy(0.75), l.up(), h.down()]);
                }
                (None, Some(h)) => cands.extend([h.down(), xt[0] - span, xt[0] + (h - xt[0]) / four]),
                (Some(l), None) => cands.extend([l.up(), xt[n - 1] + span * four, l + (xt[n - 1] - l) / four]),
                _ => {}
            }
            for c in cands {
                if c == xt[r] || lo.map(|l| !(l < c)).unwrap_or(false) || hi.map(|h| !(c < h)).unwrap_or(false) {
                    continue;
                }
                let mut x2 = xt.clone();
                x2[r] = c;
                let Ok(Ok(twin)) = catch(|| build_linear::<T, _>(Some(&x2), data.clone(), true)) else {
                    out.violate(format!("{key}:move{r}:build"), "twin build failed", case(vec![]));
                    continue;
                };
                out.states += 1;
                out.transitions += 1;
                let Ok(t) = call1d(&twin, &qs, &sh, nl, call) else {
                    out.violate(format!("{key}:{call}:move{r}"), "twin evaluation failed", case(vec![]));
                    continue;
                };
                let mut reported = false;
                for (qi, &q) in qs.iter().enumerate() {
                    // relevant iff the bracket is unchanged and does not involve knot r
                    let b2 = bracket_scan(&x2, q);
                    if b2 != br[qi] || r == br[qi] || r == br[qi] + 1 {
                        continue;
                    }
                    for k in 0..nl {
                        out.evals += 1;
                        out.nontrivial += 1;
                        if !same_bits(b[[qi, k]], t[[qi, k]]) && !reported {
                            reported = true;
                            out.violate(
                                format!("{key}:{call}:move{r}"),
                                format!(
                                    "Linear at q={:e} (bracket {}..{}) changed from {:e} to {:e} when axis knot {r} moved from {:e} to {:e}",
                                    Fl::to_f64(q), br[qi], br[qi] + 1, Fl::to_f64(b[[qi, k]]), Fl::to_f64(t[[qi, k]]), Fl::to_f64(xt[r]), Fl::to_f64(c)
                                ),
                                case(vec![("call", Json::str(call)), ("moved_knot", Json::Int(r as i128)), ("to", Json::Num(Fl::to_f64(c))), ("query", Json::Num(Fl::to_f64(q)))]),
                            );
                        }
                    }
                }
            }
        }
    }
    if out.sample.is_none() {
        out.sample = Some(case(vec![("queries", Json::Int(qs.len() as i128)), ("poisons", Json::str("NaN,+inf,-inf,7.5 in every single non-bracketing row and in all of them; every non-bracketing knot moved to 3-4 places between its neighbours"))]));
    }
}

fn run2d<T: Fl>(job: &Job, out: &mut JobOut) {
    let ay = job.ay.as_ref().unwrap();
    let (Some(xt), Some(yt)) = (vec_exact::<T>(&job.ax.x), vec_exact::<T>(&ay.x)) else {
        return;
    };
    let (nx, ny) = (xt.len(), yt.len());
    let key = job.key();
    let nl = 2;
    let gen = |i: usize, j: usize, k: usize| -> f64 {
        if k == 0 {
            [1.0, -0.5, 2.0, 0.25, -3.0, 1.5, 0.875][(3 * i + 5 * j) % 7]
        } else {
            0.1 * (i as f64 + 1.3) * (j as f64 - 0.7)
        }
    };
    let data = Array3::from_shape_fn((nx, ny, nl), |(i, j, k)| T::from_f64_lossy(gen(i, j, k)));
    let (q1x, q1y) = (queries(&xt), queries(&yt));
    let mut qx = vec![];
    let mut qy = vec![];
    for &a in &q1x {
        for &b in &q1y {
            qx.push(a);
            qy.push(b);
        }
    }
    let bx: Vec<usize> = qx.iter().map(|&q| bracket_scan(&xt, q)).collect();
    let by: Vec<usize> = qy.iter().map(|&q| bracket_scan(&yt, q)).collect();
    let case = |extra: Vec<(&str, Json)>| {
        let mut v = vec![("type", Json::str(T::NAME)), ("x", Json::f64s(&job.ax.x)), ("y", Json::f64s(&ay.x))];
        v.extend(extra);
        Json::obj(v)
    };
    let Ok(Ok(base)) = catch(|| build_bilinear::<T, _>(Some(&xt), Some(&yt), data.clone(), true)) else {
        out.violate(format!("{key}:build"), "build failed", case(vec![]));
        return;
    };
    out.states += 1;
    for (call, two_d) in CALLS {
        let sh = shape_for(qx.len(), two_d);
        let Ok(b) = call2d(&base, &qx, &qy, &sh, nl, call) else {
            out.violate(format!("{key}:{call}:base"), "base evaluation failed", case(vec![]));
            continue;
        };
        out.transitions += 1;
        // poison variants: single node, whole x-row, whole y-column
        let mut variants: Vec<(String, Vec<(usize, usize)>)> = vec![];
        for i in 0..nx {
            for j in 0..ny {
                variants.push((format!("node({i},{j})"), vec![(i, j)]));
            }
        }
        for i in 0..nx {
            variants.push((format!("xrow{i}"), (0..ny).map(|j| (i, j)).collect()));
        }
        for j in 0..ny {
            variants.push((format!("ycol{j}"), (0..nx).map(|i| (i, j)).collect()));
        }
        for (vname, nodes) in &variants {
            for (pv, pname) in poisons::<T>() {
                let mut d = data.clone();
                for &(i, j) in nodes {
                    for k in 0..nl {
                        d[[i, j, k]] = pv;
                    }
                }
                let Ok(Ok(twin)) = catch(|| build_bilinear::<T, _>(Some(&xt), Some(&yt), d, true)) else {
                    out.violate(format!("{key}:{vname}:{pname}:build"), "twin build failed", case(vec![]));
                    continue;
                };
                out.states += 1;
                out.transitions += 1;
                let t = match call2d(&twin, &qx, &qy, &sh, nl, call) {
                    Ok(t) => t,
                    Err(f) => {
                        out.violate(format!("{key}:{call}:{vname}:{pname}"), format!("twin evaluation failed: {}", f.text()), case(vec![]));
                        continue;
                    }
                };
                let mut reported = false;
                for qi in 0..qx.len() {
                    let (ci, cj) = (bx[qi], by[qi]);
                    let touches = nodes.iter().any(|&(i, j)| (i == ci || i == ci + 1) && (j == cj || j == cj + 1));
                    if touches {
                        if (0..nl).any(|k| !same_bits(b[[qi, k]], t[[qi, k]])) {
                            out.count("results_changed_where_the_bracket_is_touched", 1);
                        }
                        continue;
                    }
                    for k in 0..nl {
                        out.evals += 1;
                        out.nontrivial += 1;
                        if !same_bits(b[[qi, k]], t[[qi, k]]) && !reported {
                            reported = true;
                            out.violate(
                                format!("{key}:{call}:{vname}:{pname}"),
                                format!(
                                    "Bilinear at ({:e},{:e}) (cell {ci},{cj}) changed from {:e} to {:e} when {vname} (not a corner of the cell) was set to {pname}",
                                    Fl::to_f64(qx[qi]), Fl::to_f64(qy[qi]), Fl::to_f64(b[[qi, k]]), Fl::to_f64(t[[qi, k]])
                                ),
                                case(vec![("call", Json::str(call)), ("poisoned", Json::str(vname)), ("poison", Json::str(pname)), ("qx", Json::Num(Fl::to_f64(qx[qi]))), ("qy", Json::Num(Fl::to_f64(qy[qi])))]),
                            );
                        }
                    }
                }
            }
        }
        // move a non-bracketing knot of x or of y
        for (which, ax_t, n_ax) in [("x", &xt, nx), ("y", &yt, ny)] {
            for r in 0..n_ax {
                let lo = if r > 0 { Some(ax_t[r - 1]) } else { None };
                let hi = if r + 1 < n_ax { Some(ax_t[r + 1]) } else { None };
                let span = ax_t[n_ax - 1] - ax_t[0];
                let four = T::from_f64_lossy(4.0);
                let cands: Vec<T> = match (lo, hi) {
                    (Some(l), Some(h)) => vec![l + (h - l) / four, l.up(), h.down()],
                    (None, Some(h)) => vec![h.down(), ax_t[0] - span],
                    (Some(l), None) => vec![l.up(), ax_t[n_ax - 1] + span * four],
                    _ => vec![],
                };
                for c in cands {
                    if c == ax_t[r] || lo.map(|l| !(l < c)).unwrap_or(false) || hi.map(|h| !(c < h)).unwrap_or(false) {
                        continue;
                    }
                    let mut a2 = ax_t.clone();
                    a2[r] = c;
                    let (x2, y2) = if which == "x" { (a2.clone(), yt.clone()) } else { (xt.clone(), a2.clone()) };
                    let Ok(Ok(twin)) = catch(|| build_bilinear::<T, _>(Some(&x2), Some(&y2), data.clone(), true)) else {
                        out.violate(format!("{key}:move{which}{r}:build"), "twin build failed", case(vec![]));
                        continue;
                    };
                    out.states += 1;
                    out.transitions += 1;
                    let Ok(t) = call2d(&twin, &qx, &qy, &sh, nl, call) else {
                        out.violate(format!("{key}:{call}:move{which}{r}"), "twin evaluation failed", case(vec![]));
                        continue;
                    };
                    let mut reported = false;
                    for qi in 0..qx.len() {
                        let (q, bq) = if which == "x" { (qx[qi], bx[qi]) } else { (qy[qi], by[qi]) };
                        let b2 = bracket_scan(&a2, q);
                        if b2 != bq || r == bq || r == bq + 1 {
                            continue;
                        }
                        for k in 0..nl {
                            out.evals += 1;
                            out.nontrivial += 1;
                            if !same_bits(b[[qi, k]], t[[qi, k]]) && !reported {
                                reported = true;
                                out.violate(
                                    format!("{key}:{call}:move{which}{r}"),
                                    format!(
                                        "Bilinear at ({:e},{:e}) changed from {:e} to {:e} when {which} knot {r} (not bracketing) moved to {:e}",
                                        Fl::to_f64(qx[qi]), Fl::to_f64(qy[qi]), Fl::to_f64(b[[qi, k]]), Fl::to_f64(t[[qi, k]]), Fl::to_f64(c)
                                    ),
                                    case(vec![("call", Json::str(call)), ("moved", Json::str(&format!("{which}{r}"))), ("to", Json::Num(Fl::to_f64(c)))]),
                                );
                            }
                        }
                    }
                }
            }
        }
    }
    if out.sample.is_none() {
        out.sample = Some(case(vec![("query_pairs", Json::Int(qx.len() as i128))]));
    }
}

/// 64-bit integer axes whose knots lie beyond 2^53 (neighbouring knots are not distinct as f64):
/// for every interval (cell) a twin whose data is poisoned everywhere except at the bracketing rows
/// (corner nodes); every integer query of that interval must give the same answer on both.
fn run_int(base: i64, steps: &[i64], out: &mut JobOut) {
    use ndarray::{Array1, Array2};
    use ndarray_interp::interp1d::{Interp1DBuilder, Linear};
    use ndarray_interp::interp2d::{Bilinear, Interp2DBuilder};
    let mut x = vec![base];
    for h in steps {
        x.push(x[x.len() - 1] + h);
    }
    let n = x.len();
    let key = format!("i64:base{base}:steps{steps:?}").replace(' ', "");
    let val = |i: usize| -> i64 { [5i64, -3, 8, 0, 12, -7, 4][i % 7] * 6 };
    let poison = [i64::MAX / 8, -(i64::MAX / 8)];
    let xa = Array1::from(x.clone());
    let y0 = Array1::from((0..n).map(val).collect::<Vec<_>>());
    let Ok(Ok(base_ip)) = catch(|| Interp1DBuilder::new(y0.clone()).x(xa.clone()).strategy(Linear::new()).build()) else {
        out.violate(format!("{key}:build"), "valid i64 axis not accepted", Json::Null);
        return;
    };
    out.states += 1;
    for i in 0..n - 1 {
        for (pk, &p) in poison.iter().enumerate() {
            let yt = Array1::from((0..n).map(|r| if r == i || r == i + 1 { val(r) } else { p }).collect::<Vec<_>>());
            let Ok(Ok(twin)) = catch(|| Interp1DBuilder::new(yt.clone()).x(xa.clone()).strategy(Linear::new()).build()) else { continue };
            for q in x[i]..x[i + 1] {
                let (a, b) = (catch(|| base_ip.interp_scalar(q)), catch(|| twin.interp_scalar(q)));
                out.evals += 1;
                out.nontrivial += 1;
                out.transitions += 2;
                let same = matches!((&a, &b), (Ok(Ok(u)), Ok(Ok(v))) if u == v);
                if !same {
                    out.violate(
                        format!("{key}:linear:interval{i}:poison{pk}"),
                        format!("Linear<i64> over x = {base} + {:?}: q = {q} (bracket {i},{}) gives {a:?}, but {b:?} when every other data row is set to {p}", x.iter().map(|v| v - base).collect::<Vec<_>>(), i + 1),
                        Json::Null,
                    );
                    break;
                }
            }
        }
    }
    // Bilinear: the same axis against a short y axis, and transposed
    let yk = vec![base - 7, base - 6, base - 4];
    let ya = Array1::from(yk.clone());
    for transposed in [false, true] {
        let (gx, gy) = if transposed { (&yk, &x) } else { (&x, &yk) };
        let (gxa, gya) = if transposed { (ya.clone(), xa.clone()) } else { (xa.clone(), ya.clone()) };
        let z0 = Array2::from_shape_fn((gx.len(), gy.len()), |(i, j)| val(i * 3 + j));
        let Ok(Ok(base_ip)) = catch(|| Interp2DBuilder::new(z0.clone()).x(gxa.clone()).y(gya.clone()).strategy(Bilinear::new()).build()) else {
            out.violate(format!("{key}:build2d"), "valid i64 grid not accepted", Json::Null);
            return;
        };
        out.states += 1;
        for i in 0..gx.len() - 1 {
            for j in 0..gy.len() - 1 {
                let p = poison[(i + j) % 2];
                let zt = Array2::from_shape_fn((gx.len(), gy.len()), |(r, c)| if (r == i || r == i + 1) && (c == j || c == j + 1) { val(r * 3 + c) } else { p });
                let Ok(Ok(twin)) = catch(|| Interp2DBuilder::new(zt.clone()).x(gxa.clone()).y(gya.clone()).strategy(Bilinear::new()).build()) else { continue };
                'cell: for qx in gx[i]..gx[i + 1] {
                    for qy in gy[j]..gy[j + 1] {
                        let (a, b) = (catch(|| base_ip.interp_scalar(qx, qy)), catch(|| twin.interp_scalar(qx, qy)));
                        out.evals += 1;
                        out.nontrivial += 1;
                        out.transitions += 2;
                        if !matches!((&a, &b), (Ok(Ok(u)), Ok(Ok(v))) if u == v) {
                            out.violate(
                                format!("{key}:bilinear{}:cell{i},{j}", if transposed { "T" } else { "" }),
                                format!("Bilinear<i64> (axes based at {base}): query ({}, {}) + base in cell ({i},{j}) gives {a:?}, but {b:?} when every node outside the cell is set to {p}", qx - base, qy - base),
                                Json::Null,
                            );
                            break 'cell;
                        }
                    }
                }
            }
        }
    }
    if out.sample.is_none() {
        out.sample = Some(Json::str(&key));
    }
}

/// A very long f64 axis (70000 / 140000 knots) whose knots are far denser than single precision can
/// resolve (16 knots per f32 value), unevenly spaced: for sampled intervals a twin poisoned outside
/// the bracket must give the same bits for queries at the knot, next to it and inside the interval.
fn run_long_dense(n: usize, out: &mut JobOut) {
    run_long(n, 0, out)
}

/// `graded`: x_i = i^2 (the position computed from the end points is off by up to a quarter of the
/// axis, so the lookup has to search a very wide range)
fn run_long(n: usize, kind: u8, out: &mut JobOut) {
    // kind 1: x_i = i^2; kind 2: unit spacing with six intervals of width 10^6 at the right end and at
    // the left end (the position computed from the end points is off by a third of the axis)
    let graded = kind != 0;
    use ndarray::Array1;
    use ndarray_interp::interp1d::{Interp1DBuilder, Linear};
    // 2^-17 apart around 1024 (f32 resolution there: 2^-13), every 7th knot shifted by 2^-19, every
    // 1000th interval 40 times longer
    let mut x: Vec<f64> = Vec::with_capacity(n);
    let mut v = 1024.0f64;
    for i in 0..n {
        if kind == 1 {
            x.push((i as f64) * (i as f64));
            continue;
        }
        if kind == 2 {
            let left = 1e6 * (i.min(6) as f64);
            let right = if i + 7 > n { 1e6 * (i + 7 - n) as f64 } else { 0.0 };
            x.push(i as f64 + left + right);
            continue;
        }
        x.push(if i % 7 == 3 { v + 2.0f64.powi(-19) } else { v });
        v += if i % 1000 == 999 { 40.0 * 2.0f64.powi(-17) } else { 2.0f64.powi(-17) };
    }
    assert!(x.windows(2).all(|w| w[0] < w[1]));
    let val = |i: usize| -> f64 { [5.0, -3.0, 8.0, 0.5, 12.0, -7.0, 4.0][i % 7] + (i % 13) as f64 * 0.25 };
    let xa = Array1::from(x.clone());
    let y0: Array1<f64> = (0..n).map(val).collect();
    let key = format!("long-{}:n{n}", ["dense", "graded", "tails"][kind as usize]);
    let Ok(Ok(base)) = catch(|| Interp1DBuilder::new(y0.view()).x(xa.view()).strategy(Linear::new()).build()) else {
        out.violate(format!("{key}:build"), "valid long axis not accepted", Json::Null);
        return;
    };
    out.states += 1;
    // sampled brackets: the first and last 40, around every 1000th (long) interval, and a stride through the axis
    let mut brackets: Vec<usize> = (0..40).chain(n - 41..n - 1).collect();
    if graded {
        brackets.extend(n - 1100..n - 1);
        brackets.extend(0..1100);
        brackets.extend((n / 2 - 300..n / 2 + 300).step_by(7));
    }
    for k in (999..n - 1).step_by(1000).take(30) {
        brackets.extend([k - 1, k, k + 1]);
    }
    brackets.extend((0..n - 1).step_by(n / 257));
    brackets.sort();
    brackets.dedup();
    let mut yt = y0.clone();
    for &i in &brackets {
        // poison everything outside the bracket within a window (the rest far away stays: cheaper, and a
        // lookup that is off by more than the window still reads a wrong row with a different value)
        let (lo, hi) = (i.saturating_sub(64), (i + 66).min(n));
        for r in lo..hi {
            if r != i && r != i + 1 {
                yt[r] = f64::NAN;
            }
        }
        let twin = Interp1DBuilder::new(yt.view()).x(xa.view()).strategy(Linear::new()).build().expect("valid");
        let h = x[i + 1] - x[i];
        for q in [x[i], x[i].next_up(), x[i] + 0.25 * h, x[i] + 0.5 * h, x[i + 1].next_down()] {
            let (a, b) = (catch(|| base.interp_scalar(q)), catch(|| twin.interp_scalar(q)));
            out.evals += 1;
            out.nontrivial += 1;
            out.transitions += 2;
            let same = matches!((&a, &b), (Ok(Ok(u)), Ok(Ok(v))) if u.to_bits() == v.to_bits());
            if !same {
                out.violate(format!("{key}:bracket{i}"), format!("Linear over a dense axis of {n} f64 knots: q = {q:e} (bracket {i}) gives {a:?}, but {b:?} when the 128 rows around the bracket are set to NaN"), Json::Int(i as i128));
                break;
            }
        }
        for r in lo..hi {
            yt[r] = y0[r];
        }
    }
    out.sample = Some(Json::str(&key));
}

/// Values that collide with `a` under simple folds of the bit pattern (what a hashed memo of
/// coordinates would key on) and lie next to one of the `targets`: the high half of the pattern is
/// the target's, the low half is chosen so that xor / sum of the halves, or the low half alone, equal
/// those of `a`. 64-bit patterns are folded to 32 bits, 32-bit patterns (f32) to 16.
fn fold_companions(a: f64, targets: &[f64], f32_type: bool) -> Vec<(&'static str, f64)> {
    let mut v = vec![];
    for &t in targets {
        if f32_type {
            let (ab, tb) = ((a as f32).to_bits(), (t as f32).to_bits());
            let (ha, la, ht) = (ab >> 16, ab & 0xffff, tb >> 16);
            for (name, lo) in [("xor16", (ha ^ la ^ ht) & 0xffff), ("add16", ha.wrapping_add(la).wrapping_sub(ht) & 0xffff), ("low16", la)] {
                v.push((name, f32::from_bits((ht << 16) | lo) as f64));
            }
        } else {
            let (ab, tb) = (a.to_bits(), t.to_bits());
            let (ha, la, ht) = ((ab >> 32) as u32, ab as u32, (tb >> 32) as u32);
            for (name, lo) in [("xor32", ha ^ la ^ ht), ("add32", ha.wrapping_add(la).wrapping_sub(ht)), ("low32", la)] {
                v.push((name, f64::from_bits(((ht as u64) << 32) | lo as u64)));
            }
        }
    }
    v
}

/// Histories of two queries A, B on one interpolator where B collides with A under a fold of the
/// bit pattern and lies in another interval: B's answer must be bit-identical on the twin whose
/// rows outside B's bracket are NaN (the twin sees the same history), for Linear and for Bilinear
/// with the axis used as x and as y, single calls and a two-element batch.
fn run_collisions<T: Fl>(out: &mut JobOut) {
    let f32_type = T::NAME == "f32";
    let x64 = [0.0, 0.75, 1.25, 2.5, 3.5, 5.0, 9.0];
    let other64 = [-1.0, 0.5, 2.0];
    let (Some(xt), Some(ot)) = (vec_exact::<T>(&x64), vec_exact::<T>(&other64)) else { return };
    let n = xt.len();
    let anchors = [1.0, 2.0, 3.0, 0.5, 4.0, 0.3, 7.1, 1.7];
    let targets: Vec<f64> = x64.windows(2).flat_map(|w| [w[0] + 0.25 * (w[1] - w[0]), w[0] + 0.5 * (w[1] - w[0]), w[0] + 0.8125 * (w[1] - w[0])]).collect();
    let d1 = Array2::from_shape_fn((n, 2), |(i, k)| T::from_f64_lossy([1.0, -0.5, 2.0, 0.25, -3.0, 1.5, 0.875][i] * (1 + k) as f64));
    let dx = ndarray::Array3::from_shape_fn((n, 3, 2), |(i, j, k)| T::from_f64_lossy([1.0, -0.5, 2.0, 0.25, -3.0, 1.5, 0.875][i] * (1 + k) as f64 + 0.3 * j as f64));
    let dy = ndarray::Array3::from_shape_fn((3, n, 2), |(j, i, k)| dx[[i, j, k]]);
    let oq = T::from_f64_lossy(0.25);
    for &a64 in &anchors {
        let a = T::from_f64_lossy(a64);
        let ia = bracket_scan(&xt, a);
        for (fold, b64) in fold_companions(Fl::to_f64(a), &targets, f32_type) {
            let Some(b) = T::from_f64_exact(b64) else { continue };
            if !(b > xt[0] && b < xt[n - 1]) {
                continue;
            }
            let ib = bracket_scan(&xt, b);
            if ib == ia {
                continue;
            }
            out.states += 1;
            let keep = |i: usize| i == ib || i == ib + 1;
            // every (kind, call): answers for B after A on the base data and on the twin
            for kind in ["Linear", "Bilinear/x", "Bilinear/y"] {
                for call in ["single", "batch"] {
                    let ask = |poisoned: bool| -> Result<Vec<T>, String> {
                        catch(|| -> Result<Vec<T>, String> {
                            match kind {
                                "Linear" => {
                                    let mut d = d1.clone();
                                    if poisoned {
                                        for i in (0..n).filter(|&i| !keep(i)) {
                                            d.index_axis_mut(ndarray::Axis(0), i).fill(T::nan());
                                        }
                                    }
                                    let ip = build_linear::<T, _>(Some(&xt), d, true).map_err(|e| e.to_string())?;
                                    if call == "single" {
                                        let _ = ip.interp(a).map_err(|e| e.to_string())?;
                                        Ok(ip.interp(b).map_err(|e| e.to_string())?.iter().cloned().collect())
                                    } else {
                                        Ok(ip.interp_array(&ndarray::Array1::from(vec![a, b])).map_err(|e| e.to_string())?.index_axis(ndarray::Axis(0), 1).iter().cloned().collect())
                                    }
                                }
                                _ => {
                                    let as_x = kind == "Bilinear/x";
                                    let mut d = if as_x { dx.clone() } else { dy.clone() };
                                    if poisoned {
                                        for i in (0..n).filter(|&i| !keep(i)) {
                                            d.index_axis_mut(ndarray::Axis(if as_x { 0 } else { 1 }), i).fill(T::nan());
                                        }
                                    }
                                    let ip = if as_x { build_bilinear::<T, _>(Some(&xt), Some(&ot), d, true) } else { build_bilinear::<T, _>(Some(&ot), Some(&xt), d, true) }.map_err(|e| e.to_string())?;
                                    let pt = |v: T| if as_x { (v, oq) } else { (oq, v) };
                                    if call == "single" {
                                        let _ = ip.interp(pt(a).0, pt(a).1).map_err(|e| e.to_string())?;
                                        Ok(ip.interp(pt(b).0, pt(b).1).map_err(|e| e.to_string())?.iter().cloned().collect())
                                    } else {
                                        let (qx, qy) = (ndarray::Array1::from(vec![pt(a).0, pt(b).0]), ndarray::Array1::from(vec![pt(a).1, pt(b).1]));
                                        Ok(ip.interp_array(&qx, &qy).map_err(|e| e.to_string())?.index_axis(ndarray::Axis(0), 1).iter().cloned().collect())
                                    }
                                }
                            }
                        })
                        .and_then(|r| r)
                    };
                    let (base, twin) = (ask(false), ask(true));
                    out.evals += 1;
                    out.nontrivial += 1;
                    out.transitions += 2;
                    let same = match (&base, &twin) {
                        (Ok(p), Ok(q)) => p.len() == q.len() && p.iter().zip(q).all(|(u, v)| same_bits(*u, *v)),
                        _ => false,
                    };
                    out.outcome(if same { "collision:bit-identical" } else { "collision:changed" });
                    if !same {
                        let show = |r: &Result<Vec<T>, String>| match r {
                            Ok(v) => format!("{:?}", v.iter().map(|t| Fl::to_f64(*t)).collect::<Vec<_>>()),
                            Err(e) => format!("Err({e})"),
                        };
                        out.violate(
                            format!("{}:collisions:{kind}:{call}:{fold}", T::NAME),
                            format!("{kind} ({call}): after a query at {:e}, the query at {:e} (bracket {ib}..{}, its bit pattern collides with the first under {fold}) gives {}, but {} when every row outside its bracket is NaN", Fl::to_f64(a), b64, ib + 1, show(&base), show(&twin)),
                            Json::obj(vec![("type", Json::str(T::NAME)), ("x", Json::f64s(&x64)), ("first_query", Json::Num(Fl::to_f64(a))), ("second_query", Json::Num(b64)), ("fold", Json::str(fold))]),
                        );
                        return;
                    }
                }
            }
        }
    }
    out.sample = Some(Json::obj(vec![("type", Json::str(T::NAME)), ("x", Json::f64s(&x64))]));
}

fn body(ctx: &Ctx) -> (Summary, Meta) {
    let quick = ctx.quick();
    let mut jobs = vec![];
    for f32 in [false, true] {
        let e = if f32 { f32::EPSILON as f64 } else { f64::EPSILON };
        let vs = vec![-1048576.0, -7.0, -1.0, 0.0, 2.0f64.powi(-10), 1.0, 1.0 + e, 1.0 + 2.0 * e, 1.5, 7.0];
        let mut axes = alpha::subsets_axes(&vs, "v", 3, if quick { 4 } else { 6 });
        axes.extend(alpha::full_word_axes(&alpha::h3(), "w", 3, if quick { 5 } else { 7 }, &[0.0, -3.0]));
        axes.extend(alpha::long_word_axes(&alpha::h4(), "L", &[9, 17], 1, &[1.25]));
        if !f32 {
            // long axes with convex and concave regions (search strategies that only differ on long axes)
            axes.push(Axis::new("log80".into(), (1..=80).map(|i| (i as f64).ln()).collect()));
            axes.push(Axis::new("wave120".into(), (0..120).map(|i| i as f64 + 2.5 * (i as f64 * 0.35).sin()).collect()));
            axes.push(Axis::new("sqrt60".into(), (0..60).map(|i| (16.0 * i as f64).sqrt()).collect()));
        }
        for a in axes {
            for rev in [false, true] {
                jobs.push(Job { ax: a.clone(), ay: None, f32, rev });
            }
        }
        let mut a2 = alpha::full_word_axes(&alpha::h3(), "w", 2, if quick { 3 } else { 4 }, &[0.0]);
        a2.push(alpha::axis_from_word("w", -3.0, &[0.5, 2.0, 1.0, 1.0]));
        a2.push(Axis::new("v[-2^20,0,2]".into(), vec![-1048576.0, 0.0, 2.0]));
        a2.push(Axis::new("v[1,1+e,1+2e,7]".into(), vec![1.0, 1.0 + e, 1.0 + 2.0 * e, 7.0]));
        for ax in &a2 {
            for ay in &a2 {
                if ax.n() + ay.n() <= 4 {
                    continue; // 2x2 grid: every node is a corner
                }
                for rev in [false, true] {
                    jobs.push(Job { ax: ax.clone(), ay: Some(ay.clone()), f32, rev });
                }
            }
        }
    }
    let njobs = jobs.len();
    let mut int_jobs: Vec<(i64, Vec<i64>)> = vec![];
    for base in [0i64, 1 << 53, (1 << 60) + 1, -(1 << 62)] {
        for n in [4usize, 9, 33] {
            int_jobs.push((base, vec![1; n - 1]));
            int_jobs.push((base, (0..n - 1).map(|i| [1i64, 3, 2, 1, 5][i % 5]).collect()));
            int_jobs.push((base, (0..n - 1).map(|i| if i == n / 2 { 40 } else { 1 }).collect()));
        }
    }
    let mut sum = run_jobs(ctx, "bracket-only", &jobs, |j| j.key(), |j| {
        let mut out = JobOut::default();
        nimc::subj::set_axis_reversed_in_memory(j.rev);
        match (j.ay.is_some(), j.f32) {
            (false, false) => run1d::<f64>(j, &mut out),
            (false, true) => run1d::<f32>(j, &mut out),
            (true, false) => run2d::<f64>(j, &mut out),
            (true, true) => run2d::<f32>(j, &mut out),
        }
        nimc::subj::set_axis_reversed_in_memory(false);
        out
    });
    sum.merge(run_jobs(ctx, "i64-axes-beyond-2^53", &int_jobs, |j| format!("i64:base{}:steps{:?}", j.0, j.1).replace(' ', ""), |j| {
        let mut out = JobOut::default();
        run_int(j.0, &j.1, &mut out);
        out
    }));
    sum.merge(run_jobs(ctx, "long-dense-axes", &[(70_000usize, 0u8), (140_000, 0), (140_000, 1), (600_000, 1), (400_000, 2)], |j| format!("long-{}:n{}", ["dense", "graded", "tails"][j.1 as usize], j.0), |j| {
        let mut out = JobOut::default();
        if j.1 == 0 {
            run_long_dense(j.0, &mut out);
        } else {
            run_long(j.0, j.1, &mut out);
        }
        out
    }));
    sum.merge(run_jobs(ctx, "colliding-coordinates", &[false, true], |f| format!("{}:collisions", if *f { "f32" } else { "f64" }), |f| {
        let mut out = JobOut::default();
        if *f {
            run_collisions::<f32>(&mut out);
        } else {
            run_collisions::<f64>(&mut out);
        }
        out
    }));
    let meta = Meta {
        rule: "for every axis / grid: a base interpolator and twins that differ only outside the bracket: every single non-bracketing data row (2-D: node, x-row, y-column) set to NaN, +inf, -inf, 7.5, all non-bracketing rows at once, and every non-bracketing axis knot moved to 2-4 places strictly between its neighbours (incl. 1 ulp from them, end knots far out). The whole ascending query list (3 outside below, per interval knot/+1ulp/quarters/-1ulp, last knot, 3 outside above) is evaluated in one call on base and twin and compared bit for bit wherever the bracket (C11 convention x[i] <= q < x[i+1]) does not touch the change. Every such comparison is non-trivial. Phase long-dense-axes: f64 axes of 70000 / 140000 unevenly spaced knots 2^-17 apart near 1024 (16 knots per f32 value), about 450 sampled brackets each with the 128 surrounding rows poisoned; the same on axes x_i = i^2 of 140000 / 600000 knots and on a unit-spaced axis of 400000 knots with six intervals of width 10^6 at either end, incl. the first and last 1100 brackets. Phase i64-axes-beyond-2^53: i64 axes with 4 / 9 / 33 knots (unit steps, mixed steps, one wide interval) based at 0, 2^53, 2^60+1, -2^62: per interval (cell) a twin poisoned everywhere outside the bracket, every integer query of the interval, Linear and Bilinear (both orientations). Phase colliding-coordinates: two-query histories A, B on one interpolator where B lies in another interval and its bit pattern collides with A's under xor / sum of the halves or equal low halves (f64: 32-bit halves, f32: 16-bit), 8 anchors x 18 targets x 3 folds, Linear and Bilinear (axis as x and as y), single calls and a 2-element batch; B's answer must be bit-identical on the twin whose rows outside B's bracket are NaN.".into(),
        bounds: format!("{njobs} (type, axis/grid) jobs; tier {}", ctx.tier.name()),
        assumptions: vec!["the bracket of a query exactly at an interior knot x[i] is (i, i+1), as C11 specifies".into()],
        extra: vec![],
    };
    (sum, meta)
}

fn main() {
    main_with("C20", body)
}
