//! C09 - all query entry points agree and results have shape query ++ trailing data dims.
use ndarray::{Array1, Array2, Array3, ArrayD, Axis, Ix0, Ix1, Ix2, Ix3, Ix4, Ix5, Ix6, IxDyn};
use ndarray_interp::interp1d::cubic_spline::CubicSpline;
use ndarray_interp::interp1d::{Interp1DBuilder, Linear};
use ndarray_interp::interp2d::{Bilinear, Interp2DBuilder};
use ndarray_interp::InterpolateError;
use nimc::{catch, main_with, run_jobs, Ctx, JobOut, Json, Meta, Summary};

const POISON: f64 = -777.25;

type R = Result<Result<ArrayD<f64>, InterpolateError>, String>;

#[derive(Clone, Debug)]
struct Case {
    two_d: bool,
    d: &'static str,
    dq: &'static str,
    data_shape: Vec<usize>,
    query_shape: Vec<usize>,
    /// replace one query element by an out-of-range value (None = all in range)
    bad_at: Option<usize>,
}
impl Case {
    fn key(&self) -> String {
        format!(
            "{}:{}x{}:data{:?}:query{:?}:{}",
            if self.two_d { "Interp2D" } else { "Interp1D" },
            self.d,
            self.dq,
            self.data_shape,
            self.query_shape,
            self.bad_at.map(|p| format!("bad@{p}")).unwrap_or("inrange".into())
        )
        .replace(' ', "")
    }
}

fn bits(a: &ArrayD<f64>) -> Vec<u64> {
    a.iter().map(|v| if v.is_nan() { u64::MAX } else { v.to_bits() }).collect()
}

fn cls(r: &R) -> &'static str {
    match r {
        Ok(Ok(_)) => "Ok",
        Ok(Err(_)) => "Err(OutOfBounds)",
        Err(_) => "panic",
    }
}

/// compare the four call forms of one (interpolator, query) pair
#[allow(clippy::too_many_arguments)]
fn judge(c: &Case, strat: &str, k: usize, arr: R, singles: Vec<R>, into: (R, bool), scalar: Option<Vec<Result<Result<f64, InterpolateError>, String>>>, out: &mut JobOut) {
    let key = format!("{}:{strat}", c.key());
    let case = || {
        Json::obj(vec![
            ("interpolator", Json::str(if c.two_d { "Interp2D" } else { "Interp1D" })),
            ("strategy", Json::str(strat)),
            ("data_dim", Json::str(c.d)),
            ("query_dim", Json::str(c.dq)),
            ("data_shape", Json::usizes(&c.data_shape)),
            ("query_shape", Json::usizes(&c.query_shape)),
            ("out_of_range_element", match c.bad_at { Some(p) => Json::Int(p as i128), None => Json::Null }),
        ])
    };
    let mut expected_shape = c.query_shape.clone();
    expected_shape.extend_from_slice(&c.data_shape[k..]);
    let lane: usize = c.data_shape[k..].iter().product();
    out.evals += 1;
    out.transitions += 2 + singles.len() as u64;
    out.nontrivial += 1;
    out.outcome(format!("interp_array:{}", cls(&arr)));
    // the batch is answered iff every element is answered
    let any_err = singles.iter().any(|s| matches!(s, Ok(Err(_))));
    let any_panic = singles.iter().any(|s| s.is_err());
    match &arr {
        Err(p) => out.violate(format!("{key}:array-panic"), format!("interp_array panicked: {p}"), case()),
        Ok(Err(_)) => {
            if !any_err {
                out.violate(format!("{key}:array-err"), "interp_array returned Err although interp answers every element".to_string(), case());
            }
        }
        Ok(Ok(a)) => {
            if any_err || any_panic {
                out.violate(format!("{key}:array-ok"), "interp_array returned Ok although interp rejects an element".to_string(), case());
            }
            if a.shape() != expected_shape.as_slice() {
                out.violate(format!("{key}:shape"), format!("interp_array returned shape {:?}, expected query ++ trailing = {:?}", a.shape(), expected_shape), case());
            } else if !any_err && !any_panic {
                let ab = bits(a);
                for (i, s) in singles.iter().enumerate() {
                    let Ok(Ok(sv)) = s else { continue };
                    let want_shape = &c.data_shape[k..];
                    if sv.shape() != want_shape {
                        out.violate(format!("{key}:single-shape"), format!("interp returned shape {:?}, expected {:?}", sv.shape(), want_shape), case());
                        break;
                    }
                    if bits(sv) != ab[i * lane..(i + 1) * lane] {
                        out.violate(
                            format!("{key}:elem"),
                            format!("interp_array(q)[{i}] differs from interp(q[{i}]): {:?} vs {:?}", &a.iter().skip(i * lane).take(lane.min(4)).collect::<Vec<_>>(), sv.iter().take(4).collect::<Vec<_>>()),
                            case(),
                        );
                        break;
                    }
                }
            }
        }
    }
    // *_into writes exactly what the allocating variant returns
    let (into_r, intact) = into;
    out.outcome(format!("interp_array_into:{}", cls(&into_r)));
    match (&arr, &into_r) {
        (Ok(Ok(a)), Ok(Ok(b))) => {
            if a.shape() != b.shape() || bits(a) != bits(b) {
                let left = b.iter().filter(|v| v.to_bits() == POISON.to_bits()).count();
                out.violate(format!("{key}:into"), format!("interp_array_into wrote something else than interp_array returns ({left} elements left untouched)"), case());
            }
        }
        (Ok(Err(_)), Ok(Err(_))) => {}
        (a, b) => {
            if cls(a) != cls(b) {
                out.violate(format!("{key}:into-outcome"), format!("interp_array returned {} but interp_array_into {}", cls(a), cls(b)), case());
            }
        }
    }
    if !intact {
        out.violate(format!("{key}:into-outside"), "interp_array_into wrote outside its buffer".to_string(), case());
    }
    if let Some(sc) = scalar {
        for (i, s) in sc.iter().enumerate() {
            let ok = match (s, &singles[i]) {
                (Ok(Ok(v)), Ok(Ok(a))) => a.len() == 1 && bits(a)[0] == if v.is_nan() { u64::MAX } else { v.to_bits() },
                (Ok(Err(_)), Ok(Err(_))) => true,
                (Err(_), Err(_)) => true,
                _ => false,
            };
            if !ok {
                out.violate(format!("{key}:scalar"), format!("interp_scalar(q[{i}]) = {s:?} but interp(q[{i}]) = {:?}", singles[i].as_ref().map(|r| r.as_ref().map(|a| a.iter().next().cloned()))), case());
                break;
            }
        }
    }
}

fn data_nd(shape: &[usize]) -> ArrayD<f64> {
    let mut c = 0.0f64;
    let mut d = ArrayD::from_shape_fn(IxDyn(shape), |_| {
        c += 1.0;
        (c * 0.37).sin() * 3.0 + c * 0.1
    });
    // the samples at the first knot are -0.0: queries 0.0 and -0.0 then differ in the sign of zero
    if !shape.is_empty() && shape[0] > 0 {
        d.index_axis_mut(Axis(0), 0).fill(-0.0);
    }
    d
}

/// queries that hit knots exactly right after a query in the interval left of the knot, repeat
/// values and are not sorted (the default axes have their knots at 0, 1, 2, ...)
fn query_nd(shape: &[usize], lo: f64, hi: f64, salt: f64, bad_at: Option<usize>, bad: f64) -> ArrayD<f64> {
    const PAT: [f64; 14] = [0.75, 1.0, 2.5, 2.0, 1.5, 2.0, 0.0, -0.0, 3.0, 0.25, 1.0, 1.0, 2.9999999999999996, 0.0];
    let mut i = 0usize;
    let s = salt as usize;
    let total: usize = shape.iter().product();
    ArrayD::from_shape_fn(IxDyn(shape), |_| {
        // the first element is a knot and the last one lies in the interval left of that knot: a
        // second call with the same query starts from whatever the first call left behind
        let p = if i == 0 { 2.0 } else if i + 1 == total { 1.5 } else { PAT[(i + s) % PAT.len()] };
        let v = if Some(i) == bad_at { bad } else { p.clamp(lo, hi) };
        i += 1;
        v
    })
}

/// the query in three memory layouts (same logical contents): C, F, reversed along axis 0
fn query_layouts(q: ArrayD<f64>) -> Vec<(&'static str, ArrayD<f64>)> {
    use ndarray::ShapeBuilder;
    let mut v = vec![("C", q.clone())];
    if q.ndim() >= 1 {
        let mut f = ArrayD::zeros(IxDyn(q.shape()).f());
        f.assign(&q);
        v.push(("F", f));
        let mut r = q.clone();
        r.invert_axis(Axis(0));
        let mut r = r.as_standard_layout().to_owned();
        r.invert_axis(Axis(0));
        assert!(r == q);
        v.push(("rev0", r));
    }
    v
}

/// buffer (a window into a poisoned array) -> (result, outside intact)
macro_rules! into_call {
    ($shape:expr, |$w:ident| $call:expr) => {{
        let shape: &Vec<usize> = $shape;
        // a margin of poison around the first three axes (more would explode for high ranks)
        let m = |ax: usize| if ax < 3 { 1usize } else { 0 };
        let bs: Vec<usize> = shape.iter().enumerate().map(|(ax, s)| s + 2 * m(ax)).collect();
        let mut big = ArrayD::from_elem(IxDyn(&bs), POISON);
        let r = {
            let mut win = big.view_mut();
            for (ax, &s) in shape.iter().enumerate() {
                win.slice_axis_inplace(Axis(ax), ndarray::Slice::from(m(ax)..m(ax) + s));
            }
            match win.into_dimensionality() {
                Ok($w) => catch(|| $call),
                Err(e) => Err(format!("machinery: buffer rank: {e}")),
            }
        };
        let mut inside = big.view();
        for (ax, &s) in shape.iter().enumerate() {
            inside.slice_axis_inplace(Axis(ax), ndarray::Slice::from(m(ax)..m(ax) + s));
        }
        let logical = inside.to_owned();
        let total_poison = big.iter().filter(|v| v.to_bits() == POISON.to_bits()).count();
        let inside_poison = logical.iter().filter(|v| v.to_bits() == POISON.to_bits()).count();
        let intact = total_poison - inside_poison == big.len() - logical.len();
        (r.map(|r| r.map(|_| logical)), intact)
    }};
}

macro_rules! inst_1d {
    ($name:ident, $d:ty, $dq:ty) => {
        pub fn $name(c: &Case, out: &mut JobOut) {
            let n = c.data_shape[0];
            let data = data_nd(&c.data_shape).into_dimensionality::<$d>().expect("data rank");
            let mut expected = c.query_shape.clone();
            expected.extend_from_slice(&c.data_shape[1..]);
          for (ql, qd) in query_layouts(query_nd(&c.query_shape, 0.0, (n - 1) as f64, 0.0, c.bad_at, n as f64 + 0.5)) {
            let q = qd.into_dimensionality::<$dq>().expect("query rank");
            macro_rules! go {
                ($sname:expr, $strat:expr) => {{
                    let ip = nimc::valid_build!(out, Interp1DBuilder::new(data.clone()).strategy($strat).build(), continue);
                    let sname = format!("{}/query-layout-{ql}", $sname);
                    let arr: R = catch(|| ip.interp_array(&q)).map(|r| r.map(|a| a.into_dyn()));
                    let singles: Vec<R> = q.iter().map(|&x| catch(|| ip.interp(x)).map(|r| r.map(|a| a.into_dyn()))).collect();
                    let into = into_call!(&expected, |w| ip.interp_array_into(&q, w));
                    judge(c, &sname, 1, arr, singles, into, None, out);
                    out.states += 1;
                }};
            }
            go!("Linear", Linear::new());
            go!("Linear+extrapolate", Linear::new().extrapolate(true));
            go!("CubicSpline", CubicSpline::new());
            // an explicit axis with a negative, non-dyadic start (so that (q - x0) + x0 != q) and the
            // periodic spline, whose query path rewrites the query
            if n >= 3 {
                let xa: ndarray::Array1<f64> = (0..n).map(|i| -5.3 + 2.7 * i as f64).collect();
                let last = xa[n - 1];
                // (in-range queries are not formed from the axis start, so (q - x0) + x0 differs from q)
                let q = q.mapv(|v| if v >= 0.0 && v <= (n - 1) as f64 { (0.8 * v - 0.55).min(last) } else { -5.3 + 2.7 * v });
                let mut pdata = data.clone();
                let first = pdata.index_axis(Axis(0), 0).to_owned();
                pdata.index_axis_mut(Axis(0), n - 1).assign(&first);
                macro_rules! go2 {
                    ($sname:expr, $strat:expr, $data:expr) => {{
                        let ip = nimc::valid_build!(out, Interp1DBuilder::new($data.clone()).x(xa.clone()).strategy($strat).build(), continue);
                        let sname = format!("{}/query-layout-{ql}", $sname);
                        let arr: R = catch(|| ip.interp_array(&q)).map(|r| r.map(|a| a.into_dyn()));
                        let singles: Vec<R> = q.iter().map(|&x| catch(|| ip.interp(x)).map(|r| r.map(|a| a.into_dyn()))).collect();
                        let into = into_call!(&expected, |w| ip.interp_array_into(&q, w));
                        judge(c, &sname, 1, arr, singles, into, None, out);
                        out.states += 1;
                    }};
                }
                go2!("Linear(axis -2.8+1.1i)", Linear::new(), data);
                go2!("CubicSpline/Periodic+extrapolate(axis -2.8+1.1i)", CubicSpline::new().extrapolate(true).boundary(ndarray_interp::interp1d::cubic_spline::BoundaryCondition::Periodic), pdata);
                go2!("CubicSpline/Natural+extrapolate(axis -2.8+1.1i)", CubicSpline::new().extrapolate(true).boundary(ndarray_interp::interp1d::cubic_spline::BoundaryCondition::Natural), data);
            }
          }
        }
    };
}

macro_rules! inst_2d {
    ($name:ident, $d:ty, $dq:ty) => {
        pub fn $name(c: &Case, out: &mut JobOut) {
            let (nx, ny) = (c.data_shape[0], c.data_shape[1]);
            let data = data_nd(&c.data_shape).into_dimensionality::<$d>().expect("data rank");
            let mut expected = c.query_shape.clone();
            expected.extend_from_slice(&c.data_shape[2..]);
            let lx = query_layouts(query_nd(&c.query_shape, 0.0, (nx - 1) as f64, 0.0, None, 0.0));
            let ly = query_layouts(query_nd(&c.query_shape, 0.0, (ny - 1) as f64, 5.0, c.bad_at, -0.25));
          for li in 0..lx.len() {
            // xs and ys in different layouts
            let (ql, qxd) = lx[li].clone();
            let qyd = ly[(li + 1) % ly.len()].1.clone();
            let qx = qxd.into_dimensionality::<$dq>().expect("query rank");
            let qy = qyd.into_dimensionality::<$dq>().expect("query rank");
            macro_rules! go {
                ($sname:expr, $strat:expr) => {{
                    let ip = nimc::valid_build!(out, Interp2DBuilder::new(data.clone()).strategy($strat).build(), continue);
                    let sname = format!("{}/xs-layout-{ql}", $sname);
                    let arr: R = catch(|| ip.interp_array(&qx, &qy)).map(|r| r.map(|a| a.into_dyn()));
                    let singles: Vec<R> = qx.iter().zip(qy.iter()).map(|(&x, &y)| catch(|| ip.interp(x, y)).map(|r| r.map(|a| a.into_dyn()))).collect();
                    let into = into_call!(&expected, |w| ip.interp_array_into(&qx, &qy, w));
                    judge(c, &sname, 2, arr, singles, into, None, out);
                    out.states += 1;
                }};
            }
            go!("Bilinear", Bilinear::new());
            go!("Bilinear+extrapolate", Bilinear::new().extrapolate(true));
          }
        }
    };
}

// Interp1D: data Ix1..Ix6, IxDyn  x  query Ix0..Ix4, IxDyn
macro_rules! all_q_1d {
    ($name:ident, $d:ty) => {
        mod $name {
            use super::*;
            pub mod q0 { use super::*; inst_1d!(run, $d, Ix0); }
            pub mod q1 { use super::*; inst_1d!(run, $d, Ix1); }
            pub mod q2 { use super::*; inst_1d!(run, $d, Ix2); }
            pub mod q3 { use super::*; inst_1d!(run, $d, Ix3); }
            pub mod q4 { use super::*; inst_1d!(run, $d, Ix4); }
            pub mod qd { use super::*; inst_1d!(run, $d, IxDyn); }
            pub fn dispatch(dq: &str) -> fn(&Case, &mut JobOut) {
                match dq {
                    "Ix0" => q0::run,
                    "Ix1" => q1::run,
                    "Ix2" => q2::run,
                    "Ix3" => q3::run,
                    "Ix4" => q4::run,
                    _ => qd::run,
                }
            }
        }
    };
}
macro_rules! all_q_2d {
    ($name:ident, $d:ty) => {
        mod $name {
            use super::*;
            pub mod q0 { use super::*; inst_2d!(run, $d, Ix0); }
            pub mod q1 { use super::*; inst_2d!(run, $d, Ix1); }
            pub mod q2 { use super::*; inst_2d!(run, $d, Ix2); }
            pub mod q3 { use super::*; inst_2d!(run, $d, Ix3); }
            pub mod q4 { use super::*; inst_2d!(run, $d, Ix4); }
            pub mod qd { use super::*; inst_2d!(run, $d, IxDyn); }
            pub fn dispatch(dq: &str) -> fn(&Case, &mut JobOut) {
                match dq {
                    "Ix0" => q0::run,
                    "Ix1" => q1::run,
                    "Ix2" => q2::run,
                    "Ix3" => q3::run,
                    "Ix4" => q4::run,
                    _ => qd::run,
                }
            }
        }
    };
}
all_q_1d!(a1, Ix1);
all_q_1d!(a2, Ix2);
all_q_1d!(a3, Ix3);
all_q_1d!(a4, Ix4);
all_q_1d!(a5, Ix5);
all_q_1d!(a6, Ix6);
all_q_1d!(ad, IxDyn);
all_q_2d!(b2, Ix2);
all_q_2d!(b3, Ix3);
all_q_2d!(b4, Ix4);
all_q_2d!(b5, Ix5);
all_q_2d!(b6, Ix6);
all_q_2d!(bd, IxDyn);

fn dispatch(c: &Case) -> fn(&Case, &mut JobOut) {
    match (c.two_d, c.d) {
        (false, "Ix1") => a1::dispatch(c.dq),
        (false, "Ix2") => a2::dispatch(c.dq),
        (false, "Ix3") => a3::dispatch(c.dq),
        (false, "Ix4") => a4::dispatch(c.dq),
        (false, "Ix5") => a5::dispatch(c.dq),
        (false, "Ix6") => a6::dispatch(c.dq),
        (false, _) => ad::dispatch(c.dq),
        (true, "Ix2") => b2::dispatch(c.dq),
        (true, "Ix3") => b3::dispatch(c.dq),
        (true, "Ix4") => b4::dispatch(c.dq),
        (true, "Ix5") => b5::dispatch(c.dq),
        (true, "Ix6") => b6::dispatch(c.dq),
        (true, _) => bd::dispatch(c.dq),
    }
}

/// interp_scalar == interp on 1-D (2-D) data
fn scalar_checks(out: &mut JobOut) {
    let qs = [0.0, 0.5, 1.0, 2.75, 3.0, 3.0000000000000004, -0.1, f64::NAN];
    let d1 = data_nd(&[4]).into_dimensionality::<Ix1>().unwrap();
    macro_rules! one {
        ($name:expr, $strat:expr) => {{
            let ip = Interp1DBuilder::new(d1.clone()).strategy($strat).build().unwrap();
            let c = Case { two_d: false, d: "Ix1", dq: "Ix1", data_shape: vec![4], query_shape: vec![qs.len()], bad_at: None };
            let q = Array1::from(qs.to_vec());
            let arr: R = catch(|| ip.interp_array(&q)).map(|r| r.map(|a| a.into_dyn()));
            let singles: Vec<R> = qs.iter().map(|&x| catch(|| ip.interp(x)).map(|r| r.map(|a| a.into_dyn()))).collect();
            let sc = qs.iter().map(|&x| catch(|| ip.interp_scalar(x))).collect();
            let into = into_call!(&vec![qs.len()], |w| ip.interp_array_into(&q, w));
            judge(&c, $name, 1, arr, singles, into, Some(sc), out);
        }};
    }
    one!("Linear/scalar", Linear::new());
    one!("CubicSpline/scalar", CubicSpline::new());
    let d2 = data_nd(&[3, 4]).into_dimensionality::<Ix2>().unwrap();
    let ip = Interp2DBuilder::new(d2).build().unwrap();
    let qx = [0.0, 0.5, 2.0, 1.25, 2.0000000000000004, 1.0];
    let qy = [0.0, 2.5, 3.0, 0.75, 1.0, -0.5];
    let c = Case { two_d: true, d: "Ix2", dq: "Ix1", data_shape: vec![3, 4], query_shape: vec![qx.len()], bad_at: None };
    let (ax, ay) = (Array1::from(qx.to_vec()), Array1::from(qy.to_vec()));
    let arr: R = catch(|| ip.interp_array(&ax, &ay)).map(|r| r.map(|a| a.into_dyn()));
    let singles: Vec<R> = qx.iter().zip(&qy).map(|(&x, &y)| catch(|| ip.interp(x, y)).map(|r| r.map(|a| a.into_dyn()))).collect();
    let sc = qx.iter().zip(&qy).map(|(&x, &y)| catch(|| ip.interp_scalar(x, y))).collect();
    let into = into_call!(&vec![qx.len()], |w| ip.interp_array_into(&ax, &ay, w));
    judge(&c, "Bilinear/scalar", 2, arr, singles, into, Some(sc), out);
    let _ = Array2::<f64>::zeros((1, 1));
}

/// the query is a view into the same buffer as the axis (same start, same length, other stride)
fn alias_checks(out: &mut JobOut) {
    use ndarray::s;
    let b: Array1<f64> = Array1::from((0..12).map(|i| i as f64 * 0.25).collect::<Vec<_>>());
    for (xs, qs) in [(2isize, 1isize), (1, 2), (3, 1), (1, 1)] {
        let x = b.slice(s![..;xs]);
        let n = 4.min(x.len());
        let x = x.slice(s![..n]);
        let q = b.slice(s![..;qs]);
        let q = q.slice(s![..n]);
        let data: Array1<f64> = (0..n).map(|i| ((i + 1) as f64 * 0.7).sin()).collect();
        for ex in [false, true] {
            let Ok(ip) = Interp1DBuilder::new(data.clone()).x(x).strategy(Linear::new().extrapolate(ex)).build() else {
                out.violate(format!("alias:build:{xs}:{qs}"), "valid build rejected".to_string(), Json::Null);
                continue;
            };
            let c = Case { two_d: false, d: "Ix1", dq: "Ix1", data_shape: vec![n], query_shape: vec![n], bad_at: None };
            let arr: R = catch(|| ip.interp_array(&q)).map(|r| r.map(|a| a.into_dyn()));
            let singles: Vec<R> = q.iter().map(|&v| catch(|| ip.interp(v)).map(|r| r.map(|a| a.into_dyn()))).collect();
            let into = into_call!(&vec![n], |w| ip.interp_array_into(&q, w));
            judge(&c, &format!("Linear(extrapolate={ex})/query-aliases-the-axis(strides {xs},{qs})"), 1, arr, singles, into, None, out);
            out.states += 1;
        }
    }
}

/// Very large results (tens of MiB): entry points must still agree element by element. The batch
/// holds a few elements outside the range; with extrapolation every entry point answers them,
/// without it every entry point rejects the batch.
fn huge_batches(m: usize, two_d_query: bool, out: &mut JobOut) {
    use ndarray::{Array1, Array2};
    use ndarray_interp::interp1d::cubic_spline::CubicSpline;
    use ndarray_interp::interp1d::{Interp1DBuilder, Linear};
    use ndarray_interp::interp2d::{Bilinear, Interp2DBuilder};
    let x = Array1::from(vec![-1.0, 0.5, 1.0, 3.0, 3.5]);
    let y = Array1::from(vec![2.0, -1.0, 0.25, 4.0, 1.5]);
    let qv: Vec<f64> = (0..m).map(|i| match i { 0 => -2.5, 7 => 4.45, _ if i == m / 2 => 9.0, _ if i == m - 1 => -1.25, _ => -1.0 + 4.5 * ((i * 2654435761) % 1000) as f64 / 1000.0 }).collect();
    let key = format!("huge:m{m}:{}", if two_d_query { "2-d query" } else { "1-d query" });
    macro_rules! one {
        ($name:expr, $ip:expr, $extrapolating:expr) => {{
            let ip = $ip;
            out.states += 1;
            let singles: Vec<Result<u64, ()>> = qv.iter().map(|&q| ip.interp_scalar(q).map(|v| v.to_bits()).map_err(|_| ())).collect();
            let all_ok = singles.iter().all(|r| r.is_ok());
            assert_eq!(all_ok, $extrapolating);
            let (batch, into): (Result<Vec<u64>, String>, Result<Vec<u64>, String>) = if two_d_query {
                let q2 = Array2::from_shape_vec((m / 2, 2), qv[..m / 2 * 2].to_vec()).unwrap();
                let b = catch(|| ip.interp_array(&q2)).and_then(|r| r.map(|a| a.iter().map(|v| v.to_bits()).collect()).map_err(|e| e.to_string()));
                let mut buf = Array2::from_elem((m / 2, 2), f64::NAN);
                let i = catch(|| ip.interp_array_into(&q2, buf.view_mut())).and_then(|r| r.map(|_| buf.iter().map(|v| v.to_bits()).collect()).map_err(|e| e.to_string()));
                (b, i)
            } else {
                let q1 = Array1::from(qv.clone());
                let b = catch(|| ip.interp_array(&q1)).and_then(|r| r.map(|a| a.iter().map(|v| v.to_bits()).collect()).map_err(|e| e.to_string()));
                let mut buf = Array1::from_elem(m, f64::NAN);
                let i = catch(|| ip.interp_array_into(&q1, buf.view_mut())).and_then(|r| r.map(|_| buf.iter().map(|v| v.to_bits()).collect()).map_err(|e| e.to_string()));
                (b, i)
            };
            let used = if two_d_query { m / 2 * 2 } else { m };
            for (call, res) in [("interp_array", &batch), ("interp_array_into", &into)] {
                out.evals += 1;
                out.nontrivial += 1;
                out.transitions += used as u64;
                let verdict_ok = res.is_ok();
                let want_ok = singles[..used].iter().all(|r| r.is_ok());
                let same = match res {
                    Ok(v) => want_ok && v.len() == used && v.iter().zip(&singles[..used]).all(|(a, b)| Ok(*a) == *b),
                    Err(_) => !want_ok,
                };
                out.outcome(format!("huge:{call}:{}", if verdict_ok { "Ok" } else { "Err" }));
                if !same {
                    out.violate(
                        format!("{key}:{}:{call}", $name).replace(' ', ""),
                        format!("{} on a batch of {used} queries: {call} {} although element-wise interp_scalar {}", $name, match res { Ok(_) => "returned Ok (or other values)".to_string(), Err(e) => format!("failed ({e})") }, if want_ok { "answers every element" } else { "rejects an element" }),
                        Json::obj(vec![("queries", Json::Int(used as i128)), ("strategy", Json::str($name))]),
                    );
                }
            }
        }};
    }
    one!("Linear+extrapolate", Interp1DBuilder::new(y.clone()).x(x.clone()).strategy(Linear::new().extrapolate(true)).build().unwrap(), true);
    one!("Linear", Interp1DBuilder::new(y.clone()).x(x.clone()).strategy(Linear::new()).build().unwrap(), false);
    one!("CubicSpline+extrapolate", Interp1DBuilder::new(y.clone()).x(x.clone()).strategy(CubicSpline::new().extrapolate(true)).build().unwrap(), true);
    // 2-D interpolator, the same queries for both coordinates
    {
        let z = Array2::from_shape_fn((5, 5), |(i, j)| (i * 5 + j) as f64 * 0.375 - 2.0);
        for extrapolate in [true, false] {
            let ip = Interp2DBuilder::new(z.clone()).x(x.clone()).y(x.clone()).strategy(Bilinear::new().extrapolate(extrapolate)).build().unwrap();
            out.states += 1;
            let singles: Vec<Result<u64, ()>> = qv.iter().map(|&q| ip.interp_scalar(q, q).map(|v| v.to_bits()).map_err(|_| ())).collect();
            let q1 = Array1::from(qv.clone());
            let b: Result<Vec<u64>, String> = catch(|| ip.interp_array(&q1, &q1)).and_then(|r| r.map(|a| a.iter().map(|v| v.to_bits()).collect()).map_err(|e| e.to_string()));
            out.evals += 1;
            out.nontrivial += 1;
            out.transitions += m as u64;
            let want_ok = singles.iter().all(|r| r.is_ok());
            let same = match &b {
                Ok(v) => want_ok && v.iter().zip(&singles).all(|(a, b)| Ok(*a) == *b),
                Err(_) => !want_ok,
            };
            if !same {
                out.violate(format!("{key}:Bilinear:{extrapolate}"), format!("Bilinear (extrapolate = {extrapolate}) on a batch of {m} queries: interp_array and element-wise interp_scalar disagree"), Json::Null);
            }
        }
    }
    if out.sample.is_none() {
        out.sample = Some(Json::str(&key));
    }
}

// ------------------------------------------------------------------------------------------
// a user strategy that does not write every element of its target

/// writes `x (+ y) + index` into the even elements of the target and leaves the odd ones alone
/// (think of a strategy that skips gaps in the data)
#[derive(Debug, Clone, Copy)]
struct Sparse;

impl<Sd, Sx, D> ndarray_interp::interp1d::Interp1DStrategyBuilder<Sd, Sx, D> for Sparse
where
    Sd: ndarray::Data<Elem = f64>,
    Sx: ndarray::Data<Elem = f64>,
    D: ndarray::Dimension + ndarray::RemoveAxis,
{
    const MINIMUM_DATA_LENGHT: usize = 2;
    type FinishedStrat = Sparse;
    fn build<Sx2>(self, _x: &ndarray::ArrayBase<Sx2, Ix1>, _data: &ndarray::ArrayBase<Sd, D>) -> Result<Sparse, ndarray_interp::BuilderError>
    where
        Sx2: ndarray::Data<Elem = f64>,
    {
        Ok(Sparse)
    }
}
impl<Sd, Sx, D> ndarray_interp::interp1d::Interp1DStrategy<Sd, Sx, D> for Sparse
where
    Sd: ndarray::Data<Elem = f64>,
    Sx: ndarray::Data<Elem = f64>,
    D: ndarray::Dimension + ndarray::RemoveAxis,
{
    fn interp_into(&self, _ip: &ndarray_interp::interp1d::Interp1D<Sd, Sx, D, Self>, mut target: ndarray::ArrayViewMut<f64, D::Smaller>, x: f64) -> Result<(), InterpolateError> {
        for (i, t) in target.iter_mut().enumerate() {
            if i % 2 == 0 {
                *t = x + i as f64;
            }
        }
        Ok(())
    }
}
impl<Sd, Sx, Sy, D> ndarray_interp::interp2d::Interp2DStrategyBuilder<Sd, Sx, Sy, D> for Sparse
where
    Sd: ndarray::Data<Elem = f64>,
    Sx: ndarray::Data<Elem = f64>,
    Sy: ndarray::Data<Elem = f64>,
    D: ndarray::Dimension + ndarray::RemoveAxis,
    D::Smaller: ndarray::RemoveAxis,
{
    const MINIMUM_DATA_LENGHT: usize = 2;
    type FinishedStrat = Sparse;
    fn build(self, _x: &ndarray::ArrayBase<Sx, Ix1>, _y: &ndarray::ArrayBase<Sy, Ix1>, _data: &ndarray::ArrayBase<Sd, D>) -> Result<Sparse, ndarray_interp::BuilderError> {
        Ok(Sparse)
    }
}
impl<Sd, Sx, Sy, D> ndarray_interp::interp2d::Interp2DStrategy<Sd, Sx, Sy, D> for Sparse
where
    Sd: ndarray::Data<Elem = f64>,
    Sx: ndarray::Data<Elem = f64>,
    Sy: ndarray::Data<Elem = f64>,
    D: ndarray::Dimension + ndarray::RemoveAxis,
    D::Smaller: ndarray::RemoveAxis,
{
    fn interp_into(&self, _ip: &ndarray_interp::interp2d::Interp2D<Sd, Sx, Sy, D, Self>, mut target: ndarray::ArrayViewMut<'_, f64, <D::Smaller as ndarray::Dimension>::Smaller>, x: f64, y: f64) -> Result<(), InterpolateError> {
        for (i, t) in target.iter_mut().enumerate() {
            if i % 2 == 0 {
                *t = x + 10.0 * y + i as f64;
            }
        }
        Ok(())
    }
}

/// fill the allocator's free lists with blocks of `len` f64 holding a sentinel, so that memory handed
/// out next without being cleared is visible
fn dirty_heap(len: usize) {
    let blocks: Vec<Vec<f64>> = (0..4).map(|_| vec![7.25f64; len]).collect();
    std::hint::black_box(&blocks);
    drop(blocks);
}

/// With `Sparse` every allocating entry point must agree element by element with single queries
/// (the elements the strategy leaves alone included), and the *_into forms must write exactly the
/// elements the allocating form differs in from an untouched buffer.
fn run_sparse(two_d: bool, lanes: usize, out: &mut JobOut) {
    let key = format!("sparse-user-strategy:{}:lanes{lanes}", if two_d { "Interp2D" } else { "Interp1D" });
    let qx = [0.5, 1.25, 2.0, 0.0, 1.75, 0.25];
    let qy = [0.25, 0.0, 1.0, 0.75, 0.5, 1.0];
    let single = |k: usize| -> Vec<u64> {
        dirty_heap(lanes);
        if two_d {
            let ip = Interp2DBuilder::new(Array3::<f64>::zeros((3, 2, lanes))).strategy(Sparse).build().expect("valid");
            ip.interp(qx[k], qy[k]).expect("in range").iter().map(|v| v.to_bits()).collect()
        } else {
            let ip = Interp1DBuilder::new(Array2::<f64>::zeros((3, lanes))).strategy(Sparse).build().expect("valid");
            ip.interp(qx[k]).expect("in range").iter().map(|v| v.to_bits()).collect()
        }
    };
    let want: Vec<Vec<u64>> = (0..6).map(single).collect();
    out.states += 1;
    for (shape, name) in [(vec![6usize], "Ix1"), (vec![2, 3], "Ix2"), (vec![3, 1, 2], "Ix3"), (vec![6], "dyn1"), (vec![1, 2, 3], "dyn3")] {
        let dynamic = name.starts_with("dyn");
        for into in [false, true] {
            dirty_heap(6 * lanes);
            let mut full = shape.clone();
            full.push(lanes);
            let sentinel = -777.25f64;
            let mut buf = ArrayD::from_elem(IxDyn(&full), sentinel);
            let xs = ArrayD::from_shape_vec(IxDyn(&shape), qx.to_vec()).unwrap();
            let ys = ArrayD::from_shape_vec(IxDyn(&shape), qy.to_vec()).unwrap();
            macro_rules! call {
                ($dq:ty, $db:ty) => {{
                    let (xa, ya) = (xs.clone().into_dimensionality::<$dq>().unwrap(), ys.clone().into_dimensionality::<$dq>().unwrap());
                    if two_d {
                        let ip = Interp2DBuilder::new(Array3::<f64>::zeros((3, 2, lanes))).strategy(Sparse).build().expect("valid");
                        if into {
                            catch(|| ip.interp_array_into(&xa, &ya, buf.view_mut().into_dimensionality::<$db>().unwrap()).map(|_| None)).and_then(|r| r.map_err(|e| e.to_string()))
                        } else {
                            catch(|| ip.interp_array(&xa, &ya).map(|a| Some(a.into_dyn()))).and_then(|r| r.map_err(|e| e.to_string()))
                        }
                    } else {
                        let ip = Interp1DBuilder::new(Array2::<f64>::zeros((3, lanes))).strategy(Sparse).build().expect("valid");
                        if into {
                            catch(|| ip.interp_array_into(&xa, buf.view_mut().into_dimensionality::<$db>().unwrap()).map(|_| None)).and_then(|r| r.map_err(|e| e.to_string()))
                        } else {
                            catch(|| ip.interp_array(&xa).map(|a| Some(a.into_dyn()))).and_then(|r| r.map_err(|e| e.to_string()))
                        }
                    }
                }};
            }
            let res: Result<Option<ArrayD<f64>>, String> = match (name, dynamic) {
                ("Ix1", _) => call!(Ix1, Ix2),
                ("Ix2", _) => call!(Ix2, Ix3),
                ("Ix3", _) => call!(Ix3, Ix4),
                _ => call!(IxDyn, IxDyn),
            };
            out.evals += 1;
            out.nontrivial += 1;
            out.transitions += 1;
            let call_name = format!("{}({name} query)", if into { "interp_array_into" } else { "interp_array" });
            let bad = match res {
                Err(e) => Some(format!("not answered: {e}")),
                Ok(r) => {
                    let got = r.unwrap_or_else(|| buf.clone());
                    let mut bad = None;
                    for (e, v) in got.iter().enumerate() {
                        let (k, l) = (e / lanes, e % lanes);
                        let expect = if into && l % 2 == 1 { sentinel.to_bits() } else { want[k][l] };
                        if v.to_bits() != expect {
                            bad = Some(format!("element {e} (query {k}, lane {l}) is {v:e}, {} gives {:e}", if into && l % 2 == 1 { "which the strategy does not write: the buffer held" } else { "the single query" }, f64::from_bits(expect)));
                            break;
                        }
                    }
                    bad
                }
            };
            out.outcome(if bad.is_none() { "sparse:agree" } else { "sparse:differ" });
            if let Some(w) = bad {
                out.violate(format!("{key}:{call_name}"), format!("{} with a user strategy that writes only the even lanes, {lanes} lanes, {call_name}: {w}", if two_d { "Interp2D" } else { "Interp1D" }), Json::obj(vec![("lanes", Json::Int(lanes as i128)), ("query_shape", Json::usizes(&shape))]));
            }
        }
    }
    out.sample = Some(Json::str("user strategy writing even lanes only; query shapes [6], [2,3], [3,1,2], dyn [6], dyn [1,2,3]"));
}

fn body(ctx: &Ctx) -> (Summary, Meta) {
    let quick = false; // the full set costs 0.1 s
    let _ = ctx.quick();
    let dims1 = [("Ix1", 1usize), ("Ix2", 2), ("Ix3", 3), ("Ix4", 4), ("Ix5", 5), ("Ix6", 6), ("dyn", 1), ("dyn", 3), ("dyn", 7), ("dyn", 14), ("dyn", 20)];
    let dims2 = [("Ix2", 2usize), ("Ix3", 3), ("Ix4", 4), ("Ix5", 5), ("Ix6", 6), ("dyn", 2), ("dyn", 4), ("dyn", 8), ("dyn", 15)];
    let qdims: Vec<(&str, Vec<Vec<usize>>)> = vec![
        ("Ix0", vec![vec![]]),
        ("Ix1", vec![vec![3], vec![0], vec![1], vec![9]]),
        ("Ix2", vec![vec![2, 2], vec![2, 0], vec![1, 3], vec![3, 3]]),
        ("Ix3", vec![vec![2, 1, 2], vec![0, 2, 1], vec![2, 3, 2], vec![3, 2, 1]]),
        ("Ix4", vec![vec![2, 1, 1, 2], vec![2, 2, 1, 3]]),
        ("dyn", vec![vec![], vec![3], vec![0], vec![9], vec![2, 2], vec![2, 1, 2], vec![2, 1, 1, 2], vec![1, 2, 1, 1, 2], vec![2, 3, 2], vec![3, 2, 2, 2]]),
    ];
    let base = [4usize, 2, 3, 2, 1, 2, 2, 1, 1, 1, 2, 1, 1, 1, 1, 1, 1, 1, 1, 1, 1];
    let mut cases = vec![];
    for (two_d, dims) in [(false, &dims1[..]), (true, &dims2[..])] {
        for &(d, rank) in dims {
            let mut shapes = vec![base[..rank].to_vec()];
            let k = if two_d { 2 } else { 1 };
            if rank > k {
                // a zero-length trailing axis, and a length-1 one
                let mut z = base[..rank].to_vec();
                z[rank - 1] = 0;
                shapes.push(z);
            }
            if two_d {
                for s in shapes.iter_mut() {
                    s[0] = 3;
                    s[1] = 4;
                }
            }
            for ds in shapes {
                for (dq, qshapes) in &qdims {
                    for qs in qshapes {
                        let m: usize = qs.iter().product();
                        let mut bads = vec![None];
                        if m > 0 {
                            bads.push(Some(m - 1));
                            if m > 1 && !quick {
                                bads.push(Some(0));
                                bads.push(Some(m / 2));
                            }
                        }
                        for b in bads {
                            cases.push(Case { two_d, d, dq, data_shape: ds.clone(), query_shape: qs.clone(), bad_at: b });
                        }
                    }
                }
            }
        }
    }
    let ncases = cases.len();
    let mut sum = run_jobs(ctx, "entry-points", &cases, |c| c.key(), |c| {
        let mut out = JobOut::default();
        dispatch(c)(c, &mut out);
        if out.sample.is_none() {
            out.sample = Some(Json::str(&c.key()));
        }
        out
    });
    let sc = run_jobs(ctx, "scalar", &[()], |_| "scalar".to_string(), |_| {
        let mut out = JobOut::default();
        scalar_checks(&mut out);
        alias_checks(&mut out);
        out
    });
    sum.merge(sc);
    sum.merge(run_jobs(ctx, "edge-knot-batches", &[0usize, 1, 2, 3], |f| format!("edge-knots:family{f}"), |f| {
        let mut out = JobOut::default();
        nimc::subj::edge_knot_batches(&mut out, *f);
        out.sample = Some(Json::str(&format!("knot family {f}: subsets of 4..6 of 10 round knots")));
        out
    }));
    // results of 16 MiB + / 32 MiB + (quick) and 128 MiB + (thorough)
    let mut huge: Vec<(usize, bool)> = vec![((1 << 21) + 9, false), ((1 << 21) + 10, true), ((1 << 22) + 9, false)];
    if !ctx.quick() {
        huge.push(((1 << 24) + 9, false));
        huge.push(((1 << 24) + 10, true));
    }
    sum.merge(run_jobs(ctx, "huge-batches", &huge, |h| format!("huge:m{}:{}", h.0, h.1), |h| {
        let mut out = JobOut::default();
        huge_batches(h.0, h.1, &mut out);
        out
    }));
    sum.merge(run_jobs(ctx, "sparse-user-strategy", &[(false, 3usize), (false, 4), (false, 33), (true, 3), (true, 4), (true, 33)], |j| format!("sparse-user-strategy:{}:lanes{}", if j.0 { "Interp2D" } else { "Interp1D" }, j.1), |j| {
        let mut out = JobOut::default();
        run_sparse(j.0, j.1, &mut out);
        out
    }));
    let meta = Meta {
        rule: "every instantiation {Interp1D x data Ix1..Ix6, IxDyn(rank 1,3,7,14,20); Interp2D x data Ix2..Ix6, IxDyn(rank 2,4,8,15)} x query dimension types Ix0..Ix4, IxDyn(rank 0..5; incl. dynamic rank 1, which takes the general path) x query shapes incl. empty ones x data shapes incl. a zero-length trailing axis x strategies {Linear, Linear+extrapolate, CubicSpline on the default axis; Linear, periodic and natural extrapolating CubicSpline on the explicit axis -5.3 + 2.7 i / Bilinear, Bilinear+extrapolate} x {all in range, one out-of-range element at the last / first / middle position}. Oracle: result shape = query shape ++ trailing data dims (also when the combined rank exceeds 6); interp_array(q)[i] == interp(q[i]) bit for bit; the batch is Ok iff every element is; interp_array_into into a poisoned window equals interp_array and leaves the surroundings intact; interp_scalar == interp. Queries hit knots exactly, repeat values, contain 0.0 next to -0.0 (the samples at the first knot are -0.0) and, in a separate group, are views into the same buffer as the axis. Phase edge-knot-batches: 2688 axes whose knots are subsets of k/10, k/3, 7k/10 and a symmetric dyadic set; all knots, their neighbouring floats and midpoints answered one by one, as static and dynamic rank-1 batches (at least as long as the axis), again one by one afterwards and on a second fresh interpolator - all bit-identical. Phase huge-batches: batches of 2^21+9, 2^22+9 (thorough: 2^24+9) queries (results of 16 - 128 MiB) with four out-of-range elements, 1-d and 2-d query arrays, Linear / CubicSpline / Bilinear with and without extrapolation: interp_array and interp_array_into agree with element-wise interp_scalar in verdict and bits. Every case is non-trivial. Phase sparse-user-strategy: a user strategy that writes only the even lanes of its target (3, 4 and 33 lanes, Interp1D and Interp2D): interp_array for static rank 1/2/3 and dynamic rank 1/3 queries equals the single queries in every element (the unwritten ones included; the allocator's free lists are filled with a sentinel beforehand), interp_array_into writes exactly the even lanes.".into(),
        bounds: format!("{ncases} cases over 78 static/dynamic instantiations x 3 (2) strategies; tier {}", ctx.tier.name()),
        assumptions: vec![],
        extra: vec![],
    };
    (sum, meta)
}

fn main() {
    main_with("C09", body)
}
