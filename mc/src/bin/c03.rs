//! C03 - the cubic spline honours the selected boundary conditions (unique spline).
use nimc::spl::{bc_configs, run_spline_job, spline_axes, SplineJob, Want};
use nimc::{main_with, run_jobs, Ctx, JobOut, Meta, Summary};

fn body(ctx: &Ctx) -> (Summary, Meta) {
    let axes = spline_axes(ctx.quick(), 3);
    let mut jobs = vec![];
    for a in &axes {
        for spec in bc_configs(a.n() + 8, a.n()) {
            jobs.push(SplineJob {
                axis: a.clone(),
                spec,
                den: 4,
                f32_too: a.n() <= 7,
                xscale: 1.0,
                nearly_closed: false,
                lane_mix: false,
            });
        }
    }
    // very fine and very coarse axes: the same splines on an axis scaled by 2^-50 and 2^40
    // (spacing ~1e-15 resp. ~1e12); the reference is the unscaled exact spline
    for a in axes.iter().filter(|a| a.name.starts_with("w[") && a.name.ends_with("@0") && a.n() <= if ctx.quick() { 4 } else { 6 }) {
        for spec in bc_configs(a.n() + 8, a.n()) {
            for xscale in [2.0f64.powi(-50), 2.0f64.powi(40)] {
                jobs.push(SplineJob {
                    axis: a.clone(),
                    spec: spec.clone(),
                    den: 4,
                    f32_too: true,
                    xscale,
                    nearly_closed: false,
                lane_mix: false,
                });
            }
        }
    }
    // periodic data that almost closes: rejected by build(), or - if accepted - periodic at the ends
    for a in axes.iter().filter(|a| a.n() >= 3) {
        jobs.push(SplineJob { axis: a.clone(), spec: nimc::subj::BcSpec::Periodic, den: 4, f32_too: false, xscale: 1.0, nearly_closed: true, lane_mix: false });
    }
    let want = Want {
        structural: false,
        ends: true,
        exact: true,
        exact_max_n: 7,
    };
    let sum = run_jobs(
        ctx,
        "spline-boundaries",
        &jobs,
        |j| j.key(),
        |j| {
            let mut out = JobOut::default();
            run_spline_job(j, want, &mut out);
            out
        },
    );
    let meta = Meta {
        rule: "every (axis word, boundary configuration) of the alphabet is one built spline (state); every lane x every grid query is compared (A) through end-condition residuals of the pieces recovered from the implementation's samples and (B, n<=7) with the certified exact rational spline. Extra jobs: Periodic on data whose last value misses the first by 2^-22 relative: rejected by build() (counted) or, if accepted, held to the periodic end conditions S'(x0) = S'(xn), S''(x0) = S''(xn). Non-trivial = a lane whose data is not constant.".into(),
        bounds: format!("{} axes: {}; 33 boundary configurations (4 whole-data-set, 3 row, 25 ordered Mixed pairs, 1 heterogeneous per-lane); lanes: unit impulses, 1, x, x^2, x^3, alternating, generic, generic*2^20, 24-bit mantissas; f64 and (mesh ratio <= 8, n <= 7) f32", axes.len(), if ctx.quick() {"full product n=3..5 over {1,2,1/2} x 3 offsets, n=3..4 over {1,8,1/8}, n in {8,12} with <=1 non-unit interval"} else {"full product n=3..7 over {1,2,1/2,4} x 3 offsets, n=3..6 over {1,8,1/8} x 2 offsets, n in {8,12,16,24,40} with <=2 non-unit intervals, n in {8,12} over {1,8,1/8} with <=1"}),
        assumptions: vec![
            "rounding tolerance K*eps*scale with K=256 (mesh ratio<=8) / 16384 (ratio 64), scale from the exact spline (DESIGN.md 2.1)".into(),
            "for n > 7 only the end-condition residuals (oracle A) are checked; together with C02 they determine the spline".into(),
        ],
        extra: vec![],
    };
    (sum, meta)
}

fn main() {
    main_with("C03", body)
}
