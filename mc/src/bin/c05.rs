//! C05 - without extrapolation a query is answered iff it lies in the closed axis range.
use ndarray::{Array1, Array2, Array3, Ix2, OwnedRepr};
use ndarray_interp::interp1d::{Interp1D, Interp1DStrategy};
use nimc::alpha::{self, Axis};
use nimc::fl::{vec_exact, Fl};
use nimc::refm::End;
use nimc::subj::{build_bilinear, build_linear, build_spline, call1d, call2d, BcSpec, Fail};
use nimc::{catch, main_with, run_jobs, Ctx, JobOut, Json, Meta, Summary};

#[derive(Clone)]
struct Job {
    ax: Axis,
    ay: Option<Axis>,
    f32: bool,
}
impl Job {
    fn key(&self) -> String {
        format!(
            "{}:{}{}",
            if self.f32 { "f32" } else { "f64" },
            self.ax.name,
            self.ay.as_ref().map(|a| format!("x{}", a.name)).unwrap_or_default()
        )
    }
}

/// single queries with their class
fn singles<T: Fl>(x: &[T]) -> Vec<(T, &'static str)> {
    let (x0, xn) = (x[0], x[x.len() - 1]);
    let span = xn - x0;
    let hundred = T::from_f64_lossy(100.0);
    let two = T::from_f64_lossy(2.0);
    vec![
        (x0, "first"),
        (xn, "last"),
        (x0.down(), "below-1ulp"),
        (x0.up().min(xn), "first+1ulp"),
        (xn.down().max(x0), "last-1ulp"),
        (xn.up(), "above-1ulp"),
        (x0.down().down(), "below-2ulp"),
        (xn.up().up(), "above-2ulp"),
        (x0 + span / two, "mid"),
        (x[1.min(x.len() - 1)], "knot1"),
        (T::infinity(), "+inf"),
        (T::neg_infinity(), "-inf"),
        (T::nan(), "NaN"),
        (T::max_value(), "+MAX"),
        (-T::max_value(), "-MAX"),
        (x0 - span * hundred, "far-below"),
        (xn + span * hundred, "far-above"),
    ]
}

fn in_range<T: Fl>(x: &[T], q: T) -> bool {
    x[0] <= q && q <= x[x.len() - 1]
}

const SHAPES: [&[usize]; 10] = [&[1], &[3], &[2, 2], &[1, 3], &[2, 1, 2], &[0], &[2, 0], &[2, 1, 1, 2], &[1, 1, 2, 1, 1, 1, 2], &[2, 1, 1, 1, 1, 1, 1, 1, 1, 2]];
const ARRAY_CALLS: [&str; 4] = [
    "interp_array/static",
    "interp_array/dyn",
    "interp_array_into/static",
    "interp_array_into/dyn",
];

fn classify(r: &Result<Array2<impl Fl>, Fail>) -> String {
    match r {
        Ok(_) => "Ok".into(),
        Err(f) => f.class(),
    }
}

#[allow(clippy::too_many_arguments)]
fn verdict(
    out: &mut JobOut,
    key: &str,
    strat: &str,
    call: &str,
    what: String,
    expect_ok: bool,
    got: String,
    near_end: bool,
    case: &dyn Fn() -> Json,
) {
    out.evals += 1;
    out.transitions += 1;
    out.outcome(format!("{}:{got}", if expect_ok { "in" } else { "out" }));
    if !expect_ok || near_end {
        out.nontrivial += 1;
    }
    let want = if expect_ok { "Ok" } else { "Err(OutOfBounds)" };
    if got != want {
        out.violate(
            format!("{key}:{strat}:{call}:{what}"),
            format!("{strat} {call} with {what}: expected {want}, observed {got}"),
            case(),
        );
    }
}

fn probe1d<T: Fl, S>(
    ip: &Interp1D<OwnedRepr<T>, OwnedRepr<T>, Ix2, S>,
    x: &[T],
    l: usize,
    key: &str,
    strat: &str,
    quick: bool,
    out: &mut JobOut,
) where
    S: Interp1DStrategy<OwnedRepr<T>, OwnedRepr<T>, Ix2> + Sync,
{
    let sg = singles(x);
    let case = |q: Vec<f64>, shape: &[usize]| {
        Json::obj(vec![
            ("type", Json::str(T::NAME)),
            ("x", Json::Arr(x.iter().map(|v| Json::Num(Fl::to_f64(*v))).collect())),
            ("strategy", Json::str(strat)),
            ("query", Json::Arr(q.iter().map(|v| Json::Num(*v)).collect())),
            ("query_shape", Json::usizes(shape)),
        ])
    };
    // single queries through every call, as 0-d and 1-element arrays
    for &(q, cls) in &sg {
        let ok = in_range(x, q);
        let near = cls.contains("ulp") || cls == "first" || cls == "last";
        for call in nimc::subj::CALLS {
            let shapes: &[&[usize]] = if call.starts_with("interp_array") {
                &[&[], &[1], &[1, 1]]
            } else {
                &[&[1]]
            };
            for sh in shapes {
                let r = call1d(ip, &[q], sh, l, call);
                verdict(
                    out,
                    key,
                    strat,
                    call,
                    format!("single:{cls}:rank{}", sh.len()),
                    ok,
                    classify(&r),
                    near,
                    &|| case(vec![Fl::to_f64(q)], sh),
                );
            }
        }
    }
    // batches: every position of one offending element; every pair of positions of two
    let goods: Vec<T> = vec![x[0], x[x.len() - 1], x[0] + (x[x.len() - 1] - x[0]) / T::from_f64_lossy(2.0)];
    let bads: Vec<(T, &str)> = vec![
        (x[0].down(), "below"),
        (x[x.len() - 1].up(), "above"),
        (T::nan(), "NaN"),
        (T::infinity(), "+inf"),
    ];
    for sh in SHAPES {
        let m: usize = sh.iter().product();
        let base: Vec<T> = (0..m).map(|i| goods[i % 3]).collect();
        for call in ARRAY_CALLS {
            let r = call1d(ip, &base, sh, l, call);
            verdict(out, key, strat, call, format!("batch{sh:?}:all-in-range"), true, classify(&r), false, &|| {
                case(base.iter().map(|v| Fl::to_f64(*v)).collect(), sh)
            });
            for p in 0..m {
                for &(b, bname) in &bads {
                    let mut qs = base.clone();
                    qs[p] = b;
                    let r = call1d(ip, &qs, sh, l, call);
                    verdict(out, key, strat, call, format!("batch{sh:?}:{bname}@{p}"), false, classify(&r), true, &|| {
                        case(qs.iter().map(|v| Fl::to_f64(*v)).collect(), sh)
                    });
                }
                if !quick || m <= 4 {
                    for p2 in p + 1..m {
                        let mut qs = base.clone();
                        qs[p] = bads[0].0;
                        qs[p2] = bads[2].0;
                        let r = call1d(ip, &qs, sh, l, call);
                        verdict(out, key, strat, call, format!("batch{sh:?}:below@{p}+NaN@{p2}"), false, classify(&r), true, &|| {
                            case(qs.iter().map(|v| Fl::to_f64(*v)).collect(), sh)
                        });
                    }
                }
            }
        }
    }
}

fn run1d<T: Fl>(job: &Job, quick: bool, out: &mut JobOut) {
    let Some(xt) = vec_exact::<T>(&job.ax.x) else {
        return;
    };
    let n = xt.len();
    let key = job.key();
    // two lanes; the second one is periodic-compatible as well
    // (non-dyadic values: interpolation arithmetic on them rounds, also exactly at the knots)
    let lane0: Vec<T> = (0..n).map(|i| T::from_f64_lossy([0.5, 0.1, 0.3, 0.9, 1.0 / 3.0, -0.7, 2.6][(i + n) % 7])).collect();
    let mut lane1: Vec<T> = (0..n).map(|i| T::from_f64_lossy((i % 3) as f64)).collect();
    let mut l0 = lane0.clone();
    l0[n - 1] = l0[0];
    lane1[n - 1] = lane1[0];
    let data = Array2::from_shape_fn((n, 2), |(i, j)| if j == 0 { l0[i] } else { lane1[i] });
    // data without any lane (a zero-length trailing axis): nothing to compute, but an
    // out-of-range query is still out of range
    if let Ok(Ok(ip0)) = catch(|| build_linear::<T, _>(Some(&xt), Array2::<T>::zeros((n, 0)), false)) {
        out.states += 1;
        probe1d(&ip0, &xt, 0, &key, "Linear[zero-lane data]", true, out);
    }
    if n >= 3 {
        if let Ok(Ok(ip0)) = catch(|| build_spline::<T, _>(&xt, Array2::<T>::zeros((n, 0)), &BcSpec::TopNatural, false)) {
            out.states += 1;
            probe1d(&ip0, &xt, 0, &key, "CubicSpline[Natural, zero-lane data]", true, out);
        }
    }
    match catch(|| build_linear::<T, _>(Some(&xt), data.clone(), false)) {
        Ok(Ok(ip)) => {
            out.states += 1;
            probe1d(&ip, &xt, 2, &key, "Linear", quick, out);
            // scalar entry on 1-D data
            if let Ok(Ok(ip1)) = catch(|| build_linear::<T, _>(Some(&xt), Array1::from(l0.clone()), false)) {
                for &(q, cls) in &singles(&xt) {
                    let r = catch(|| ip1.interp_scalar(q));
                    let got = match r {
                        Ok(Ok(_)) => "Ok".to_string(),
                        Ok(Err(_)) => "Err(OutOfBounds)".to_string(),
                        Err(_) => "panic".to_string(),
                    };
                    verdict(out, &key, "Linear", "interp_scalar", format!("single:{cls}"), in_range(&xt, q), got, true, &|| {
                        Json::obj(vec![("x", Json::f64s(&job.ax.x)), ("query", Json::Num(Fl::to_f64(q)))])
                    });
                }
            }
        }
        other => out.violate(format!("{key}:Linear:build"), format!("build failed: {:?}", other.map(|r| r.map(|_| ()))), Json::obj(vec![("x", Json::f64s(&job.ax.x))])),
    }
    if n >= 3 {
        let specs = [
            BcSpec::TopNotAKnot,
            BcSpec::TopNatural,
            BcSpec::Periodic,
            BcSpec::Lanes(vec![(End::First(0.5), End::NotAKnot), (End::Natural, End::Second(-2.0))]),
        ];
        for spec in specs {
            let name = format!("CubicSpline[{}]", spec.name());
            match catch(|| build_spline::<T, _>(&xt, data.clone(), &spec, false)) {
                Ok(Ok(ip)) => {
                    out.states += 1;
                    probe1d(&ip, &xt, 2, &key, &name, quick, out);
                    if let Ok(Ok(ip1)) = catch(|| build_spline::<T, _>(&xt, Array1::from(l0.clone()), &BcSpec::TopNatural, false)) {
                        for &(q, cls) in &singles(&xt) {
                            let r = catch(|| ip1.interp_scalar(q));
                            let got = match r {
                                Ok(Ok(_)) => "Ok".to_string(),
                                Ok(Err(_)) => "Err(OutOfBounds)".to_string(),
                                Err(_) => "panic".to_string(),
                            };
                            verdict(out, &key, "CubicSpline[Natural]", "interp_scalar", format!("single:{cls}"), in_range(&xt, q), got, true, &|| {
                                Json::obj(vec![("x", Json::f64s(&job.ax.x)), ("query", Json::Num(Fl::to_f64(q)))])
                            });
                        }
                    }
                }
                other => out.violate(
                    format!("{key}:{name}:build"),
                    format!("build failed: {:?}", other.map(|r| r.map(|_| ()))),
                    Json::obj(vec![("x", Json::f64s(&job.ax.x))]),
                ),
            }
        }
    }
    if out.sample.is_none() {
        out.sample = Some(Json::obj(vec![
            ("x", Json::f64s(&job.ax.x)),
            ("single_queries", Json::strs(&singles(&xt).iter().map(|s| s.1).collect::<Vec<_>>())),
            ("batch_shapes", Json::str("(1) (3) (2,2) (1,3) (2,1,2) (0) (2,0) (2,1,1,2) and dynamic queries with 7 and 10 axes; one offending element {below, above, NaN, +inf} at every position, two at every pair")),
        ]));
    }
}

fn run2d_l<T: Fl>(job: &Job, quick: bool, out: &mut JobOut, nl: usize) {
    let ay = job.ay.as_ref().unwrap();
    let (Some(xt), Some(yt)) = (vec_exact::<T>(&job.ax.x), vec_exact::<T>(&ay.x)) else {
        return;
    };
    let (nx, ny) = (xt.len(), yt.len());
    let key = job.key();
    let strat = if nl == 0 { "Bilinear[zero-lane data]" } else { "Bilinear" };
    let data = Array3::from_shape_fn((nx, ny, nl), |(i, j, k)| T::from_f64_lossy((i * 3 + j * 5 + k) as f64 * 0.25));
    let ip = match catch(|| build_bilinear::<T, _>(Some(&xt), Some(&yt), data.clone(), false)) {
        Ok(Ok(ip)) => ip,
        other => {
            out.violate(format!("{key}:Bilinear:build"), format!("build failed: {:?}", other.map(|r| r.map(|_| ()))), Json::Null);
            return;
        }
    };
    out.states += 1;
    let case = |qx: &[T], qy: &[T], shape: &[usize]| {
        Json::obj(vec![
            ("type", Json::str(T::NAME)),
            ("x", Json::f64s(&job.ax.x)),
            ("y", Json::f64s(&ay.x)),
            ("qx", Json::Arr(qx.iter().map(|v| Json::Num(Fl::to_f64(*v))).collect())),
            ("qy", Json::Arr(qy.iter().map(|v| Json::Num(Fl::to_f64(*v))).collect())),
            ("query_shape", Json::usizes(shape)),
        ])
    };
    let (sx, sy) = (singles(&xt), singles(&yt));
    for &(qx, cx) in &sx {
        for &(qy, cy) in &sy {
            let ok = in_range(&xt, qx) && in_range(&yt, qy);
            for call in nimc::subj::CALLS {
                let sh: &[usize] = if call.starts_with("interp_array") { &[] } else { &[1] };
                let r = call2d(&ip, &[qx], &[qy], sh, nl, call);
                verdict(out, &key, strat, call, format!("single:x={cx},y={cy}"), ok, classify(&r), true, &|| case(&[qx], &[qy], sh));
            }
            // scalar on 2-D data
            if nl == 0 {
                continue;
            }
            if let Ok(Ok(ip2)) = catch(|| {
                build_bilinear::<T, _>(Some(&xt), Some(&yt), data.index_axis(ndarray::Axis(2), 0).to_owned(), false)
            }) {
                let got = match catch(|| ip2.interp_scalar(qx, qy)) {
                    Ok(Ok(_)) => "Ok".to_string(),
                    Ok(Err(_)) => "Err(OutOfBounds)".to_string(),
                    Err(_) => "panic".to_string(),
                };
                verdict(out, &key, strat, "interp_scalar", format!("single:x={cx},y={cy}"), ok, got, true, &|| case(&[qx], &[qy], &[]));
            }
        }
    }
    let two = T::from_f64_lossy(2.0);
    let gx = [xt[0], xt[nx - 1], xt[0] + (xt[nx - 1] - xt[0]) / two];
    let gy = [yt[ny - 1], yt[0], yt[0] + (yt[ny - 1] - yt[0]) / two];
    let bx: Vec<(T, &str)> = vec![(xt[0].down(), "below"), (xt[nx - 1].up(), "above"), (T::nan(), "NaN")];
    let by: Vec<(T, &str)> = vec![(yt[0].down(), "below"), (yt[ny - 1].up(), "above"), (T::nan(), "NaN")];
    for sh in SHAPES {
        if quick && sh.len() == 4 {
            continue;
        }
        let m: usize = sh.iter().product();
        let basex: Vec<T> = (0..m).map(|i| gx[i % 3]).collect();
        let basey: Vec<T> = (0..m).map(|i| gy[i % 3]).collect();
        for call in ARRAY_CALLS {
            let r = call2d(&ip, &basex, &basey, sh, nl, call);
            verdict(out, &key, strat, call, format!("batch{sh:?}:all-in-range"), true, classify(&r), false, &|| case(&basex, &basey, sh));
            for p in 0..m {
                for &(b, bn) in &bx {
                    let mut qx = basex.clone();
                    qx[p] = b;
                    let r = call2d(&ip, &qx, &basey, sh, nl, call);
                    verdict(out, &key, strat, call, format!("batch{sh:?}:x-{bn}@{p}"), false, classify(&r), true, &|| case(&qx, &basey, sh));
                }
                for &(b, bn) in &by {
                    let mut qy = basey.clone();
                    qy[p] = b;
                    let r = call2d(&ip, &basex, &qy, sh, nl, call);
                    verdict(out, &key, strat, call, format!("batch{sh:?}:y-{bn}@{p}"), false, classify(&r), true, &|| case(&basex, &qy, sh));
                }
            }
        }
    }
}

fn run2d<T: Fl>(job: &Job, quick: bool, out: &mut JobOut) {
    run2d_l::<T>(job, quick, out, 2);
    run2d_l::<T>(job, true, out, 0);
}

/// integer axes (Linear only): the closed-range test must be exact also beyond 2^53
fn int_axes(out: &mut JobOut) {
    use ndarray::{Array1 as A1, Array2 as A2};
    use ndarray_interp::interp1d::{Interp1DBuilder, Linear};
    use ndarray_interp::interp2d::Interp2DBuilder;
    macro_rules! go {
        ($t:ty, $axes:expr) => {
            for x in $axes {
                let x: Vec<$t> = x;
                let n = x.len();
                let key = format!("{}:int{:?}", stringify!($t), x).replace(' ', "");
                let data = A2::from_shape_fn((n, 2), |(i, j)| (i as $t) * 4 + (j as $t));
                let Ok(ip) = Interp1DBuilder::new(data).x(A1::from(x.clone())).strategy(Linear::new()).build() else {
                    out.violate(format!("{key}:build"), "valid integer axis rejected".to_string(), Json::Null);
                    continue;
                };
                out.states += 1;
                let (lo, hi) = (x[0], x[n - 1]);
                let mut qs: Vec<$t> = vec![lo, hi, x[1.min(n - 1)], <$t>::MAX, <$t>::MIN];
                if let Some(v) = lo.checked_sub(1) { qs.push(v); }
                if let Some(v) = hi.checked_add(1) { qs.push(v); }
                if let Some(v) = lo.checked_sub(2) { qs.push(v); }
                if let Some(v) = hi.checked_add(2) { qs.push(v); }
                if let Some(v) = lo.checked_add(1) { qs.push(v.min(hi)); }
                for &q in &qs {
                    let want_ok = lo <= q && q <= hi;
                    let calls: Vec<(&str, Result<bool, String>)> = vec![
                        ("interp", catch(|| ip.interp(q).is_ok())),
                        ("interp_array/Ix1", catch(|| ip.interp_array(&A1::from(vec![lo, q, hi])).is_ok())),
                        ("interp_array/Ix2", catch(|| ip.interp_array(&A2::from_shape_vec((1, 3), vec![hi, q, lo]).unwrap()).is_ok())),
                        ("is_in_range", catch(|| ip.is_in_range(q))),
                    ];
                    for (call, r) in calls {
                        let got = match r { Ok(true) => "Ok".to_string(), Ok(false) => "Err(OutOfBounds)".to_string(), Err(_) => "panic".to_string() };
                        verdict(out, &key, "Linear(integer axis)", call, format!("q={q}"), want_ok, got, true, &|| Json::obj(vec![("type", Json::str(stringify!($t))), ("x", Json::str(&format!("{x:?}"))), ("query", Json::str(&format!("{q}")))]));
                    }
                }
                // 2-D: the same axis as x and as y
                let d2 = A2::from_shape_fn((n, n), |(i, j)| (i as $t) * 8 + (j as $t));
                if let Ok(ip2) = Interp2DBuilder::new(d2).x(A1::from(x.clone())).y(A1::from(x.clone())).build() {
                    for &q in &qs {
                        let want_ok = lo <= q && q <= hi;
                        for (call, r) in [("Interp2D::interp_scalar(q, lo)", catch(|| ip2.interp_scalar(q, lo).is_ok())), ("Interp2D::interp_scalar(hi, q)", catch(|| ip2.interp_scalar(hi, q).is_ok()))] {
                            let got = match r { Ok(true) => "Ok".to_string(), Ok(false) => "Err(OutOfBounds)".to_string(), Err(_) => "panic".to_string() };
                            verdict(out, &key, "Bilinear(integer axes)", call, format!("q={q}"), want_ok, got, true, &|| Json::obj(vec![("type", Json::str(stringify!($t))), ("x", Json::str(&format!("{x:?}"))), ("query", Json::str(&format!("{q}")))]));
                        }
                    }
                }
            }
        };
    }
    let b = 1i64 << 60;
    go!(i64, vec![vec![-5i64, 0, 7], vec![0, 1], vec![b, b + 2, b + 5], vec![-b - 9, -b - 4, -b], vec![(1 << 53) - 1, (1 << 53) + 1, (1 << 53) + 3], vec![-7, b]]);
    let c = 1i32 << 30;
    go!(i32, vec![vec![-5i32, 0, 7], vec![c, c + 2, c + 5], vec![-c, 0, c - 1], vec![(1 << 24) - 1, (1 << 24) + 1, (1 << 24) + 3]]);
    go!(u32, vec![vec![0u32, 3, 4], vec![u32::MAX - 5, u32::MAX - 3, u32::MAX], vec![7, 1 << 31]]);
    go!(u8, vec![vec![0u8, 3, 255], vec![250, 252, 255]]);
}

/// the query array is a view into the buffer that also holds the axis (same start and length,
/// another stride): it is a query like any other
fn alias_axis_query(out: &mut JobOut) {
    use ndarray::{s, Array1 as A1};
    use ndarray_interp::interp1d::{Interp1DBuilder, Linear};
    let b: A1<f64> = A1::from((0..16).map(|i| i as f64 * 0.5).collect::<Vec<_>>());
    for (xs, qs) in [(1isize, 2isize), (1, 3), (2, 1), (1, 1)] {
        let x = b.slice(s![..;xs]);
        let n = 4;
        let x = x.slice(s![..n]);
        let q = b.slice(s![..;qs]);
        let q = q.slice(s![..n]);
        let data: A1<f64> = (0..n).map(|i| 10.0 + i as f64).collect();
        let Ok(ip) = Interp1DBuilder::new(data).x(x).strategy(Linear::new()).build() else { continue };
        out.states += 1;
        let want_ok = q.iter().all(|&v| x[0] <= v && v <= x[n - 1]);
        let key = format!("alias:x-stride{xs}:q-stride{qs}");
        for (call, r) in [
            ("interp_array", catch(|| ip.interp_array(&q).is_ok())),
            ("interp_array_into", catch(|| { let mut buf = A1::<f64>::zeros(n); ip.interp_array_into(&q, buf.view_mut()).is_ok() })),
        ] {
            let got = match r { Ok(true) => "Ok".to_string(), Ok(false) => "Err(OutOfBounds)".to_string(), Err(_) => "panic".to_string() };
            verdict(out, &key, "Linear", call, format!("query {:?} aliasing the axis {:?}", q.to_vec(), x.to_vec()), want_ok, got, true, &|| Json::obj(vec![("x", Json::f64s(&x.to_vec())), ("query", Json::f64s(&q.to_vec()))]));
        }
    }
}

/// The axis handed to the builder is a strided view (every 2nd / 3rd element of a larger buffer whose
/// other elements are decoys, or a reversed view of a descending buffer): the range ends are the
/// view's first and last *elements*, wherever they live in memory.
fn strided_axis_views(out: &mut JobOut) {
    use ndarray::{s, Array1 as A1, Array2 as A2};
    use ndarray_interp::interp1d::{cubic_spline::CubicSpline, Interp1DBuilder, Linear};
    use ndarray_interp::interp2d::Interp2DBuilder;
    let knots = [0.0, 2.0, 4.0, 6.5, 8.0];
    let n = knots.len();
    for (form, k) in [("every 2nd element", 2usize), ("every 3rd element", 3), ("reversed view of a descending buffer", 1)] {
        // buffer: knots at the positions of the view, decoys (out of order values) between them
        let buf: A1<f64> = if k == 1 { knots.iter().rev().cloned().collect() } else { (0..n * k).map(|i| if i % k == 0 { knots[i / k] } else { -77.0 + i as f64 * 100.0 }).collect() };
        let view = if k == 1 { buf.slice(s![..;-1]) } else { buf.slice(s![..;k as isize]) };
        assert_eq!(view.to_vec(), knots.to_vec());
        let mut qs: Vec<f64> = knots.to_vec();
        qs.extend([f64::from_bits(knots[n - 1].to_bits() - 1), 7.0, 7.99, 5.0, 1e-300, f64::from_bits(1)]);
        let outside = [f64::from_bits(knots[n - 1].to_bits() + 1), 8.5, -1e-300, -1.0, 1e9];
        let d1: A1<f64> = (0..n).map(|i| 10.0 + i as f64).collect();
        let d2 = A2::from_shape_fn((n, n), |(i, j)| (i * n + j) as f64);
        macro_rules! probe {
            ($name:expr, $ask:expr) => {{
                for (q, want_ok) in qs.iter().map(|&q| (q, true)).chain(outside.iter().map(|&q| (q, false))) {
                    let r = catch(|| $ask(q));
                    let got = match r { Ok(true) => "Ok".to_string(), Ok(false) => "Err(OutOfBounds)".to_string(), Err(_) => "panic".to_string() };
                    verdict(out, &format!("strided-axis:{}:{form}", $name).replace(' ', "-"), $name, "interp", format!("query {q:e} on the axis {knots:?} given as {form}"), want_ok, got, true, &|| Json::obj(vec![("x", Json::f64s(&knots)), ("query", Json::Num(q)), ("axis_storage", Json::str(form))]));
                }
            }};
        }
        let Ok(lin) = Interp1DBuilder::new(d1.view()).x(view).strategy(Linear::new()).build() else { continue };
        probe!("Linear", |q: f64| lin.interp_scalar(q).is_ok());
        let Ok(spl) = Interp1DBuilder::new(d1.view()).x(view).strategy(CubicSpline::new()).build() else { continue };
        probe!("CubicSpline", |q: f64| spl.interp_scalar(q).is_ok());
        let Ok(bil) = Interp2DBuilder::new(d2.view()).x(view).y(view).build() else { continue };
        probe!("Bilinear/x", |q: f64| bil.interp_scalar(q, 4.0).is_ok());
        probe!("Bilinear/y", |q: f64| bil.interp_scalar(4.0, q).is_ok());
        out.states += 3;
    }
}

/// Every way to obtain a non-extrapolating interpolator: strategy from `new()`, from
/// `Default::default()`, with `extrapolate(false)` spelled out, toggled on and off again; the
/// interpolator from the builder and from `new_unchecked` (1-D, and 2-D on non-square grids in
/// both orientations).
fn constructors(out: &mut JobOut) {
    use ndarray::{Array1 as A1, Array2 as A2};
    use ndarray_interp::interp1d::cubic_spline::CubicSpline;
    use ndarray_interp::interp1d::{Interp1D, Interp1DBuilder, Linear};
    use ndarray_interp::interp2d::{Bilinear, Interp2D, Interp2DBuilder};
    let x: Vec<f64> = vec![-1.5, 0.0, 0.5, 2.0, 7.0];
    let ys: [Vec<f64>; 3] = [vec![10.0, 11.0, 13.0], vec![-4.0, -3.0, 1.0, 2.0, 2.5, 9.0, 12.0], vec![0.25, 0.5, 1.0, 3.0, 3.5]];
    let probes = |lo: f64, hi: f64| -> Vec<(f64, bool)> {
        vec![(lo, true), (hi, true), (lo.next_down(), false), (hi.next_up(), false), (lo - 1.0, false), (hi + 1.0, false), ((lo + hi) / 2.0, true), (f64::INFINITY, false), (f64::NEG_INFINITY, false), (lo - 1e9, false), (hi + 1e9, false)]
    };
    let n = x.len();
    let d1: A1<f64> = (0..n).map(|i| i as f64 * 0.5).collect();
    let xa = A1::from(x.clone());
    macro_rules! one_d {
        ($name:expr, $ip:expr) => {{
            match catch(|| $ip) {
                Ok(Ok(ip)) => {
                    out.states += 1;
                    for (q, inside) in probes(x[0], x[n - 1]) {
                        let got = match catch(|| ip.interp_scalar(q)) { Ok(Ok(_)) => "Ok".to_string(), Ok(Err(_)) => "Err(OutOfBounds)".to_string(), Err(_) => "panic".to_string() };
                        verdict(out, "constructors", $name, "interp_scalar", format!("q={q:e}"), inside, got, true, &|| Json::obj(vec![("x", Json::f64s(&x)), ("query", Json::Num(q))]));
                    }
                }
                other => out.violate(format!("constructors:{}:build", $name), format!("{}: could not be built: {:?}", $name, other.map(|r| r.map(|_| ()))), Json::Null),
            }
        }};
    }
    one_d!("Linear::new()", Interp1DBuilder::new(d1.clone()).x(xa.clone()).strategy(Linear::new()).build());
    one_d!("Linear::default()", Interp1DBuilder::new(d1.clone()).x(xa.clone()).strategy(Linear::default()).build());
    one_d!("builder default strategy", Interp1DBuilder::new(d1.clone()).x(xa.clone()).build());
    one_d!("Linear::new().extrapolate(false)", Interp1DBuilder::new(d1.clone()).x(xa.clone()).strategy(Linear::new().extrapolate(false)).build());
    one_d!("Linear::new().extrapolate(true).extrapolate(false)", Interp1DBuilder::new(d1.clone()).x(xa.clone()).strategy(Linear::new().extrapolate(true).extrapolate(false)).build());
    one_d!("CubicSpline::new()", Interp1DBuilder::new(d1.clone()).x(xa.clone()).strategy(CubicSpline::new()).build());
    one_d!("CubicSpline::default()", Interp1DBuilder::new(d1.clone()).x(xa.clone()).strategy(CubicSpline::default()).build());
    one_d!("CubicSpline::new().extrapolate(true).extrapolate(false)", Interp1DBuilder::new(d1.clone()).x(xa.clone()).strategy(CubicSpline::new().extrapolate(true).extrapolate(false)).build());
    one_d!("Interp1D::new_unchecked(Linear::new())", Ok::<_, ndarray_interp::BuilderError>(Interp1D::new_unchecked(xa.clone(), d1.clone(), Linear::new())));
    one_d!("Interp1D::new_unchecked(Linear::default())", Ok::<_, ndarray_interp::BuilderError>(Interp1D::new_unchecked(xa.clone(), d1.clone(), Linear::default())));
    for y in &ys {
        for transposed in [false, true] {
            let (gx, gy) = if transposed { (y.clone(), x.clone()) } else { (x.clone(), y.clone()) };
            let (gxa, gya) = (A1::from(gx.clone()), A1::from(gy.clone()));
            let d2 = A2::from_shape_fn((gx.len(), gy.len()), |(i, j)| (i * 3 + j) as f64 * 0.25);
            macro_rules! two_d {
                ($name:expr, $ip:expr) => {{
                    match catch(|| $ip) {
                        Ok(Ok(ip)) => {
                            out.states += 1;
                            let (px, py) = (probes(gx[0], gx[gx.len() - 1]), probes(gy[0], gy[gy.len() - 1]));
                            for (qx, inx) in &px {
                                for (qy, iny) in &py {
                                    let got = match catch(|| ip.interp_scalar(*qx, *qy)) { Ok(Ok(_)) => "Ok".to_string(), Ok(Err(_)) => "Err(OutOfBounds)".to_string(), Err(_) => "panic".to_string() };
                                    verdict(out, &format!("constructors:{}x{}", gx.len(), gy.len()), $name, "interp_scalar", format!("q=({qx:e},{qy:e})"), *inx && *iny, got, true, &|| Json::obj(vec![("x", Json::f64s(&gx)), ("y", Json::f64s(&gy)), ("query", Json::f64s(&[*qx, *qy]))]));
                                }
                            }
                        }
                        other => out.violate(format!("constructors:{}:build", $name), format!("{}: could not be built: {:?}", $name, other.map(|r| r.map(|_| ()))), Json::Null),
                    }
                }};
            }
            two_d!("Bilinear::new()", Interp2DBuilder::new(d2.clone()).x(gxa.clone()).y(gya.clone()).strategy(Bilinear::new()).build());
            two_d!("Bilinear::default()", Interp2DBuilder::new(d2.clone()).x(gxa.clone()).y(gya.clone()).strategy(Bilinear::default()).build());
            two_d!("builder default strategy (2-D)", Interp2DBuilder::new(d2.clone()).x(gxa.clone()).y(gya.clone()).build());
            two_d!("Bilinear::new().extrapolate(true).extrapolate(false)", Interp2DBuilder::new(d2.clone()).x(gxa.clone()).y(gya.clone()).strategy(Bilinear::new().extrapolate(true).extrapolate(false)).build());
            two_d!("Interp2D::new_unchecked(Bilinear::new())", Ok::<_, ndarray_interp::BuilderError>(Interp2D::new_unchecked(gxa.clone(), gya.clone(), d2.clone(), Bilinear::new())));
            two_d!("Interp2D::new_unchecked(Bilinear::default())", Ok::<_, ndarray_interp::BuilderError>(Interp2D::new_unchecked(gxa.clone(), gya.clone(), d2.clone(), Bilinear::default())));
        }
    }
}

fn body(ctx: &Ctx) -> (Summary, Meta) {
    // the former thorough bounds cost 3 s: they are the quick tier now; thorough goes further
    let quick = false;
    let deep = !ctx.quick();
    let mut jobs = vec![];
    for f32 in [false, true] {
        let e = if f32 { f32::EPSILON as f64 } else { f64::EPSILON };
        let vs = vec![-1048576.0, -7.0, -1.0, 0.0, 2.0f64.powi(-10), 1.0, 1.0 + e, 1.0 + 2.0 * e, 1.5, 7.0];
        let mut axes = alpha::subsets_axes(&vs, "v", 2, if deep { 8 } else { 6 });
        axes.extend(alpha::full_word_axes(&alpha::h3(), "w", 3, if deep { 8 } else { 7 }, &[0.0, -3.0, 1.25]));
        axes.extend(alpha::long_word_axes(&alpha::h4(), "L", &[8, 40], 1, &[1.25]));
        for a in &axes {
            jobs.push(Job { ax: a.clone(), ay: None, f32 });
        }
        // 2-D: non-square grids from a small set of axes
        let a2: Vec<Axis> = vec![
            Axis::new("v[0,1]".into(), vec![0.0, 1.0]),
            Axis::new("v[-7,0,1.5]".into(), vec![-7.0, 0.0, 1.5]),
            Axis::new("v[1,1+e,1+2e,7]".into(), vec![1.0, 1.0 + e, 1.0 + 2.0 * e, 7.0]),
            alpha::axis_from_word("w", -3.0, &[0.5, 2.0, 1.0, 1.0]),
            Axis::new("v[-2^20,2]".into(), vec![-1048576.0, 2.0]),
        ];
        for ax in &a2 {
            for ay in &a2 {
                jobs.push(Job { ax: ax.clone(), ay: Some(ay.clone()), f32 });
            }
        }
    }
    let njobs = jobs.len();
    let sum = run_jobs(ctx, "closed-range", &jobs, |j| j.key(), |j| {
        let mut out = JobOut::default();
        match (j.ay.is_some(), j.f32) {
            (false, false) => run1d::<f64>(j, quick, &mut out),
            (false, true) => run1d::<f32>(j, quick, &mut out),
            (true, false) => run2d::<f64>(j, quick, &mut out),
            (true, true) => run2d::<f32>(j, quick, &mut out),
        }
        out
    });
    let mut sum = sum;
    sum.merge(run_jobs(ctx, "integer-axes-and-aliasing", &[()], |_| "int+alias".to_string(), |_| {
        let mut out = JobOut::default();
        int_axes(&mut out);
        alias_axis_query(&mut out);
        strided_axis_views(&mut out);
        constructors(&mut out);
        out.sample = Some(Json::str("i64 / i32 / u32 / u8 axes incl. ends beyond 2^53 and at the type limits; queries that are views into the axis buffer"));
        out
    }));
    let meta = Meta {
        rule: "every axis x {Linear, CubicSpline NotAKnot/Natural/Periodic/Individual, Bilinear on every ordered axis pair} x every entry point (scalar, interp, interp_into, interp_array and interp_array_into with static ranks 0..4 and dynamic rank) x single queries {ends, 1 and 2 ulp inside/outside, mid, +-inf, NaN, +-MAX, far} and batches of 10 shapes (up to 10 query axes) with one offending element {below, above, NaN, +inf} at every position and two at every pair; oracle: Ok iff every element lies in the closed range, else Err(OutOfBounds), never a panic. Plus integer axes (i64, i32, u32, u8; ends beyond 2^53 and at the limits of the type, queries one and two below / above the ends) and queries that are views into the buffer of the axis; every way to obtain a non-extrapolating interpolator (strategy from new() / Default::default() / extrapolate(false) / toggled, interpolator from the builder and from new_unchecked, non-square grids in both orientations). Non-trivial = expected Err, or query within 2 ulp of a range end. Axes given as strided views (every 2nd / 3rd element of a buffer with decoys in between, reversed view of a descending buffer) for Linear, CubicSpline and both axes of Bilinear: knots, ends, the floats next to the ends.".into(),
        bounds: format!("{njobs} (type, axis or grid) jobs; tier {}", ctx.tier.name()),
        assumptions: vec![],
        extra: vec![],
    };
    (sum, meta)
}

fn main() {
    main_with("C05", body)
}
