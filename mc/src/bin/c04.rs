//! C04 - Bilinear 2-D interpolation returns the exact bilinear blend of the cell.
use ndarray::Array3;
use nimc::alpha::{self, Axis};
use nimc::dd::DD;
use nimc::fl::{vec_exact, Fl};
use nimc::refm::{bilinear_ref, bracket_scan, err_dd};
use nimc::subj::{build_bilinear, eval_entry2, layouts3, ENTRIES_2D};
use nimc::{catch, main_with, run_jobs, Ctx, JobOut, Json, Meta, Summary};

#[derive(Clone)]
struct Job {
    ax: Axis,
    ay: Axis,
    explicit_x: bool,
    explicit_y: bool,
    f32: bool,
}

impl Job {
    fn key(&self) -> String {
        format!(
            "{}:{}{}x{}{}",
            if self.f32 { "f32" } else { "f64" },
            self.ax.name,
            if self.explicit_x { "" } else { "(index)" },
            self.ay.name,
            if self.explicit_y { "" } else { "(index)" },
        )
    }
}

pub fn axes2d(quick: bool, e: f64) -> Vec<Axis> {
    let mut v = vec![];
    if quick {
        v.extend(alpha::full_word_axes(&alpha::h3(), "w", 2, 3, &[0.0]));
        v.push(alpha::axis_from_word("w", -3.0, &[0.5, 2.0, 1.0]));
        v.push(alpha::axis_from_word("w", 1.25, &[2.0, 0.5, 0.5, 1.0]));
    } else {
        v.extend(alpha::full_word_axes(&alpha::h4(), "w", 2, 4, &[0.0]));
        v.extend(alpha::full_word_axes(&alpha::h3(), "w", 5, 5, &[-3.0]));
        v.push(alpha::axis_from_word("w", 1.25, &[2.0, 0.5, 0.5, 1.0, 4.0, 1.0]));
    }
    for x in [
        vec![1.0, 1.0 + e, 1.0 + 2.0 * e],
        vec![-1048576.0, 0.0, 7.0],
        vec![-1.0, 0.0, 2.0f64.powi(-10), 1.5],
        vec![-1048576.0, 2.0],
        vec![0.1, 0.2, 0.30000000000000004, 0.4],
    ] {
        let name = format!("v{:?}", x.iter().map(|v| format!("{v:e}")).collect::<Vec<_>>()).replace(' ', "");
        v.push(Axis::new(name, x));
    }
    v
}

fn queries<T: Fl>(x: &[T]) -> Vec<T> {
    let n = x.len();
    let four = T::from_f64_lossy(4.0);
    let mut q = vec![];
    for i in 0..n {
        q.push(x[i]);
        if i > 0 {
            q.push(x[i].down());
        }
        if i + 1 < n {
            q.push(x[i].up());
            let h = x[i + 1] - x[i];
            for k in [1, 2, 3] {
                let v = x[i] + h * (T::from_f64_lossy(k as f64) / four);
                if v >= x[i] && v <= x[i + 1] {
                    q.push(v);
                }
            }
        }
    }
    q
}

const GENERIC: [f64; 11] = [
    1.0, -0.5, 2.0, 0.25, -3.0, 1.5, 0.875, -1.25, 0.5, 3.0, -0.75,
];

/// data lanes of a grid: (name, nx*ny values row-major)
fn grid_lanes(x: &[f64], y: &[f64]) -> Vec<(String, Vec<f64>)> {
    let (nx, ny) = (x.len(), y.len());
    let mut v = vec![];
    for i in 0..nx {
        for j in 0..ny {
            let mut z = vec![0.0; nx * ny];
            z[i * ny + j] = 1.0;
            v.push((format!("e{i},{j}"), z));
        }
    }
    v.push(("one".into(), vec![1.0; nx * ny]));
    let small = |a: &[f64]| a.iter().all(|&t| nimc::rat::sig_bits(t) <= 24 && t.abs() <= 4096.0);
    if small(x) && small(y) {
        let mk = |f: &dyn Fn(f64, f64) -> f64| -> Vec<f64> {
            let mut z = vec![];
            for &xi in x {
                for &yj in y {
                    z.push(f(xi, yj));
                }
            }
            z
        };
        v.push(("x".into(), mk(&|a, _| a)));
        v.push(("y".into(), mk(&|_, b| b)));
        if x.iter().chain(y.iter()).all(|&t| nimc::rat::sig_bits(t) <= 12) {
            v.push(("xy".into(), mk(&|a, b| a * b)));
        }
    }
    let gen: Vec<f64> = (0..nx * ny)
        .map(|k| {
            let (i, j) = (k / ny, k % ny);
            GENERIC[(3 * i + 5 * j) % 11] * (1 + (i + 2 * j) % 3) as f64
        })
        .collect();
    v.push(("gen".into(), gen.clone()));
    v.push(("gen*2^20".into(), gen.iter().map(|g| g * 1048576.0).collect()));
    let m24: Vec<f64> = (0..nx * ny)
        .map(|i| {
            let m = ((i as u64 + 1).wrapping_mul(2654435761) % (1 << 23)) | (1 << 23) | 1;
            let v = m as f64 / 8388608.0;
            if i % 3 == 1 {
                -v
            } else {
                v
            }
        })
        .collect();
    v.push(("m24".into(), m24));
    v
}

fn run<T: Fl>(job: &Job, out: &mut JobOut) {
    nimc::subj::set_axis_reversed_in_memory(false);
    let (nx, ny) = (job.ax.n(), job.ay.n());
    let x64: Vec<f64> = if job.explicit_x {
        job.ax.x.clone()
    } else {
        (0..nx).map(|i| i as f64).collect()
    };
    let y64: Vec<f64> = if job.explicit_y {
        job.ay.x.clone()
    } else {
        (0..ny).map(|i| i as f64).collect()
    };
    let (Some(xt), Some(yt)) = (vec_exact::<T>(&x64), vec_exact::<T>(&y64)) else {
        return;
    };
    let lanes: Vec<(String, Vec<f64>)> = grid_lanes(&x64, &y64)
        .into_iter()
        .filter(|l| vec_exact::<T>(&l.1).is_some())
        .collect();
    let nl = lanes.len();
    let data = Array3::from_shape_fn((nx, ny, nl), |(i, j, k)| {
        T::from_f64_exact(lanes[k].1[i * ny + j]).unwrap()
    });
    let key = job.key();
    let case = |extra: Vec<(&str, Json)>| {
        let mut v = vec![
            ("type", Json::str(T::NAME)),
            ("x", Json::f64s(&x64)),
            ("y", Json::f64s(&y64)),
            ("explicit_x", Json::Bool(job.explicit_x)),
            ("explicit_y", Json::Bool(job.explicit_y)),
        ];
        v.extend(extra);
        Json::obj(v)
    };
    let (qx1, qy1) = (queries(&xt), queries(&yt));
    let mut qx = vec![];
    let mut qy = vec![];
    for &a in &qx1 {
        for &b in &qy1 {
            qx.push(a);
            qy.push(b);
        }
    }
    // references
    struct RefV {
        exact: DD,
        m: f64,
        nontrivial: bool,
    }
    let mut refs: Vec<RefV> = Vec::with_capacity(qx.len() * nl);
    for (&a, &b) in qx.iter().zip(&qy) {
        let i = bracket_scan(&xt, a);
        let j = bracket_scan(&yt, b);
        let inside = xt[i] < a && a < xt[i + 1] && yt[j] < b && b < yt[j + 1];
        for l in &lanes {
            let z = |ii: usize, jj: usize| l.1[ii * ny + jj];
            let (z11, z12, z21, z22) = (z(i, j), z(i, j + 1), z(i + 1, j), z(i + 1, j + 1));
            let (exact, was_exact) = bilinear_ref(
                x64[i],
                x64[i + 1],
                y64[j],
                y64[j + 1],
                z11,
                z12,
                z21,
                z22,
                a.to_f64(),
                b.to_f64(),
            );
            if !was_exact {
                out.count("references_in_double_double", 1);
            }
            let m = z11.abs().max(z12.abs()).max(z21.abs()).max(z22.abs());
            let differ = !(z11 == z12 && z12 == z21 && z21 == z22);
            refs.push(RefV {
                exact,
                m,
                nontrivial: inside && differ,
            });
        }
    }
    out.nontrivial += refs.iter().filter(|r| r.nontrivial).count() as u64;
    for (layout, data) in layouts3(&data) {
        let key = format!("{key}:{layout}");
        nimc::subj::set_axis_reversed_in_memory(layout == "y-rev" || layout == "lanes-rev");
        let ip = match catch(|| {
            build_bilinear::<T, _>(
                if job.explicit_x { Some(&xt[..]) } else { None },
                if job.explicit_y { Some(&yt[..]) } else { None },
                data.clone(),
                false,
            )
        }) {
            Ok(Ok(i)) => i,
            Ok(Err(e)) => {
                out.violate(format!("{key}:build"), format!("valid input rejected by build(): {e}"), case(vec![]));
                return;
            }
            Err(p) => {
                out.violate(format!("{key}:build"), format!("build() panicked: {p}"), case(vec![]));
                return;
            }
        };
        out.states += 1;
        for entry in ENTRIES_2D {
            let res = match eval_entry2(&ip, &qx, &qy, entry) {
                Ok(r) => r,
                Err(f) => {
                    out.outcome(format!("{entry}:{}", f.class()));
                    out.violate(
                        format!("{key}:{entry}"),
                        format!("in-range batch not answered: {}", f.text()),
                        case(vec![("entry", Json::str(entry)), ("layout", Json::str(layout))]),
                    );
                    continue;
                }
            };
            out.transitions += 1;
            out.outcome(format!("{entry}:Ok"));
            let mut reported = false;
            for qi in 0..qx.len() {
                for (k, l) in lanes.iter().enumerate() {
                    let r = &refs[qi * nl + k];
                    let got = res[[qi, k]].to_f64();
                    let tol = 24.0 * T::EPS * r.m;
                    let err = err_dd(got, r.exact);
                    out.evals += 1;
                    if r.m > 0.0 {
                        out.maximum("err_over_eps_max_z", err / (T::EPS * r.m));
                    }
                    if !(err <= tol) && !reported {
                        reported = true;
                        out.violate(
                            format!("{key}:{entry}:{}", l.0),
                            format!(
                                "Bilinear at ({:e}, {:e}) returned {got:e}, the bilinear blend of the cell gives {:e} (err {err:e}, tol {tol:e})",
                                qx[qi].to_f64(),
                                qy[qi].to_f64(),
                                r.exact.to_f64()
                            ),
                            case(vec![
                                ("entry", Json::str(entry)),
                                ("layout", Json::str(layout)),
                                ("lane", Json::str(&l.0)),
                                ("data_row_major", Json::f64s(&l.1)),
                                ("qx", Json::Num(qx[qi].to_f64())),
                                ("qy", Json::Num(qy[qi].to_f64())),
                                ("expected", Json::Num(r.exact.to_f64())),
                                ("observed", Json::Num(got)),
                            ]),
                        );
                    }
                }
            }
        }
    }
    if out.sample.is_none() {
        out.sample = Some(case(vec![
            ("lanes", Json::Int(nl as i128)),
            ("queries", Json::Int(qx.len() as i128)),
            ("layouts", Json::str("C, F, xy-swapped, lanes-rev, y-rev")),
        ]));
    }
}

/// Lean variant for big inputs: long uneven axes (the segment lookup leaves its guess-and-verify
/// shortcut) and data with very many lanes (size-gated code paths), few lanes / few queries, all
/// entry points incl. the dirty-buffer `*_into` forms.
fn run_big<T: Fl>(name: &str, x64: &[f64], y64: &[f64], nl: usize, dense_x: bool, out: &mut JobOut) {
    nimc::subj::set_axis_reversed_in_memory(false);
    let (Some(xt), Some(yt)) = (vec_exact::<T>(x64), vec_exact::<T>(y64)) else {
        return;
    };
    let (nx, ny) = (xt.len(), yt.len());
    let val = |i: usize, j: usize, k: usize| -> f64 { GENERIC[(3 * i + 5 * j + 7 * k) % 11] * (1 + (i + 2 * j + k) % 3) as f64 };
    let data = Array3::from_shape_fn((nx, ny, nl), |(i, j, k)| T::from_f64_exact(val(i, j, k)).unwrap());
    let key = format!("{}:big:{name}", T::NAME);
    let case = |extra: Vec<(&str, Json)>| {
        let mut v = vec![("type", Json::str(T::NAME)), ("grid", Json::str(name)), ("nx", Json::Int(nx as i128)), ("ny", Json::Int(ny as i128)), ("lanes", Json::Int(nl as i128))];
        v.extend(extra);
        Json::obj(v)
    };
    let _ = dense_x;
    let few = |t: &[T]| -> Vec<T> { vec![t[0], t[0] + (t[1] - t[0]) * T::from_f64_lossy(0.25), t[t.len() - 2] + (t[t.len() - 1] - t[t.len() - 2]) * T::from_f64_lossy(0.5), t[t.len() - 1]] };
    let qx1 = if nx > 3 { queries(&xt) } else { few(&xt) };
    let qy1 = if ny > 3 { queries(&yt) } else { few(&yt) };
    let (mut qx, mut qy) = (vec![], vec![]);
    for &a in &qx1 {
        for &b in &qy1 {
            qx.push(a);
            qy.push(b);
        }
    }
    let mut refs: Vec<(DD, f64)> = Vec::with_capacity(qx.len() * nl);
    for (&a, &b) in qx.iter().zip(&qy) {
        let (i, j) = (bracket_scan(&xt, a), bracket_scan(&yt, b));
        for k in 0..nl {
            let (z11, z12, z21, z22) = (val(i, j, k), val(i, j + 1, k), val(i + 1, j, k), val(i + 1, j + 1, k));
            let (exact, _) = bilinear_ref(x64[i], x64[i + 1], y64[j], y64[j + 1], z11, z12, z21, z22, a.to_f64(), b.to_f64());
            refs.push((exact, z11.abs().max(z12.abs()).max(z21.abs()).max(z22.abs())));
        }
    }
    out.nontrivial += refs.len() as u64;
    let ip = match catch(|| build_bilinear::<T, _>(Some(&xt[..]), Some(&yt[..]), data.clone(), false)) {
        Ok(Ok(i)) => i,
        other => {
            out.violate(format!("{key}:build"), format!("valid input not accepted by build(): {:?}", other.map(|r| r.map(|_| ()))), case(vec![]));
            return;
        }
    };
    out.states += 1;
    for entry in ENTRIES_2D {
        let res = match eval_entry2(&ip, &qx, &qy, entry) {
            Ok(r) => r,
            Err(f) => {
                out.violate(format!("{key}:{entry}"), format!("in-range batch not answered: {}", f.text()), case(vec![("entry", Json::str(entry))]));
                continue;
            }
        };
        out.transitions += 1;
        out.outcome(format!("{entry}:Ok"));
        'q: for qi in 0..qx.len() {
            for k in 0..nl {
                let (exact, m) = refs[qi * nl + k];
                let got = res[[qi, k]].to_f64();
                let tol = 24.0 * T::EPS * m;
                let err = err_dd(got, exact);
                out.evals += 1;
                if !(err <= tol) {
                    out.violate(
                        format!("{key}:{entry}"),
                        format!("Bilinear at ({:e}, {:e}), lane {k}, returned {got:e}, the bilinear blend of the cell gives {:e} (err {err:e}, tol {tol:e})", qx[qi].to_f64(), qy[qi].to_f64(), exact.to_f64()),
                        case(vec![("entry", Json::str(entry)), ("qx", Json::Num(qx[qi].to_f64())), ("qy", Json::Num(qy[qi].to_f64())), ("lane", Json::Int(k as i128))]),
                    );
                    break 'q;
                }
            }
        }
    }
    if out.sample.is_none() {
        out.sample = Some(case(vec![("queries", Json::Int(qx.len() as i128))]));
    }
}

/// Dynamic-rank data with many trailing axes: the result of a batch has more than 12 / 16 / 20 axes.
fn run_high_rank(trailing_axes: usize, out: &mut JobOut) {
    use ndarray::{ArrayD, IxDyn};
    use ndarray_interp::interp2d::{Bilinear, Interp2DBuilder};
    let (x, y) = (vec![0.0, 1.0, 3.0], vec![-1.0, 1.0, 1.5]);
    let mut shape = vec![3usize, 3];
    for k in 0..trailing_axes {
        shape.push(if k == 0 || k + 1 == trailing_axes { 2 } else { 1 });
    }
    let lanes: usize = shape[2..].iter().product();
    let val = |i: usize, j: usize, k: usize| -> f64 { GENERIC[(3 * i + 5 * j + 7 * k) % 11] * (1 + (i + 2 * j + k) % 3) as f64 };
    let mut c = 0usize;
    let data = ArrayD::from_shape_fn(IxDyn(&shape), |_| {
        let (i, j, k) = (c / (3 * lanes), (c / lanes) % 3, c % lanes);
        c += 1;
        val(i, j, k)
    });
    let key = format!("high-rank:{trailing_axes}-trailing-axes");
    let ip = match catch(|| Interp2DBuilder::new(data.clone()).x(ndarray::Array1::from(x.clone())).y(ndarray::Array1::from(y.clone())).strategy(Bilinear::new()).build()) {
        Ok(Ok(ip)) => ip,
        other => {
            out.violate(format!("{key}:build"), format!("valid dynamic-rank data not accepted: {:?}", other.map(|r| r.map(|_| ()))), Json::Null);
            return;
        }
    };
    out.states += 1;
    let (qx, qy) = (vec![0.0, 0.75, 2.5, 3.0], vec![1.25, -1.0, 0.0, 1.5]);
    for qshape in [vec![4usize], vec![2, 2], vec![1, 2, 1, 2]] {
        let xa = ArrayD::from_shape_vec(IxDyn(&qshape), qx.clone()).unwrap();
        let ya = ArrayD::from_shape_vec(IxDyn(&qshape), qy.clone()).unwrap();
        let mut want_shape = qshape.clone();
        want_shape.extend_from_slice(&shape[2..]);
        let mut results: Vec<(&str, Result<ArrayD<f64>, String>)> = vec![("interp_array", catch(|| ip.interp_array(&xa, &ya)).and_then(|r| r.map_err(|e| e.to_string())))];
        let mut buf = ArrayD::from_elem(IxDyn(&want_shape), f64::NAN);
        let r = catch(|| ip.interp_array_into(&xa, &ya, buf.view_mut())).and_then(|r| r.map_err(|e| e.to_string()));
        results.push(("interp_array_into", r.map(|_| buf)));
        if qshape.len() == 1 {
            let (x1, y1) = (ndarray::Array1::from(qx.clone()), ndarray::Array1::from(qy.clone()));
            results.push(("interp_array(Ix1 query)", catch(|| ip.interp_array(&x1, &y1)).and_then(|r| r.map(|a| a.into_dyn()).map_err(|e| e.to_string()))));
        }
        for (call, res) in results {
            out.evals += 1;
            out.nontrivial += 1;
            out.transitions += 1;
            let what = match &res {
                Ok(a) if a.shape() != &want_shape[..] => Some(format!("result shape {:?}, expected {:?}", a.shape(), want_shape)),
                Ok(a) => {
                    let mut bad = None;
                    for (e, &got) in a.iter().enumerate() {
                        let (qi, k) = (e / lanes, e % lanes);
                        let (i, j) = (bracket_scan(&x, qx[qi]), bracket_scan(&y, qy[qi]));
                        let (exact, _) = bilinear_ref(x[i], x[i + 1], y[j], y[j + 1], val(i, j, k), val(i, j + 1, k), val(i + 1, j, k), val(i + 1, j + 1, k), qx[qi], qy[qi]);
                        if !(err_dd(got, exact) <= 24.0 * f64::EPSILON * 9.0) {
                            bad = Some(format!("element {e} is {got:e}, the bilinear blend gives {:e}", exact.to_f64()));
                            break;
                        }
                    }
                    bad
                }
                Err(e) => Some(format!("not answered: {e}")),
            };
            out.outcome(format!("high-rank:{call}:{}", if what.is_none() { "ok" } else { "bad" }));
            if let Some(w) = what {
                out.violate(format!("{key}:query{qshape:?}:{call}").replace(' ', ""), format!("Bilinear over dynamic-rank data of shape {shape:?}, query shape {qshape:?}, {call}: {w}"), Json::usizes(&shape));
            }
        }
    }
    out.sample = Some(Json::usizes(&shape));
}

/// Axes of 2^k + few knots with unit spacing and single knots moved by a quarter: the position
/// computed from the end points is off by one there, and the search that follows runs over a range of
/// exactly 2^k + j cells (j = -3 ..= jmax), from either end of the axis. Long axis used as x and as y.
fn run_huge(k: u32, jmax: i64, out: &mut JobOut) {
    use ndarray::Array2;
    use ndarray_interp::interp2d::{Bilinear, Interp2DBuilder};
    let n = (1usize << k) + jmax as usize + 3;
    let small = [-1.0f64, 0.5];
    let val = |i: usize, j: usize| -> f64 { GENERIC[(3 * i + 5 * j) % 11] * (1 + (i + 2 * j) % 3) as f64 };
    let by_x = Array2::from_shape_fn((n, 2), |(i, j)| val(i, j));
    let by_y = Array2::from_shape_fn((2, n), |(j, i)| val(i, j));
    for parity in 0..2i64 {
        let mut x: Vec<f64> = (0..n).map(|i| i as f64).collect();
        let mut moved = vec![];
        for j in (-3..=jmax).filter(|j| (j & 1) == parity) {
            let up = ((1i64 << k) + j) as usize;
            let down = (jmax + 2 - j) as usize;
            if up + 1 < n && up > down + 4 {
                x[up] += 0.25;
                moved.push(up);
            }
            if down >= 2 && down + 4 < up {
                x[down] -= 0.25;
                moved.push(down);
            }
        }
        let mut qs = vec![];
        for &m in &moved {
            for d in [-1.0, -0.875, -0.5, -0.25, -0.125, 0.0, 0.125, 0.25, 0.5, 1.0, 1.5] {
                let q = m as f64 + d;
                if q >= 0.0 && q <= x[n - 1] {
                    qs.push(q);
                }
            }
        }
        let locate = |q: f64| -> usize {
            let mut i = (q.floor() as usize).min(n - 2);
            while i > 0 && x[i] > q {
                i -= 1;
            }
            while i + 2 < n && x[i + 1] <= q {
                i += 1;
            }
            i
        };
        for long_is_x in [true, false] {
            let key = format!("huge:2^{k}+{}:{}:{}", jmax + 3, if parity == 0 { "even" } else { "odd" }, if long_is_x { "long-x" } else { "long-y" });
            let built = if long_is_x {
                catch(|| Interp2DBuilder::new(by_x.view()).x(ndarray::Array1::from(x.clone())).y(ndarray::Array1::from(small.to_vec())).strategy(Bilinear::new()).build())
            } else {
                catch(|| Interp2DBuilder::new(by_y.view()).x(ndarray::Array1::from(small.to_vec())).y(ndarray::Array1::from(x.clone())).strategy(Bilinear::new()).build())
            };
            let ip = match built {
                Ok(Ok(ip)) => ip,
                other => {
                    out.violate(format!("{key}:build"), format!("valid input not accepted by build(): {:?}", other.map(|r| r.map(|_| ()))), Json::Null);
                    continue;
                }
            };
            out.states += 1;
            for &q in &qs {
                for s in [-1.0, -0.25, 0.5] {
                    let i = locate(q);
                    let (z11, z12, z21, z22) = (val(i, 0), val(i, 1), val(i + 1, 0), val(i + 1, 1));
                    let (exact, got) = if long_is_x {
                        (bilinear_ref(x[i], x[i + 1], small[0], small[1], z11, z12, z21, z22, q, s).0, catch(|| ip.interp(q, s)))
                    } else {
                        (bilinear_ref(small[0], small[1], x[i], x[i + 1], z11, z21, z12, z22, s, q).0, catch(|| ip.interp(s, q)))
                    };
                    out.evals += 1;
                    out.nontrivial += 1;
                    out.transitions += 1;
                    let m = z11.abs().max(z12.abs()).max(z21.abs()).max(z22.abs());
                    let bad = match &got {
                        Ok(Ok(v)) => {
                            let v = v.first().copied().unwrap_or(f64::NAN);
                            if err_dd(v, exact) <= 24.0 * f64::EPSILON * m {
                                None
                            } else {
                                Some(format!("returned {v:e}, the bilinear blend of the cell gives {:e}", exact.to_f64()))
                            }
                        }
                        other => Some(format!("in-range query not answered: {other:?}")),
                    };
                    if let Some(w) = bad {
                        out.violate(key.clone(), format!("Bilinear over a grid with a long axis of {n} knots (unit spacing, single knots moved by 0.25), long-axis coordinate {q}, other coordinate {s}: {w}"), Json::obj(vec![("n", Json::Int(n as i128)), ("q", Json::Num(q)), ("s", Json::Num(s))]));
                        break;
                    }
                }
            }
        }
    }
    out.outcome("huge:done");
    out.sample = Some(Json::obj(vec![("n", Json::Int(n as i128))]));
}

fn body(ctx: &Ctx) -> (Summary, Meta) {
    let mut jobs = vec![];
    for f32 in [false, true] {
        let e = if f32 { f32::EPSILON as f64 } else { f64::EPSILON };
        let axs = axes2d(ctx.quick(), e);
        for ax in &axs {
            for ay in &axs {
                jobs.push(Job {
                    ax: ax.clone(),
                    ay: ay.clone(),
                    explicit_x: true,
                    explicit_y: true,
                    f32,
                });
            }
        }
        // default index axes: both, x only, y only (non-square)
        for (nx, ny) in [(2usize, 2usize), (2, 3), (3, 2), (4, 3), (3, 5), (6, 2)] {
            let ax = Axis::new(format!("index{nx}"), (0..nx).map(|i| i as f64).collect());
            let ay = Axis::new(format!("index{ny}"), (0..ny).map(|i| i as f64).collect());
            jobs.push(Job { ax: ax.clone(), ay: ay.clone(), explicit_x: false, explicit_y: false, f32 });
            let wx = alpha::axis_from_word("w", -3.0, &vec![0.5; nx - 1]);
            let wy = alpha::axis_from_word("w", 1.25, &vec![2.0; ny - 1]);
            jobs.push(Job { ax: wx, ay: ay.clone(), explicit_x: true, explicit_y: false, f32 });
            jobs.push(Job { ax: ax.clone(), ay: wy, explicit_x: false, explicit_y: true, f32 });
        }
    }
    let njobs = jobs.len();
    // big inputs: (name, x, y, lanes, dense queries along x)
    let mut big: Vec<(String, Vec<f64>, Vec<f64>, usize, bool, bool)> = vec![];
    let lens: &[usize] = if ctx.quick() { &[70, 130, 400] } else { &[66, 70, 130, 257, 400, 1000, 3000] };
    for &n in lens {
        let sq: Vec<f64> = (0..n).map(|i| (i * i) as f64).collect();
        let cu: Vec<f64> = (0..n).map(|i| -(((n - i) * (n - i)) as f64)).collect();
        let geo: Vec<f64> = (0..n.min(48)).map(|i| 2.0f64.powi(i as i32)).collect();
        let small = vec![-1.0, 0.5, 2.0];
        for f32 in [false, true] {
            if f32 && n * n > (1 << 24) {
                continue;
            }
            big.push((format!("squares{n}x3"), sq.clone(), small.clone(), 3, true, f32));
            big.push((format!("3xsquares{n}"), small.clone(), sq.clone(), 3, false, f32));
            big.push((format!("negsquares{n}x3"), cu.clone(), small.clone(), 3, true, f32));
            big.push((format!("geometric{}x3", geo.len()), geo.clone(), small.clone(), 2, true, f32));
        }
    }
    for lanes in [32767usize, 32768, 70000] {
        for f32 in [false, true] {
            big.push((format!("3x2x{lanes}lanes"), vec![0.0, 1.0, 3.0], vec![-1.0, 1.0], lanes, false, f32));
        }
    }
    let mut sum = run_jobs(ctx, "bilinear-exact", &jobs, |j| j.key(), |j| {
        let mut out = JobOut::default();
        if j.f32 {
            run::<f32>(j, &mut out);
        } else {
            run::<f64>(j, &mut out);
        }
        out
    });
    sum.merge(run_jobs(ctx, "big-inputs", &big, |b| format!("{}:big:{}", if b.5 { "f32" } else { "f64" }, b.0), |b| {
        let mut out = JobOut::default();
        if b.5 {
            run_big::<f32>(&b.0, &b.1, &b.2, b.3, b.4, &mut out);
        } else {
            run_big::<f64>(&b.0, &b.1, &b.2, b.3, b.4, &mut out);
        }
        out
    }));
    sum.merge(run_jobs(ctx, "high-rank-dynamic-data", &[6usize, 10, 12, 15, 18, 24], |t| format!("high-rank:{t}-trailing-axes"), |t| {
        let mut out = JobOut::default();
        run_high_rank(*t, &mut out);
        out
    }));
    let huge: Vec<(u32, i64)> = if ctx.quick() { vec![(10, 6), (16, 6), (17, 6), (18, 6), (19, 6), (20, 6), (21, 6)] } else { vec![(8, 12), (10, 12), (12, 12), (14, 12), (16, 12), (17, 12), (18, 12), (19, 12), (20, 12), (21, 12), (22, 12), (23, 12), (24, 12)] };
    sum.merge(run_jobs(ctx, "huge-axes", &huge, |h| format!("huge:2^{}+{}", h.0, h.1 + 3), |h| {
        let mut out = JobOut::default();
        run_huge(h.0, h.1, &mut out);
        out
    }));
    let meta = Meta {
        rule: "every ordered pair (x-axis, y-axis) of the 2-D axis alphabet (so non-square grids occur in both orientations) + default index axes; data lanes: unit impulse at every node, 1, x, y, xy, generic table, generic*2^20, 24-bit mantissas, stored in 5 memory layouts; queries = product of the per-axis alphabets {knot, both float neighbours, quarter points}; 7 entry points (allocating with static rank 1/2/3 and dynamic queries, element-wise, and the two *_into forms on buffers that hold NaN beforehand); oracle = exact rational bilinear form of the cell found by two linear scans. Phase big-inputs: long uneven axes (squares, negated squares, powers of two; 66..3000 nodes) against a 3-node axis in both orientations with every knot / neighbour / quarter point of the long axis queried, and 3x2 grids with 32767 / 32768 / 70000 lanes. Phase high-rank-dynamic-data: IxDyn data with 6 .. 24 trailing axes, queries of rank 1, 2 and 4 (results of up to 28 axes), shape and every element checked. Phase huge-axes: axes of 2^k + few knots (k up to 21 quick / 24 thorough), unit spacing with single knots moved by a quarter so that the search after a missed position runs over exactly 2^k + j cells for every j = -3 .. 6 (12 thorough) from either end, as x and as y axis, queries in and around the cells next to each moved knot. Non-trivial = query strictly inside a cell whose corner values are not all equal.".into(),
        bounds: format!("{njobs} (type, grid) jobs; tier {}", ctx.tier.name()),
        assumptions: vec!["tolerance 24 eps max|z_corner| (three nested linear steps)".into()],
        extra: vec![],
    };
    (sum, meta)
}

fn main() {
    main_with("C04", body)
}
