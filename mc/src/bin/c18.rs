//! C18 - custom strategies get validated inputs, correct targets, faithful accessors.
use std::sync::{Arc, Mutex};

use ndarray::{
    Array1, ArrayBase, ArrayD, ArrayViewMut, Data, Dimension, Ix0, Ix1, Ix2, Ix3, IxDyn, RemoveAxis,
};
use ndarray_interp::interp1d::{Interp1D, Interp1DBuilder, Interp1DStrategy, Interp1DStrategyBuilder};
use ndarray_interp::interp2d::{Interp2D, Interp2DBuilder, Interp2DStrategy, Interp2DStrategyBuilder};
use ndarray_interp::{BuilderError, InterpolateError};
use nimc::{catch, main_with, run_jobs, Ctx, JobOut, Json, Meta, Summary};

#[derive(Debug, Clone, PartialEq)]
enum Event {
    Build { x: Vec<u64>, y: Vec<u64>, data_shape: Vec<usize> },
    Call { x: u64, y: u64, target_shape: Vec<usize> },
}

type Log = Arc<Mutex<Vec<Event>>>;

fn bits(v: f64) -> u64 {
    if v.is_nan() {
        u64::MAX
    } else {
        v.to_bits()
    }
}

#[derive(Debug)]
struct RecBuilder<const MIN: usize> {
    log: Log,
    fail_build: bool,
    fail_at: Option<usize>,
}

#[derive(Debug)]
struct RecStrat {
    log: Log,
    fail_at: Option<usize>,
    calls: Mutex<usize>,
}

// (leading / trailing white space and a line break: the text must reach the caller untouched)
const BUILD_MSG: &str = "  injected build failure 0xC18\n  second line \t\n";

impl<const MIN: usize, Sd, Sx, D> Interp1DStrategyBuilder<Sd, Sx, D> for RecBuilder<MIN>
where
    Sd: Data<Elem = f64>,
    Sx: Data<Elem = f64>,
    D: Dimension + RemoveAxis,
{
    const MINIMUM_DATA_LENGHT: usize = MIN;
    type FinishedStrat = RecStrat;
    fn build<Sx2>(self, x: &ArrayBase<Sx2, Ix1>, data: &ArrayBase<Sd, D>) -> Result<RecStrat, BuilderError>
    where
        Sx2: Data<Elem = f64>,
    {
        self.log.lock().unwrap().push(Event::Build { x: x.iter().map(|v| bits(*v)).collect(), y: vec![], data_shape: data.shape().to_vec() });
        if self.fail_build {
            return Err(BuilderError::ValueError(BUILD_MSG.to_string()));
        }
        Ok(RecStrat { log: self.log, fail_at: self.fail_at, calls: Mutex::new(0) })
    }
}

impl<Sd, Sx, D> Interp1DStrategy<Sd, Sx, D> for RecStrat
where
    Sd: Data<Elem = f64>,
    Sx: Data<Elem = f64>,
    D: Dimension + RemoveAxis,
{
    fn interp_into(&self, _ip: &Interp1D<Sd, Sx, D, Self>, mut target: ArrayViewMut<f64, D::Smaller>, x: f64) -> Result<(), InterpolateError> {
        let k = {
            let mut c = self.calls.lock().unwrap();
            *c += 1;
            *c - 1
        };
        self.log.lock().unwrap().push(Event::Call { x: bits(x), y: 0, target_shape: target.shape().to_vec() });
        target.fill(x);
        if self.fail_at == Some(k) {
            return Err(InterpolateError::OutOfBounds(format!(" injected failure at call {k}\n ")));
        }
        Ok(())
    }
}

impl<const MIN: usize, Sd, Sx, Sy, D> Interp2DStrategyBuilder<Sd, Sx, Sy, D> for RecBuilder<MIN>
where
    Sd: Data<Elem = f64>,
    Sx: Data<Elem = f64>,
    Sy: Data<Elem = f64>,
    D: Dimension + RemoveAxis,
    D::Smaller: RemoveAxis,
{
    const MINIMUM_DATA_LENGHT: usize = MIN;
    type FinishedStrat = RecStrat;
    fn build(self, x: &ArrayBase<Sx, Ix1>, y: &ArrayBase<Sy, Ix1>, data: &ArrayBase<Sd, D>) -> Result<RecStrat, BuilderError> {
        self.log.lock().unwrap().push(Event::Build {
            x: x.iter().map(|v| bits(*v)).collect(),
            y: y.iter().map(|v| bits(*v)).collect(),
            data_shape: data.shape().to_vec(),
        });
        if self.fail_build {
            return Err(BuilderError::ValueError(BUILD_MSG.to_string()));
        }
        Ok(RecStrat { log: self.log, fail_at: self.fail_at, calls: Mutex::new(0) })
    }
}

impl<Sd, Sx, Sy, D> Interp2DStrategy<Sd, Sx, Sy, D> for RecStrat
where
    Sd: Data<Elem = f64>,
    Sx: Data<Elem = f64>,
    Sy: Data<Elem = f64>,
    D: Dimension + RemoveAxis,
    D::Smaller: RemoveAxis,
{
    fn interp_into(
        &self,
        _ip: &Interp2D<Sd, Sx, Sy, D, Self>,
        mut target: ArrayViewMut<'_, f64, <D::Smaller as Dimension>::Smaller>,
        x: f64,
        y: f64,
    ) -> Result<(), InterpolateError> {
        let k = {
            let mut c = self.calls.lock().unwrap();
            *c += 1;
            *c - 1
        };
        self.log.lock().unwrap().push(Event::Call { x: bits(x), y: bits(y), target_shape: target.shape().to_vec() });
        target.fill(x + y);
        if self.fail_at == Some(k) {
            return Err(InterpolateError::OutOfBounds(format!(" injected failure at call {k}\n ")));
        }
        Ok(())
    }
}

// ------------------------------------------------------------------------------------------
// part 1: is build() of the strategy only invoked on validated input?

fn axis_patterns(m: usize) -> Vec<(String, Vec<f64>, bool)> {
    let inc: Vec<f64> = (0..m).map(|i| i as f64 * 0.5 - 1.0).collect();
    let mut v = vec![("increasing".to_string(), inc.clone(), m >= 2)];
    if m >= 2 {
        for p in 0..m - 1 {
            let mut t = inc.clone();
            t[p + 1] = t[p];
            v.push((format!("tie@{p}"), t, false));
            let mut s = inc.clone();
            s.swap(p, p + 1);
            v.push((format!("swap@{p}"), s, false));
        }
    }
    for p in 0..m {
        let mut t = inc.clone();
        t[p] = f64::NAN;
        v.push((format!("NaN@{p}"), t, false));
    }
    v
}

fn strictly_increasing(x: &[u64]) -> bool {
    x.len() >= 2 && x.windows(2).all(|w| f64::from_bits(w[0]) < f64::from_bits(w[1])) && x.iter().all(|&b| b != u64::MAX)
}

/// one builder experiment -> (outcome class, events)
fn build_1d<const MIN: usize, D: Dimension + RemoveAxis>(shape: &[usize], x: Option<Vec<f64>>, fail_build: bool) -> Option<(String, Vec<Event>)> {
    let data = ArrayD::from_elem(IxDyn(shape), 1.0).into_dimensionality::<D>().ok()?;
    let log: Log = Arc::new(Mutex::new(vec![]));
    let l2 = log.clone();
    let r = catch(move || {
        let b = Interp1DBuilder::new(data).strategy(RecBuilder::<MIN> { log: l2, fail_build, fail_at: None });
        match x {
            Some(x) => b.x(Array1::from(x)).build().map(|_| ()),
            None => b.build().map(|_| ()),
        }
    });
    let ev = log.lock().unwrap().clone();
    Some((
        match r {
            Ok(Ok(())) => "Ok".to_string(),
            Ok(Err(e)) => format!("Err:{e}"),
            Err(p) => format!("panic:{p}"),
        },
        ev,
    ))
}

fn build_2d<const MIN: usize, D>(shape: &[usize], x: Option<Vec<f64>>, y: Option<Vec<f64>>, fail_build: bool) -> Option<(String, Vec<Event>)>
where
    D: Dimension + RemoveAxis,
    D::Smaller: RemoveAxis,
{
    let data = ArrayD::from_elem(IxDyn(shape), 1.0).into_dimensionality::<D>().ok()?;
    let log: Log = Arc::new(Mutex::new(vec![]));
    let l2 = log.clone();
    let r = catch(move || {
        let b = Interp2DBuilder::new(data).strategy(RecBuilder::<MIN> { log: l2, fail_build, fail_at: None });
        match (x, y) {
            (Some(x), Some(y)) => b.x(Array1::from(x)).y(Array1::from(y)).build().map(|_| ()),
            (Some(x), None) => b.x(Array1::from(x)).build().map(|_| ()),
            (None, Some(y)) => b.y(Array1::from(y)).build().map(|_| ()),
            (None, None) => b.build().map(|_| ()),
        }
    });
    let ev = log.lock().unwrap().clone();
    Some((
        match r {
            Ok(Ok(())) => "Ok".to_string(),
            Ok(Err(e)) => format!("Err:{e}"),
            Err(p) => format!("panic:{p}"),
        },
        ev,
    ))
}

/// x and y are views into one allocation that start at the same element (a row and a column of
/// one table, or a forward and a reversed slice of one vector): the strategy builder must see
/// validated axes all the same
fn build_2d_alias<const MIN: usize>(m: usize, xok: bool, yok: bool, kind: usize) -> (String, Vec<Event>, String) {
    let seq = |ok: bool, i: usize| -> f64 { if ok { i as f64 } else { [0.0, 5.0, 1.0, 6.0, 2.0, 7.0][i] } };
    let log: Log = Arc::new(Mutex::new(vec![]));
    let l2 = log.clone();
    let data = ndarray::Array2::from_elem((m, m), 1.0);
    let (r, what) = if kind == 0 {
        // x = column 0, y = row 0 of one m x m table
        let mut table = ndarray::Array2::<f64>::from_elem((m, m), 100.0);
        for i in 0..m {
            table[[i, 0]] = seq(xok, i);
        }
        for j in 1..m {
            table[[0, j]] = seq(yok, j);
        }
        let (x, y) = (table.column(0), table.row(0));
        let what = format!("x = table.column(0) = {:?}, y = table.row(0) = {:?}", x.to_vec(), y.to_vec());
        (catch(|| Interp2DBuilder::new(data.view()).strategy(RecBuilder::<MIN> { log: l2, fail_build: false, fail_at: None }).x(x).y(y).build().map(|_| ())), what)
    } else {
        // x = v[m-1..] forwards, y = v[..m] backwards: both start at element m-1
        let mut v = vec![0.0; 2 * m - 1];
        for i in 0..m {
            v[m - 1 + i] = seq(xok, i);
        }
        for j in 1..m {
            v[m - 1 - j] = seq(yok, j);
        }
        let v = Array1::from(v);
        let x = v.slice(ndarray::s![m - 1..]);
        let y = v.slice(ndarray::s![..m;-1]);
        let what = format!("x = v[{}..] = {:?}, y = v[..{m};-1] = {:?}", m - 1, x.to_vec(), y.to_vec());
        (catch(|| Interp2DBuilder::new(data.view()).strategy(RecBuilder::<MIN> { log: l2, fail_build: false, fail_at: None }).x(x).y(y).build().map(|_| ())), what)
    };
    let ev = log.lock().unwrap().clone();
    (
        match r {
            Ok(Ok(())) => "Ok".to_string(),
            Ok(Err(e)) => format!("Err:{e}"),
            Err(p) => format!("panic:{p}"),
        },
        ev,
        what,
    )
}

fn judge_build(out: &mut JobOut, key: String, min: usize, two_d: bool, fail_build: bool, res: (String, Vec<Event>), case: Json) {
    let (outcome, ev) = res;
    out.evals += 1;
    out.transitions += 1;
    out.outcome(format!("build-invoked:{}:{}", !ev.is_empty(), outcome.split(':').next().unwrap_or("")));
    for e in &ev {
        let Event::Build { x, y, data_shape } = e else { continue };
        out.nontrivial += 1;
        let mut bad = vec![];
        if data_shape.len() < if two_d { 2 } else { 1 } {
            bad.push("the data has too few dimensions".to_string());
        } else {
            if !strictly_increasing(x) {
                bad.push("the x axis is not strictly increasing".to_string());
            }
            if x.len() != data_shape[0] {
                bad.push(format!("x has {} points, the data axis {}", x.len(), data_shape[0]));
            }
            if data_shape[0] < min {
                bad.push(format!("only {} points along axis 0, declared minimum {min}", data_shape[0]));
            }
            if two_d {
                if !strictly_increasing(y) {
                    bad.push("the y axis is not strictly increasing".to_string());
                }
                if y.len() != data_shape[1] {
                    bad.push(format!("y has {} points, the data axis {}", y.len(), data_shape[1]));
                }
                if data_shape[1] < min {
                    bad.push(format!("only {} points along axis 1, declared minimum {min}", data_shape[1]));
                }
            }
        }
        if !bad.is_empty() {
            out.violate(format!("{key}:invoked"), format!("the strategy builder (declared minimum {min}) was invoked although {}", bad.join("; ")), case.clone());
        }
    }
    if ev.len() > 1 {
        out.violate(format!("{key}:twice"), "the strategy builder was invoked more than once".to_string(), case.clone());
    }
    if fail_build && !ev.is_empty() && outcome != format!("Err:{BUILD_MSG}") {
        out.violate(format!("{key}:builderr"), format!("the strategy's build error did not reach the caller unchanged: {outcome}"), case.clone());
    }
    if outcome.starts_with("panic") {
        out.violate(format!("{key}:panic"), format!("building with a custom strategy panicked: {outcome}"), case);
    }
}

macro_rules! for_min {
    ($min:expr, $f:ident :: < $d:ty > ( $($a:expr),* )) => {
        match $min {
            0 => $f::<0, $d>($($a),*),
            1 => $f::<1, $d>($($a),*),
            2 => $f::<2, $d>($($a),*),
            3 => $f::<3, $d>($($a),*),
            _ => $f::<4, $d>($($a),*),
        }
    };
    ($min:expr, $f:ident ( $($a:expr),* )) => {
        match $min {
            0 => $f::<0>($($a),*),
            1 => $f::<1>($($a),*),
            2 => $f::<2>($($a),*),
            3 => $f::<3>($($a),*),
            _ => $f::<4>($($a),*),
        }
    };
}

fn part_build(min: usize, out: &mut JobOut) {
    // 1-D
    for (trailing, dynamic) in [(vec![], false), (vec![], true), (vec![2], false), (vec![2], true), (vec![1, 2], true), (vec![1, 2], false), (vec![3, 2], false)] {
        for n in 0..=min + 2 {
            let mut shape = vec![n];
            shape.extend_from_slice(&trailing);
            let mut axes: Vec<Option<(String, Vec<f64>, bool)>> = vec![None];
            for m in [n.wrapping_sub(1), n, n + 1] {
                if m <= 7 {
                    axes.extend(axis_patterns(m).into_iter().map(Some));
                }
            }
            for a in axes {
                for fail_build in [false, true] {
                    let x = a.as_ref().map(|a| a.1.clone());
                    let r = if dynamic {
                        for_min!(min, build_1d::<IxDyn>(&shape, x, fail_build))
                    } else {
                        match shape.len() {
                            1 => for_min!(min, build_1d::<Ix1>(&shape, x, fail_build)),
                            2 => for_min!(min, build_1d::<Ix2>(&shape, x, fail_build)),
                            _ => for_min!(min, build_1d::<Ix3>(&shape, x, fail_build)),
                        }
                    };
                    let Some(r) = r else { continue };
                    let key = format!("build1d:min{min}:{shape:?}{}:{}:{}", if dynamic { "dyn" } else { "" }, a.as_ref().map(|a| format!("{}/{}", a.0, a.1.len())).unwrap_or("default".into()), fail_build).replace(' ', "");
                    let case = Json::obj(vec![("declared_minimum", Json::Int(min as i128)), ("data_shape", Json::usizes(&shape)), ("dynamic", Json::Bool(dynamic)), ("axis", Json::str(&format!("{:?}", a.as_ref().map(|a| &a.1))))]);
                    judge_build(out, key, min, false, fail_build, r, case);
                }
            }
        }
    }
    // rank 0 dynamic
    for x in [None, Some(vec![0.0, 1.0, 2.0])] {
        if let Some(r) = for_min!(min, build_1d::<IxDyn>(&[], x.clone(), false)) {
            judge_build(out, format!("build1d:min{min}:rank0:{}", x.is_some()), min, false, false, r, Json::str("IxDyn rank 0 data"));
        }
    }
    // 2-D: x-factors x y-factors (smaller pattern set), non-square
    for (trailing, dynamic) in [(vec![], false), (vec![], true), (vec![2], false), (vec![2], true)] {
        for nx in 0..=min + 1 {
            for ny in 0..=min + 1 {
                let mut shape = vec![nx, ny];
                shape.extend_from_slice(&trailing);
                let opts = |n: usize| -> Vec<Option<(String, Vec<f64>, bool)>> {
                    let mut v: Vec<Option<(String, Vec<f64>, bool)>> = vec![None];
                    for m in [n.wrapping_sub(1), n, n + 1] {
                        if m <= 6 {
                            for p in axis_patterns(m) {
                                if m == n || p.0 == "increasing" {
                                    v.push(Some(p));
                                }
                            }
                        }
                    }
                    v
                };
                for ax in opts(nx) {
                    for ay in opts(ny) {
                        let (x, y) = (ax.as_ref().map(|a| a.1.clone()), ay.as_ref().map(|a| a.1.clone()));
                        let r = if dynamic {
                            for_min!(min, build_2d::<IxDyn>(&shape, x, y, false))
                        } else if shape.len() == 2 {
                            for_min!(min, build_2d::<Ix2>(&shape, x, y, false))
                        } else {
                            for_min!(min, build_2d::<Ix3>(&shape, x, y, false))
                        };
                        let Some(r) = r else { continue };
                        let nm = |a: &Option<(String, Vec<f64>, bool)>| a.as_ref().map(|a| format!("{}/{}", a.0, a.1.len())).unwrap_or("default".into());
                        let key = format!("build2d:min{min}:{shape:?}{}:x={}:y={}", if dynamic { "dyn" } else { "" }, nm(&ax), nm(&ay)).replace(' ', "");
                        let case = Json::obj(vec![("declared_minimum", Json::Int(min as i128)), ("data_shape", Json::usizes(&shape)), ("x", Json::str(&format!("{:?}", ax.as_ref().map(|a| &a.1)))), ("y", Json::str(&format!("{:?}", ay.as_ref().map(|a| &a.1))))]);
                        judge_build(out, key, min, true, false, r, case);
                    }
                }
            }
        }
    }
    // 2-D with axes that alias each other
    for m in 2..=5usize {
        for (xok, yok) in [(true, true), (true, false), (false, true), (false, false)] {
            for kind in 0..2 {
                let (o, ev, what) = for_min!(min, build_2d_alias(m, xok, yok, kind));
                judge_build(out, format!("build2d-alias:min{min}:m{m}:x{xok}:y{yok}:kind{kind}"), min, true, false, (o, ev), Json::str(&what));
            }
        }
    }
    for shape in [vec![], vec![3]] {
        if let Some(r) = for_min!(min, build_2d::<IxDyn>(&shape, None, None, false)) {
            judge_build(out, format!("build2d:min{min}:rank{}", shape.len()), min, true, false, r, Json::str("IxDyn data of rank < 2"));
        }
    }
}

/// A minimal recording builder for f32 data: remembers what its `build` was given.
struct Rec32 {
    seen: Arc<Mutex<Option<(usize, bool)>>>,
}
struct Rec32Strat;
impl<Sd, Sx, D> Interp1DStrategyBuilder<Sd, Sx, D> for Rec32
where
    Sd: Data<Elem = f32>,
    Sx: Data<Elem = f32>,
    D: Dimension + RemoveAxis,
{
    const MINIMUM_DATA_LENGHT: usize = 2;
    type FinishedStrat = Rec32Strat;
    fn build<Sx2>(self, x: &ArrayBase<Sx2, Ix1>, _data: &ArrayBase<Sd, D>) -> Result<Rec32Strat, BuilderError>
    where
        Sx2: Data<Elem = f32>,
    {
        let inc = x.iter().zip(x.iter().skip(1)).all(|(a, b)| a < b);
        *self.seen.lock().unwrap() = Some((x.len(), inc));
        Ok(Rec32Strat)
    }
}
impl<Sd, Sx, D> Interp1DStrategy<Sd, Sx, D> for Rec32Strat
where
    Sd: Data<Elem = f32>,
    Sx: Data<Elem = f32>,
    D: Dimension + RemoveAxis,
{
    fn interp_into(&self, _ip: &Interp1D<Sd, Sx, D, Self>, _target: ArrayViewMut<f32, D::Smaller>, _x: f32) -> Result<(), InterpolateError> {
        Ok(())
    }
}

/// the default index axis of 2^24 + 2 f32 values is not strictly increasing (2^24 + 1 rounds to
/// 2^24): the strategy builder must not be invoked with it
fn part_f32_long_default_axis(out: &mut JobOut) {
    let n = (1usize << 24) + 2;
    let seen = Arc::new(Mutex::new(None));
    let d = Array1::<f32>::zeros(n);
    let s2 = seen.clone();
    let r = catch(|| Interp1DBuilder::new(d.view()).strategy(Rec32 { seen: s2 }).build().map(|_| ()));
    out.evals += 1;
    out.nontrivial += 1;
    out.transitions += 1;
    let got = *seen.lock().unwrap();
    out.outcome(format!("f32-long-default-axis:invoked={}", got.is_some()));
    if let Some((len, inc)) = got {
        if !inc {
            out.violate(
                "build1d:f32:default-axis-2^24+2".to_string(),
                format!("the strategy builder was invoked with the default index axis of {len} f32 values, which is not strictly increasing (x[2^24] == x[2^24+1]); build() returned {:?}", r.as_ref().map(|r| r.as_ref().map_err(|e| e.to_string()))),
                Json::str("Interp1DBuilder::new(Array1::<f32>::zeros(2^24 + 2)).strategy(recorder).build()"),
            );
        }
    }
}

/// Recording builders for integer element types (signed and unsigned): every order pattern of a
/// short axis; the builder may only see strictly increasing axes and build() never panics.
macro_rules! rec_int {
    ($modname:ident, $t:ty) => {
        mod $modname {
            use super::*;
            pub struct Rec {
                pub seen: Arc<Mutex<Vec<(Vec<$t>, Vec<$t>)>>>,
            }
            pub struct Strat;
            impl<Sd, Sx, D> Interp1DStrategyBuilder<Sd, Sx, D> for Rec
            where
                Sd: Data<Elem = $t>,
                Sx: Data<Elem = $t>,
                D: Dimension + RemoveAxis,
            {
                const MINIMUM_DATA_LENGHT: usize = 2;
                type FinishedStrat = Strat;
                fn build<Sx2>(self, x: &ArrayBase<Sx2, Ix1>, _data: &ArrayBase<Sd, D>) -> Result<Strat, BuilderError>
                where
                    Sx2: Data<Elem = $t>,
                {
                    self.seen.lock().unwrap().push((x.to_vec(), vec![]));
                    Ok(Strat)
                }
            }
            impl<Sd, Sx, D> Interp1DStrategy<Sd, Sx, D> for Strat
            where
                Sd: Data<Elem = $t>,
                Sx: Data<Elem = $t>,
                D: Dimension + RemoveAxis,
            {
                fn interp_into(&self, _ip: &Interp1D<Sd, Sx, D, Self>, _target: ArrayViewMut<$t, D::Smaller>, _x: $t) -> Result<(), InterpolateError> {
                    Ok(())
                }
            }
            impl<Sd, Sx, Sy, D> Interp2DStrategyBuilder<Sd, Sx, Sy, D> for Rec
            where
                Sd: Data<Elem = $t>,
                Sx: Data<Elem = $t>,
                Sy: Data<Elem = $t>,
                D: Dimension + RemoveAxis,
                D::Smaller: RemoveAxis,
            {
                const MINIMUM_DATA_LENGHT: usize = 2;
                type FinishedStrat = Strat;
                fn build(self, x: &ArrayBase<Sx, Ix1>, y: &ArrayBase<Sy, Ix1>, _data: &ArrayBase<Sd, D>) -> Result<Strat, BuilderError> {
                    self.seen.lock().unwrap().push((x.to_vec(), y.to_vec()));
                    Ok(Strat)
                }
            }
            impl<Sd, Sx, Sy, D> Interp2DStrategy<Sd, Sx, Sy, D> for Strat
            where
                Sd: Data<Elem = $t>,
                Sx: Data<Elem = $t>,
                Sy: Data<Elem = $t>,
                D: Dimension + RemoveAxis,
                D::Smaller: RemoveAxis,
            {
                fn interp_into(&self, _ip: &Interp2D<Sd, Sx, Sy, D, Self>, _target: ArrayViewMut<'_, $t, <D::Smaller as Dimension>::Smaller>, _x: $t, _y: $t) -> Result<(), InterpolateError> {
                    Ok(())
                }
            }
            pub fn run(out: &mut JobOut) {
                let tn = stringify!($t);
                let base: [$t; 5] = [1, 3, 6, 10, 15];
                for n in 2..=5usize {
                    let inc: Vec<$t> = base[..n].to_vec();
                    let mut pats: Vec<(String, Vec<$t>)> = vec![("increasing".into(), inc.clone())];
                    for p in 0..n - 1 {
                        let mut t = inc.clone();
                        t[p + 1] = t[p];
                        pats.push((format!("tie@{p}"), t));
                        let mut d = inc.clone();
                        d.swap(p, p + 1);
                        pats.push((format!("swap@{p}"), d));
                    }
                    let mut dec = inc.clone();
                    dec.reverse();
                    pats.push(("decreasing".into(), dec));
                    let mut top = inc.clone();
                    top[n - 1] = <$t>::MAX;
                    top[0] = <$t>::MIN;
                    pats.push(("MIN..MAX".into(), top.clone()));
                    top.reverse();
                    pats.push(("MAX..MIN".into(), top));
                    for (name, x) in pats {
                        for form in 0..3 {
                            let seen = Arc::new(Mutex::new(vec![]));
                            let s2 = seen.clone();
                            let xa = Array1::from(x.clone());
                            let good = Array1::from(inc.clone());
                            let r = match form {
                                0 => catch(|| Interp1DBuilder::new(Array1::<$t>::from_elem(n, 1)).x(xa.clone()).strategy(Rec { seen: s2 }).build().map(|_| ())),
                                1 => catch(|| Interp2DBuilder::new(ndarray::Array2::<$t>::from_elem((n, n), 1)).x(xa.clone()).y(good.clone()).strategy(Rec { seen: s2 }).build().map(|_| ())),
                                _ => catch(|| Interp2DBuilder::new(ndarray::Array2::<$t>::from_elem((n, n), 1)).x(good.clone()).y(xa.clone()).strategy(Rec { seen: s2 }).build().map(|_| ())),
                            };
                            out.evals += 1;
                            out.transitions += 1;
                            out.nontrivial += 1;
                            let key = format!("build-int:{tn}:n{n}:{name}:form{form}");
                            let inc_ok = |v: &Vec<$t>| v.windows(2).all(|w| w[0] < w[1]);
                            for (sx, sy) in seen.lock().unwrap().iter() {
                                if !inc_ok(sx) || !inc_ok(sy) {
                                    out.violate(format!("{key}:invoked"), format!("the strategy builder was invoked with the {tn} axes {sx:?} / {sy:?}, which are not strictly increasing"), Json::str(&format!("{x:?}")));
                                }
                            }
                            out.outcome(format!("int-build:{}", match &r { Ok(Ok(())) => "Ok", Ok(Err(_)) => "Err", Err(_) => "panic" }));
                            if let Err(p) = &r {
                                out.violate(format!("{key}:panic"), format!("building with a custom strategy over the {tn} axis {x:?} panicked: {p}"), Json::str(&format!("{x:?}")));
                            }
                            if matches!(r, Ok(Ok(()))) != inc_ok(&x) {
                                out.violate(format!("{key}:verdict"), format!("build() over the {tn} axis {x:?} returned {:?}", r.as_ref().map(|r| r.as_ref().map_err(|e| e.to_string()))), Json::str(&format!("{x:?}")));
                            }
                        }
                    }
                }
            }
        }
    };
}
rec_int!(rec_u8, u8);
rec_int!(rec_u32, u32);
rec_int!(rec_u64, u64);
rec_int!(rec_i32, i32);
rec_int!(rec_i64, i64);

// A user strategy that itself uses the crate while it is being called: its interp_into first runs a
// batch (n-d and dynamic queries) on another interpolator, then records and fills its own target.
// The outer batch must be unaffected: same query values in order, targets of the right shape, every
// row of the result holding its own query value.
mod nesting {
    use super::*;
    pub type Inner = Interp1D<ndarray::OwnedRepr<f64>, ndarray::OwnedRepr<f64>, IxDyn, ndarray_interp::interp1d::Linear>;
    pub static INNER: std::sync::OnceLock<Inner> = std::sync::OnceLock::new();
    pub fn inner() -> &'static Inner {
        INNER.get_or_init(|| Interp1DBuilder::new(ArrayD::from_shape_fn(IxDyn(&[4, 3]), |ix| (ix[0] * 3 + ix[1]) as f64)).build().expect("inner interpolator"))
    }
    pub fn disturb() {
        let ip = inner();
        let q2 = ndarray::arr2(&[[0.5, 1.5, 2.5], [3.0, 0.0, 1.25]]);
        let _ = ip.interp_array(&q2).expect("inner 2-d batch");
        let qd = ArrayD::from_shape_vec(IxDyn(&[2, 1, 2]), vec![0.25, 2.75, 1.0, 2.0]).unwrap();
        let mut buf = ArrayD::from_elem(IxDyn(&[2, 1, 2, 3]), f64::NAN);
        ip.interp_array_into(&qd, buf.view_mut()).expect("inner dynamic batch");
        let q0 = ndarray::arr0(1.5);
        let _ = ip.interp_array(&q0).expect("inner 0-d batch");
    }
    #[derive(Debug)]
    pub struct Nest {
        pub log: Log,
    }
    impl<Sd, Sx, D> Interp1DStrategyBuilder<Sd, Sx, D> for Nest
    where
        Sd: Data<Elem = f64>,
        Sx: Data<Elem = f64>,
        D: Dimension + RemoveAxis,
    {
        const MINIMUM_DATA_LENGHT: usize = 2;
        type FinishedStrat = Nest;
        fn build<Sx2>(self, _x: &ArrayBase<Sx2, Ix1>, _data: &ArrayBase<Sd, D>) -> Result<Nest, BuilderError>
        where
            Sx2: Data<Elem = f64>,
        {
            Ok(self)
        }
    }
    impl<Sd, Sx, D> Interp1DStrategy<Sd, Sx, D> for Nest
    where
        Sd: Data<Elem = f64>,
        Sx: Data<Elem = f64>,
        D: Dimension + RemoveAxis,
    {
        fn interp_into(&self, _ip: &Interp1D<Sd, Sx, D, Self>, mut target: ArrayViewMut<f64, D::Smaller>, x: f64) -> Result<(), InterpolateError> {
            disturb();
            self.log.lock().unwrap().push(Event::Call { x: bits(x), y: 0, target_shape: target.shape().to_vec() });
            target.fill(x);
            Ok(())
        }
    }
    impl<Sd, Sx, Sy, D> Interp2DStrategyBuilder<Sd, Sx, Sy, D> for Nest
    where
        Sd: Data<Elem = f64>,
        Sx: Data<Elem = f64>,
        Sy: Data<Elem = f64>,
        D: Dimension + RemoveAxis,
        D::Smaller: RemoveAxis,
    {
        const MINIMUM_DATA_LENGHT: usize = 2;
        type FinishedStrat = Nest;
        fn build(self, _x: &ArrayBase<Sx, Ix1>, _y: &ArrayBase<Sy, Ix1>, _data: &ArrayBase<Sd, D>) -> Result<Nest, BuilderError> {
            Ok(self)
        }
    }
    impl<Sd, Sx, Sy, D> Interp2DStrategy<Sd, Sx, Sy, D> for Nest
    where
        Sd: Data<Elem = f64>,
        Sx: Data<Elem = f64>,
        Sy: Data<Elem = f64>,
        D: Dimension + RemoveAxis,
        D::Smaller: RemoveAxis,
    {
        fn interp_into(&self, _ip: &Interp2D<Sd, Sx, Sy, D, Self>, mut target: ArrayViewMut<'_, f64, <D::Smaller as Dimension>::Smaller>, x: f64, y: f64) -> Result<(), InterpolateError> {
            disturb();
            self.log.lock().unwrap().push(Event::Call { x: bits(x), y: bits(y), target_shape: target.shape().to_vec() });
            target.fill(x + y);
            Ok(())
        }
    }

    pub fn run(out: &mut JobOut) {
        for data_shape in [vec![3usize, 2], vec![3, 2, 3], vec![4, 2, 1, 2]] {
            for qshape in [vec![2usize, 2], vec![3], vec![2, 1, 2], vec![], vec![1, 2, 1, 2]] {
                let m: usize = qshape.iter().product();
                let qv: Vec<f64> = (0..m).map(|i| [0.5, 1.25, 0.0, 2.0, 1.0, 0.75, 1.5, 0.25][i % 8]).collect();
                let q = ArrayD::from_shape_vec(IxDyn(&qshape), qv.clone()).unwrap();
                let data = ArrayD::from_elem(IxDyn(&data_shape), 1.0);
                for two_d in [false, true] {
                    if two_d && data_shape.len() < 2 {
                        continue;
                    }
                    let k = if two_d { 2 } else { 1 };
                    let log: Log = Arc::new(Mutex::new(vec![]));
                    let key = format!("nested:{}:data{data_shape:?}:query{qshape:?}", if two_d { "2d" } else { "1d" }).replace(' ', "");
                    let res: Result<Result<ArrayD<f64>, InterpolateError>, String> = if two_d {
                        let ip = Interp2DBuilder::new(data.clone()).strategy(Nest { log: log.clone() }).build().expect("valid");
                        catch(|| ip.interp_array(&q, &q))
                    } else {
                        let ip = Interp1DBuilder::new(data.clone()).strategy(Nest { log: log.clone() }).build().expect("valid");
                        catch(|| ip.interp_array(&q))
                    };
                    out.evals += 1;
                    out.nontrivial += 1;
                    out.transitions += m as u64;
                    let ev = log.lock().unwrap().clone();
                    let want_target: Vec<usize> = data_shape[k..].to_vec();
                    let lane: usize = want_target.iter().product();
                    let mut bad: Option<String> = None;
                    let calls_ok = ev.len() == m && ev.iter().zip(&qv).all(|(e, &x)| matches!(e, Event::Call { x: ex, target_shape, .. } if *ex == bits(x) && *target_shape == want_target));
                    if !calls_ok {
                        bad = Some(format!("the strategy saw {:?}", ev.iter().take(6).collect::<Vec<_>>()));
                    }
                    match &res {
                        Ok(Ok(a)) => {
                            let mut ws = qshape.clone();
                            ws.extend_from_slice(&want_target);
                            if a.shape() != &ws[..] {
                                bad = Some(format!("result shape {:?}, expected {ws:?}", a.shape()));
                            } else {
                                for (e, &v) in a.iter().enumerate() {
                                    let want = qv[e / lane.max(1)] * if two_d { 2.0 } else { 1.0 };
                                    if v.to_bits() != want.to_bits() {
                                        bad = Some(format!("element {e} of the result is {v}, the strategy wrote {want} for that query"));
                                        break;
                                    }
                                }
                            }
                        }
                        other => bad = Some(format!("the outer batch failed: {:?}", other.as_ref().map(|r| r.as_ref().map(|_| ()).map_err(|e| e.to_string())))),
                    }
                    out.outcome(format!("nested:{}", if bad.is_none() { "unaffected" } else { "disturbed" }));
                    if let Some(b) = bad {
                        out.violate(key, format!("a strategy that runs batches on another interpolator inside its interp_into: data {data_shape:?}, query {qshape:?}: {b}"), Json::Null);
                    }
                }
            }
        }
    }
}

// ------------------------------------------------------------------------------------------
// part 2: what does interp_into of the strategy see? (every entry point, every fault index)

fn query_nd(shape: &[usize]) -> ArrayD<f64> {
    // consecutive equal values (also NaN, NaN and 0.0, -0.0): every one must reach the strategy
    let special = [0.5, 0.5, -3.25, f64::NAN, f64::NAN, 1e300, 0.0, -0.0, f64::INFINITY, 2.0, 2.0, 7.125];
    let mut i = 0;
    ArrayD::from_shape_fn(IxDyn(shape), |_| {
        i += 1;
        special[(i - 1) % special.len()]
    })
}

/// check a log of calls against the queries (in logical order) and the expected target shape
#[allow(clippy::too_many_arguments)]
fn judge_calls(out: &mut JobOut, key: &str, ev: &[Event], qx: &[f64], qy: Option<&[f64]>, target: &[usize], fail_at: Option<usize>, result: &str, case: &dyn Fn() -> Json) {
    out.evals += 1;
    out.nontrivial += 1;
    let calls: Vec<&Event> = ev.iter().filter(|e| matches!(e, Event::Call { .. })).collect();
    let expect_calls = match fail_at {
        Some(k) if k < qx.len() => k + 1,
        _ => qx.len(),
    };
    out.outcome(format!("calls:{}", if calls.len() == expect_calls { "as-expected" } else { "unexpected-count" }));
    if calls.len() != expect_calls {
        out.violate(format!("{key}:ncalls"), format!("the strategy was called {} times for {} queries (failure injected at {fail_at:?})", calls.len(), qx.len()), case());
        return;
    }
    for (i, c) in calls.iter().enumerate() {
        let Event::Call { x, y, target_shape } = c else { unreachable!() };
        if *x != bits(qx[i]) || qy.map(|q| *y != bits(q[i])).unwrap_or(false) {
            out.violate(format!("{key}:value"), format!("call {i} received x = {:e} (y = {:e}) instead of the unmodified query value {:e}", f64::from_bits(*x), f64::from_bits(*y), qx[i]), case());
            return;
        }
        if target_shape != target {
            out.violate(format!("{key}:target"), format!("call {i} received a target of shape {target_shape:?}, the data shape without the interpolated axes is {target:?}"), case());
            return;
        }
    }
    let want = match fail_at {
        Some(k) if k < qx.len() => format!("Err: injected failure at call {k}\n "),
        _ => "Ok".to_string(),
    };
    if result != want {
        out.violate(format!("{key}:result"), format!("the caller received {result}, expected {want}"), case());
    }
}

macro_rules! calls_1d {
    ($name:ident, $d:ty, $dq:ty) => {
        fn $name(data_shape: &[usize], qshape: &[usize], out: &mut JobOut) -> Option<()> {
            let data = ArrayD::from_elem(IxDyn(data_shape), 1.0).into_dimensionality::<$d>().ok()?;
            let q = query_nd(qshape).into_dimensionality::<$dq>().ok()?;
            let qv: Vec<f64> = q.iter().cloned().collect();
            let target: Vec<usize> = data_shape[1..].to_vec();
            let mut expected = qshape.to_vec();
            expected.extend_from_slice(&target);
            let key0 = format!("calls1d:{}x{}:data{data_shape:?}:query{qshape:?}", stringify!($d), stringify!($dq)).replace(' ', "");
            let case = || Json::obj(vec![("data_dim", Json::str(stringify!($d))), ("query_dim", Json::str(stringify!($dq))), ("data_shape", Json::usizes(data_shape)), ("query_shape", Json::usizes(qshape))]);
            let mut faults: Vec<Option<usize>> = vec![None];
            faults.extend((0..qv.len()).map(Some));
            for fail_at in faults {
                for call in ["interp_array", "interp_array_into", "interp", "interp_into"] {
                    let log: Log = Arc::new(Mutex::new(vec![]));
                    let ip = nimc::valid_build!(out, Interp1DBuilder::new(data.clone()).strategy(RecBuilder::<2> { log: log.clone(), fail_build: false, fail_at }).build(), continue);
                    let key = format!("{key0}:{call}:fail{fail_at:?}");
                    log.lock().unwrap().clear();
                    let res: Result<Result<(), InterpolateError>, String> = match call {
                        "interp_array" => catch(|| ip.interp_array(&q).map(|_| ())),
                        "interp_array_into" => {
                            let mut buf = ArrayD::from_elem(IxDyn(&expected), 0.0);
                            let w = buf.view_mut().into_dimensionality().expect("buffer rank");
                            catch(|| ip.interp_array_into(&q, w))
                        }
                        "interp" => catch(|| {
                            for &x in &qv {
                                ip.interp(x)?;
                            }
                            Ok(())
                        }),
                        _ => catch(|| {
                            for &x in &qv {
                                let mut buf = ArrayD::from_elem(IxDyn(&target), 0.0);
                                let w = buf.view_mut().into_dimensionality().expect("buffer rank");
                                ip.interp_into(x, w)?;
                            }
                            Ok(())
                        }),
                    };
                    out.transitions += 1;
                    let result = match &res {
                        Ok(Ok(())) => "Ok".to_string(),
                        Ok(Err(e)) => format!("Err:{e}"),
                        Err(p) => format!("panic:{p}"),
                    };
                    let ev = log.lock().unwrap().clone();
                    judge_calls(out, &key, &ev, &qv, None, &target, fail_at, &result, &case);
                }
            }
            out.states += 1;
            Some(())
        }
    };
}

macro_rules! calls_2d {
    ($name:ident, $d:ty, $dq:ty) => {
        fn $name(data_shape: &[usize], qshape: &[usize], out: &mut JobOut) -> Option<()> {
            let data = ArrayD::from_elem(IxDyn(data_shape), 1.0).into_dimensionality::<$d>().ok()?;
            let qx = query_nd(qshape).into_dimensionality::<$dq>().ok()?;
            let qy = query_nd(qshape).mapv(|v| v * 2.0 - 1.0).into_dimensionality::<$dq>().ok()?;
            let (qxv, qyv): (Vec<f64>, Vec<f64>) = (qx.iter().cloned().collect(), qy.iter().cloned().collect());
            let target: Vec<usize> = data_shape[2..].to_vec();
            let mut expected = qshape.to_vec();
            expected.extend_from_slice(&target);
            let key0 = format!("calls2d:{}x{}:data{data_shape:?}:query{qshape:?}", stringify!($d), stringify!($dq)).replace(' ', "");
            let case = || Json::obj(vec![("data_dim", Json::str(stringify!($d))), ("query_dim", Json::str(stringify!($dq))), ("data_shape", Json::usizes(data_shape)), ("query_shape", Json::usizes(qshape))]);
            let mut faults: Vec<Option<usize>> = vec![None];
            faults.extend((0..qxv.len()).map(Some));
            for fail_at in faults {
                for call in ["interp_array", "interp_array_into", "interp", "interp_into"] {
                    let log: Log = Arc::new(Mutex::new(vec![]));
                    let ip = nimc::valid_build!(out, Interp2DBuilder::new(data.clone()).strategy(RecBuilder::<2> { log: log.clone(), fail_build: false, fail_at }).build(), continue);
                    let key = format!("{key0}:{call}:fail{fail_at:?}");
                    log.lock().unwrap().clear();
                    let res: Result<Result<(), InterpolateError>, String> = match call {
                        "interp_array" => catch(|| ip.interp_array(&qx, &qy).map(|_| ())),
                        "interp_array_into" => {
                            let mut buf = ArrayD::from_elem(IxDyn(&expected), 0.0);
                            let w = buf.view_mut().into_dimensionality().expect("buffer rank");
                            catch(|| ip.interp_array_into(&qx, &qy, w))
                        }
                        "interp" => catch(|| {
                            for (&x, &y) in qxv.iter().zip(&qyv) {
                                ip.interp(x, y)?;
                            }
                            Ok(())
                        }),
                        _ => catch(|| {
                            for (&x, &y) in qxv.iter().zip(&qyv) {
                                let mut buf = ArrayD::from_elem(IxDyn(&target), 0.0);
                                let w = buf.view_mut().into_dimensionality().expect("buffer rank");
                                ip.interp_into(x, y, w)?;
                            }
                            Ok(())
                        }),
                    };
                    out.transitions += 1;
                    let result = match &res {
                        Ok(Ok(())) => "Ok".to_string(),
                        Ok(Err(e)) => format!("Err:{e}"),
                        Err(p) => format!("panic:{p}"),
                    };
                    let ev = log.lock().unwrap().clone();
                    judge_calls(out, &key, &ev, &qxv, Some(&qyv), &target, fail_at, &result, &case);
                }
            }
            out.states += 1;
            Some(())
        }
    };
}

calls_1d!(c1_1_0, Ix1, Ix0);
calls_1d!(c1_1_1, Ix1, Ix1);
calls_1d!(c1_1_2, Ix1, Ix2);
calls_1d!(c1_2_1, Ix2, Ix1);
calls_1d!(c1_2_2, Ix2, Ix2);
calls_1d!(c1_2_3, Ix2, Ix3);
calls_1d!(c1_3_1, Ix3, Ix1);
calls_1d!(c1_3_d, Ix3, IxDyn);
calls_1d!(c1_d_1, IxDyn, Ix1);
calls_1d!(c1_d_d, IxDyn, IxDyn);
calls_1d!(c1_d_2, IxDyn, Ix2);
calls_2d!(c2_2_0, Ix2, Ix0);
calls_2d!(c2_2_1, Ix2, Ix1);
calls_2d!(c2_3_1, Ix3, Ix1);
calls_2d!(c2_3_2, Ix3, Ix2);
calls_2d!(c2_d_1, IxDyn, Ix1);
calls_2d!(c2_d_d, IxDyn, IxDyn);
calls_2d!(c2_3_d, Ix3, IxDyn);

fn part_calls(out: &mut JobOut) {
    let d1: [&[usize]; 4] = [&[3], &[3, 2], &[3, 2, 1], &[3, 0]];
    let q: [&[usize]; 7] = [&[], &[3], &[1], &[2, 2], &[2, 1, 2], &[0], &[2, 0]];
    for ds in d1 {
        for qs in q {
            for f in [c1_1_0, c1_1_1, c1_1_2, c1_2_1, c1_2_2, c1_2_3, c1_3_1, c1_3_d, c1_d_1, c1_d_d, c1_d_2] {
                let _ = f(ds, qs, out);
            }
        }
    }
    let d2: [&[usize]; 3] = [&[3, 2], &[2, 3, 2], &[3, 2, 1, 2]];
    for ds in d2 {
        for qs in q {
            for f in [c2_2_0, c2_2_1, c2_3_1, c2_3_2, c2_d_1, c2_d_d, c2_3_d] {
                let _ = f(ds, qs, out);
            }
        }
    }
    // dynamic-rank data with many trailing axes (targets of 11 .. 20 axes, results of up to 23)
    for trailing in [11usize, 12, 13, 16, 17, 20] {
        let mut ds = vec![3usize];
        for k in 0..trailing {
            ds.push(if k == 0 || k + 1 == trailing { 2 } else { 1 });
        }
        for qs in q {
            for f in [c1_d_1, c1_d_d] {
                let _ = f(&ds, qs, out);
            }
        }
        let mut ds2 = vec![3usize, 2];
        ds2.extend_from_slice(&ds[1..]);
        for qs in q {
            for f in [c2_d_1, c2_d_d] {
                let _ = f(&ds2, qs, out);
            }
        }
    }
    // interp_scalar on 1-D / 2-D data
    let log: Log = Arc::new(Mutex::new(vec![]));
    let ip = Interp1DBuilder::new(Array1::from(vec![1.0, 2.0, 3.0])).strategy(RecBuilder::<2> { log: log.clone(), fail_build: false, fail_at: Some(1) }).build().unwrap();
    log.lock().unwrap().clear();
    let a = catch(|| ip.interp_scalar(-3.25)).map(|r| r.map_err(|e| e.to_string()));
    let b = catch(|| ip.interp_scalar(f64::NAN)).map(|r| r.map_err(|e| e.to_string()).map(|v| v.to_bits()));
    let ev = log.lock().unwrap().clone();
    out.evals += 1;
    let ok = a == Ok(Ok(-3.25))
        && b == Ok(Err(" injected failure at call 1\n ".to_string()))
        && ev == vec![Event::Call { x: bits(-3.25), y: 0, target_shape: vec![] }, Event::Call { x: bits(f64::NAN), y: 0, target_shape: vec![] }];
    if !ok {
        out.violate("calls1d:interp_scalar".to_string(), format!("interp_scalar: results {a:?} {b:?}, strategy saw {ev:?}"), Json::Null);
    }
    let log: Log = Arc::new(Mutex::new(vec![]));
    let ip = Interp2DBuilder::new(ndarray::Array2::from_elem((2, 3), 1.0)).strategy(RecBuilder::<2> { log: log.clone(), fail_build: false, fail_at: Some(0) }).build().unwrap();
    log.lock().unwrap().clear();
    let a = catch(|| ip.interp_scalar(0.5, 1e300)).map(|r| r.map_err(|e| e.to_string()));
    let ev = log.lock().unwrap().clone();
    out.evals += 1;
    if a != Ok(Err(" injected failure at call 0\n ".to_string())) || ev != vec![Event::Call { x: bits(0.5), y: bits(1e300), target_shape: vec![] }] {
        out.violate("calls2d:interp_scalar".to_string(), format!("interp_scalar: result {a:?}, strategy saw {ev:?}"), Json::Null);
    }
}

// ------------------------------------------------------------------------------------------
// part 3: accessors

fn part_accessors(out: &mut JobOut) {
    let axes: Vec<Vec<f64>> = vec![
        vec![0.0, 1.0],
        vec![-7.0, 0.0, 1.5],
        vec![1.0, 1.0 + f64::EPSILON, 1.0 + 2.0 * f64::EPSILON, 7.0],
        vec![-1048576.0, -3.0, -2.5, -0.5, 2.0],
        vec![-1e300, 0.0, 1e-300, 1e300],
    ];
    let probes = |x: &[f64]| -> Vec<f64> {
        let (a, b) = (x[0], x[x.len() - 1]);
        vec![a, b, a.next_down(), a.next_up(), b.next_down(), b.next_up(), (a + b) / 2.0, f64::NAN, f64::INFINITY, f64::NEG_INFINITY, f64::MAX, f64::MIN, 0.0, -0.0]
    };
    for x in &axes {
        let n = x.len();
        for trailing in [vec![], vec![2], vec![2, 3]] {
            let mut shape = vec![n];
            shape.extend_from_slice(&trailing);
            let mut c = 0.0;
            let data = ArrayD::from_shape_fn(IxDyn(&shape), |_| {
                c += 1.0;
                c * 0.5
            });
            let log: Log = Arc::new(Mutex::new(vec![]));
            let ip = nimc::valid_build!(out, Interp1DBuilder::new(data.clone()).x(Array1::from(x.clone())).strategy(RecBuilder::<2> { log, fail_build: false, fail_at: None }).build(), continue);
            for i in 0..n {
                let r = catch(|| {
                    let (xv, d) = ip.index_point(i);
                    (xv, d.to_owned())
                });
                out.evals += 1;
                out.nontrivial += 1;
                let want = data.index_axis(ndarray::Axis(0), i).to_owned();
                match r {
                    Ok((xv, d)) if xv.to_bits() == x[i].to_bits() && d == want => {}
                    other => out.violate(format!("access1d:index_point:{x:?}:{trailing:?}:{i}").replace(' ', ""), format!("index_point({i}) returned {other:?}, expected ({}, {want:?})", x[i]), Json::Null),
                }
            }
            for q in probes(x) {
                let got = catch(|| ip.is_in_range(q));
                let want = x[0] <= q && q <= x[n - 1];
                out.evals += 1;
                out.nontrivial += 1;
                out.outcome(format!("is_in_range:{want}"));
                if got != Ok(want) {
                    out.violate(format!("access1d:is_in_range:{x:?}:{q:e}").replace(' ', ""), format!("is_in_range({q:e}) = {got:?} on axis {x:?}, the closed-range test gives {want}"), Json::Null);
                }
            }
        }
    }
    // 2-D
    for x in &axes {
        for y in &axes[..3] {
            let (nx, ny) = (x.len(), y.len());
            let mut c = 0.0;
            let data = ArrayD::from_shape_fn(IxDyn(&[nx, ny, 2]), |_| {
                c += 1.0;
                c * 0.25
            });
            let log: Log = Arc::new(Mutex::new(vec![]));
            let ip = nimc::valid_build!(out, Interp2DBuilder::new(data.clone()).x(Array1::from(x.clone())).y(Array1::from(y.clone())).strategy(RecBuilder::<2> { log, fail_build: false, fail_at: None }).build(), continue);
            for i in 0..nx {
                for j in 0..ny {
                    let r = catch(|| {
                        let (xv, yv, d) = ip.index_point(i, j);
                        (xv, yv, d.to_owned())
                    });
                    out.evals += 1;
                    out.nontrivial += 1;
                    let want = data.index_axis(ndarray::Axis(0), i).index_axis(ndarray::Axis(0), j).to_owned();
                    match r {
                        Ok((xv, yv, d)) if xv.to_bits() == x[i].to_bits() && yv.to_bits() == y[j].to_bits() && d == want => {}
                        other => out.violate(format!("access2d:index_point:{i},{j}:{x:?}:{y:?}").replace(' ', ""), format!("index_point({i},{j}) returned {other:?}"), Json::Null),
                    }
                }
            }
            for q in probes(x) {
                let got = catch(|| ip.is_in_x_range(q));
                let want = x[0] <= q && q <= x[nx - 1];
                out.evals += 1;
                if got != Ok(want) {
                    out.violate(format!("access2d:is_in_x_range:{x:?}:{q:e}").replace(' ', ""), format!("is_in_x_range({q:e}) = {got:?}, closed-range test gives {want}"), Json::Null);
                }
            }
            for q in probes(y) {
                let got = catch(|| ip.is_in_y_range(q));
                let want = y[0] <= q && q <= y[ny - 1];
                out.evals += 1;
                if got != Ok(want) {
                    out.violate(format!("access2d:is_in_y_range:{y:?}:{q:e}").replace(' ', ""), format!("is_in_y_range({q:e}) = {got:?}, closed-range test gives {want}"), Json::Null);
                }
            }
        }
    }
}

fn body(ctx: &Ctx) -> (Summary, Meta) {
    #[derive(Clone, Copy, Debug)]
    enum Part {
        Build(usize),
        Calls,
        Access,
        F32Long,
        IntTypes,
    }
    let parts = [Part::Build(0), Part::Build(1), Part::Build(2), Part::Build(3), Part::Build(4), Part::Calls, Part::Access, Part::F32Long, Part::IntTypes];
    let sum = run_jobs(ctx, "custom-strategies", &parts, |p| format!("{p:?}"), |p| {
        let mut out = JobOut::default();
        match p {
            Part::Build(m) => part_build(*m, &mut out),
            Part::Calls => part_calls(&mut out),
            Part::Access => part_accessors(&mut out),
            Part::F32Long => part_f32_long_default_axis(&mut out),
            Part::IntTypes => {
                nesting::run(&mut out);
                rec_u8::run(&mut out);
                rec_u32::run(&mut out);
                rec_u64::run(&mut out);
                rec_i32::run(&mut out);
                rec_i64::run(&mut out);
            }
        }
        out.sample = Some(Json::str(&format!("{p:?}")));
        out
    });
    let _ = (Ix0::default(), ctx.quick());
    let meta = Meta {
        rule: "recording strategy builders with declared minimum 0..4 for Interp1D and Interp2D: (1) on the decision-table inputs (data ranks static/dynamic incl. rank 0, lengths 0..min+2, axis default / n-1 / n / n+1 with tie, swap, NaN at every position; 2-D x-factors x y-factors) the strategy's build may only be entered when axes are strictly increasing, have the data's length and the length reaches the declared minimum, and its error must reach the caller unchanged; (2) for 18 static/dynamic instantiations x data shapes x query shapes (ranks 0..3, empty; dynamic data with 11 .. 20 trailing axes) x {interp, interp_into, interp_array, interp_array_into, interp_scalar} the strategy must see exactly the query values (bit patterns incl. NaN, -0, inf, 1e300) in logical order with a target of shape data.shape[k..]; a failure is injected at every call index of every batch and must stop the batch and reach the caller verbatim; (3) index_point(i) for every i and is_in_range on the range-end alphabet; (4) the default index axis of 2^24+2 f32 values (not strictly increasing after the cast) must not reach the strategy builder; (6) a strategy whose interp_into itself runs n-d, dynamic and 0-d batches on another interpolator: the outer batch (1-D and 2-D, query ranks 0..4) still hands it every query in order with the right target and returns what it wrote; (5) u8 / u32 / u64 / i32 / i64 axes with every order pattern (tie / swap at every position, decreasing, MIN..MAX, MAX..MIN) as x of Interp1D and as x or y of Interp2D: the builder only sees strictly increasing axes, build() returns Ok iff the axis is, and never panics. Query batches contain consecutive equal values (incl. NaN, NaN and 0.0, -0.0). Non-trivial = a case in which the strategy is entered or an accessor is compared.".into(),
        bounds: format!("9 parts (5 declared minima + calls + accessors + long f32 default axis + integer types); tier {}", ctx.tier.name()),
        assumptions: vec!["queries are handed to the strategy in the logical order of the query array".into()],
        extra: vec![],
    };
    (sum, meta)
}

fn main() {
    main_with("C18", body)
}
