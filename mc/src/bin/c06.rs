//! C06 - extrapolation continues the end polynomial and never rejects a finite query.
use ndarray::{Array2, Array3, Ix2, OwnedRepr};
use ndarray_interp::interp1d::{Interp1D, Interp1DStrategy};
use nimc::alpha::{self, Axis, Lane};
use nimc::dd::DD;
use nimc::fl::{same_bits, vec_exact, Fl};
use nimc::rat::Rat;
use nimc::refm::{bilinear_ref, bracket_scan, chord_ref, err_dd, RefSpline};
use nimc::spl::{bc_configs_coarse as bc_configs, k_for};
use nimc::subj::{
    build_bilinear, build_linear, build_spline, call1d, call2d, lanes_matrix, BcSpec,
};
use nimc::{catch, main_with, run_jobs, Ctx, JobOut, Json, Meta, Summary};

#[derive(Clone)]
enum Kind {
    Linear,
    Spline(BcSpec),
    Bilinear(Axis),
}

#[derive(Clone)]
struct Job {
    ax: Axis,
    kind: Kind,
    f32: bool,
    /// extreme magnitudes (Linear only): axis x cx, data x cd as seen by the implementation
    cx: f64,
    cd: f64,
}
impl Job {
    fn key(&self) -> String {
        let t = if self.f32 { "f32" } else { "f64" };
        match &self.kind {
            Kind::Linear if self.cx != 1.0 || self.cd != 1.0 => format!("{t}:Linear:{}(axis*2^{},data*2^{})", self.ax.name, self.cx.log2(), self.cd.log2()),
            Kind::Linear => format!("{t}:Linear:{}", self.ax.name),
            Kind::Spline(s) => format!("{t}:Spline:{}:{}", self.ax.name, s.name()),
            Kind::Bilinear(ay) => format!("{t}:Bilinear:{}x{}", self.ax.name, ay.name),
        }
    }
}

/// outside queries (both sides) + a few inside ones; `(value, is_outside)`
fn out_queries<T: Fl>(x: &[T]) -> Vec<T> {
    let (x0, xn) = (x[0], x[x.len() - 1]);
    let p = xn - x0;
    let mut q = vec![x0.down(), xn.up(), x0.down().down(), xn.up().up()];
    for s in alpha::outside_steps() {
        let s = T::from_f64_lossy(s);
        q.push(x0 - p * s);
        q.push(xn + p * s);
    }
    q
}

fn in_queries<T: Fl>(x: &[T]) -> Vec<T> {
    let mut q = vec![];
    let four = T::from_f64_lossy(4.0);
    for i in 0..x.len() - 1 {
        let h = x[i + 1] - x[i];
        for k in 0..4 {
            let v = x[i] + h * (T::from_f64_lossy(k as f64) / four);
            if v >= x[i] && v <= x[i + 1] {
                q.push(v);
            }
        }
        q.push(x[i].up().min(x[i + 1]));
    }
    q.push(x[x.len() - 1]);
    q.push(x[x.len() - 1].down().max(x[0]));
    q
}

const CALLS_SHAPED: [(&str, bool); 6] = [
    ("interp", false),
    ("interp_into", false),
    ("interp_array/static", false),
    ("interp_array/static", true),
    ("interp_array/dyn", true),
    ("interp_array_into/static", true),
];

fn shape_for(q: usize, two_d: bool) -> Vec<usize> {
    if two_d && q % 2 == 0 {
        vec![q / 2, 2]
    } else if two_d {
        vec![q, 1]
    } else {
        vec![q]
    }
}

/// common 1-D part: (i) nothing rejected, (ii) in-range bit-identity with the twin,
/// (iii) outside values against `reference(q, lane) -> (value, tol)`
#[allow(clippy::too_many_arguments)]
fn probe1d<T: Fl, S>(
    ip_ex: &Interp1D<OwnedRepr<T>, OwnedRepr<T>, Ix2, S>,
    ip_no: &Interp1D<OwnedRepr<T>, OwnedRepr<T>, Ix2, S>,
    x: &[T],
    lanes: &[Lane],
    key: &str,
    reference: &dyn Fn(T, usize) -> (DD, f64),
    out: &mut JobOut,
    case: &dyn Fn(Vec<(&str, Json)>) -> Json,
) where
    S: Interp1DStrategy<OwnedRepr<T>, OwnedRepr<T>, Ix2> + Sync,
{
    let l = lanes.len();
    let qin = in_queries(x);
    let qout = out_queries(x);
    // (ii) in range: bit-identical to the non-extrapolating twin
    let a = call1d(ip_ex, &qin, &[qin.len()], l, "interp_array/static");
    let b = call1d(ip_no, &qin, &[qin.len()], l, "interp_array/static");
    out.transitions += 2;
    match (&a, &b) {
        (Ok(a), Ok(b)) => {
            let mut bad = None;
            for qi in 0..qin.len() {
                for j in 0..l {
                    out.evals += 1;
                    if !same_bits(a[[qi, j]], b[[qi, j]]) && bad.is_none() {
                        bad = Some((qi, j));
                    }
                }
            }
            if let Some((qi, j)) = bad {
                out.violate(
                    format!("{key}:inrange-bits"),
                    format!(
                        "in-range result differs between extrapolate(true) and extrapolate(false): q={:e} lane {}: {:e} vs {:e}",
                        Fl::to_f64(qin[qi]),
                        lanes[j].name,
                        Fl::to_f64(a[[qi, j]]),
                        Fl::to_f64(b[[qi, j]])
                    ),
                    case(vec![("query", Json::Num(Fl::to_f64(qin[qi]))), ("lane", Json::str(&lanes[j].name))]),
                );
            }
        }
        _ => out.violate(
            format!("{key}:inrange-call"),
            format!("in-range batch failed: extrapolating {:?} / plain {:?}", a.as_ref().err(), b.as_ref().err()),
            case(vec![]),
        ),
    }
    // (i) + (iii) outside
    let mut all = qout.clone();
    all.push(T::max_value());
    all.push(-T::max_value());
    for (call, two_d) in CALLS_SHAPED {
        let sh = shape_for(all.len(), two_d);
        let r = call1d(ip_ex, &all, &sh, l, call);
        out.transitions += 1;
        let label = format!("{call}{}", if two_d { "/2d-shape" } else { "" });
        match r {
            Err(f) => {
                out.outcome(format!("{label}:{}", f.class()));
                out.violate(
                    format!("{key}:{label}:rejected"),
                    format!("finite queries outside the range were not answered with extrapolate(true): {}", f.text()),
                    case(vec![("call", Json::str(&label)), ("queries", Json::Arr(all.iter().map(|v| Json::Num(Fl::to_f64(*v))).collect()))]),
                );
            }
            Ok(res) => {
                out.outcome(format!("{label}:Ok"));
                let mut reported = false;
                for (qi, &q) in qout.iter().enumerate() {
                    for (j, lane) in lanes.iter().enumerate() {
                        let (exact, tol) = reference(q, j);
                        let got = Fl::to_f64(res[[qi, j]]);
                        let err = err_dd(got, exact);
                        out.evals += 1;
                        out.nontrivial += 1;
                        if tol > 0.0 {
                            out.maximum("outside_err_over_tol", err / tol);
                        }
                        if !(err <= tol) && !reported {
                            reported = true;
                            out.violate(
                                format!("{key}:{label}:{}", lane.name),
                                format!(
                                    "extrapolated value at q={:e} is {got:e}, the continued end polynomial gives {:e} (err {err:e}, tol {tol:e})",
                                    Fl::to_f64(q),
                                    exact.to_f64()
                                ),
                                case(vec![
                                    ("call", Json::str(&label)),
                                    ("lane", Json::str(&lane.name)),
                                    ("data", Json::f64s(&lane.y)),
                                    ("query", Json::Num(Fl::to_f64(q))),
                                    ("expected", Json::Num(exact.to_f64())),
                                    ("observed", Json::Num(got)),
                                ]),
                            );
                        }
                    }
                }
            }
        }
    }
}

fn run1d<T: Fl>(job: &Job, out: &mut JobOut) {
    let axis = &job.ax;
    let Some(xt) = vec_exact::<T>(&axis.x) else {
        return;
    };
    let n = xt.len();
    let lanes: Vec<Lane> = alpha::lanes(&axis.x, n <= 8)
        .into_iter()
        .filter(|l| vec_exact::<T>(&l.y).is_some())
        .collect();
    let lt: Vec<Vec<T>> = lanes.iter().map(|l| vec_exact::<T>(&l.y).unwrap()).collect();
    let data: Array2<T> = lanes_matrix(&lt);
    let key = job.key();
    let case = |extra: Vec<(&str, Json)>| {
        let mut v = vec![
            ("type", Json::str(T::NAME)),
            ("x", Json::f64s(&axis.x)),
            ("config", Json::str(&key)),
        ];
        v.extend(extra);
        Json::obj(v)
    };
    match &job.kind {
        Kind::Linear => {
            let (cxt, cdt) = (T::from_f64_lossy(job.cx), T::from_f64_lossy(job.cd));
            let xs: Vec<T> = xt.iter().map(|&v| v * cxt).collect();
            let ds = data.mapv(|v| v * cdt);
            if xs.iter().chain(ds.iter()).any(|v| !v.is_finite()) {
                return;
            }
            let (a, b) = (
                catch(|| build_linear::<T, _>(Some(&xs), ds.clone(), true)),
                catch(|| build_linear::<T, _>(Some(&xs), ds.clone(), false)),
            );
            let (Ok(Ok(ex)), Ok(Ok(no))) = (a, b) else {
                out.violate(format!("{key}:build"), "build failed".to_string(), case(vec![]));
                return;
            };
            out.states += 2;
            let reference = |qs: T, j: usize| -> (DD, f64) {
                // back to the unscaled problem (exact: powers of two)
                let q = qs / cxt;
                let i = bracket_scan(&xt, q);
                let (y1, y2) = (lanes[j].y[i], lanes[j].y[i + 1]);
                let (v, _) = chord_ref(axis.x[i], y1, axis.x[i + 1], y2, Fl::to_f64(q));
                let t = ((Fl::to_f64(q) - axis.x[i]) / (axis.x[i + 1] - axis.x[i])).abs();
                let tol = 8.0 * T::EPS * y1.abs().max(y2.abs()).max(t * (y2 - y1).abs());
                (DD { hi: v.hi * job.cd, lo: v.lo * job.cd }, tol * job.cd)
            };
            probe1d(&ex, &no, &xs, &lanes, &key, &reference, out, &case);
        }
        Kind::Spline(spec) => {
            let (a, b) = (
                catch(|| build_spline::<T, _>(&xt, data.clone(), spec, true)),
                catch(|| build_spline::<T, _>(&xt, data.clone(), spec, false)),
            );
            let (Ok(Ok(ex)), Ok(Ok(no))) = (a, b) else {
                out.violate(format!("{key}:build"), "build failed".to_string(), case(vec![]));
                return;
            };
            out.states += 2;
            let xr = axis.rat();
            let refs: Vec<RefSpline> = lanes
                .iter()
                .enumerate()
                .map(|(j, l)| {
                    let yr: Vec<Rat> = l.y.iter().map(|&v| Rat::from_f64(v)).collect();
                    RefSpline::solve(&xr, &yr, spec.cond(j))
                })
                .collect();
            let scales: Vec<f64> = refs.iter().map(|r| r.scale().to_f64()).collect();
            let k = k_for(axis);
            let reference = |q: T, j: usize| -> (DD, f64) {
                let i = bracket_scan(&xt, q);
                let (v, _) = refs[j].eval_piece_ref(i, Fl::to_f64(q));
                let t = ((Fl::to_f64(q) - axis.x[i]) / (axis.x[i + 1] - axis.x[i])).abs().max(1.0);
                let tol = 16.0 * k * T::EPS * scales[j].max(v.to_f64().abs()) * t * t * t;
                (v, tol)
            };
            probe1d(&ex, &no, &xt, &lanes, &key, &reference, out, &case);
        }
        Kind::Bilinear(_) => unreachable!(),
    }
    if out.sample.is_none() {
        out.sample = Some(case(vec![
            ("outside_queries", Json::Arr(out_queries(&xt).iter().map(|v| Json::Num(Fl::to_f64(*v))).collect())),
            ("lanes", Json::Int(lanes.len() as i128)),
        ]));
    }
}

fn run2d<T: Fl>(job: &Job, out: &mut JobOut) {
    let Kind::Bilinear(ay) = &job.kind else {
        unreachable!()
    };
    let (Some(xt), Some(yt)) = (vec_exact::<T>(&job.ax.x), vec_exact::<T>(&ay.x)) else {
        return;
    };
    let (nx, ny) = (xt.len(), yt.len());
    let key = job.key();
    // lanes: impulses at the 4 corners of the grid + generic table + x*y-like table
    let gen = |i: usize, j: usize, k: usize| -> f64 {
        match k {
            0 => [1.0, -0.5, 2.0, 0.25, -3.0, 1.5, 0.875][(3 * i + 5 * j) % 7],
            1 => (i as f64 - 1.0) * (j as f64 + 0.5),
            2 => ((i == 0 && j == 0) as u8) as f64,
            3 => ((i == nx - 1 && j == ny - 1) as u8) as f64,
            4 => ((i == 0 && j == ny - 1) as u8) as f64,
            _ => ((i == nx - 1 && j == 0) as u8) as f64 * 1048576.0,
        }
    };
    let nl = 6;
    let data = Array3::from_shape_fn((nx, ny, nl), |(i, j, k)| T::from_f64_lossy(gen(i, j, k)));
    let case = |extra: Vec<(&str, Json)>| {
        let mut v = vec![
            ("type", Json::str(T::NAME)),
            ("x", Json::f64s(&job.ax.x)),
            ("y", Json::f64s(&ay.x)),
        ];
        v.extend(extra);
        Json::obj(v)
    };
    let (a, b) = (
        catch(|| build_bilinear::<T, _>(Some(&xt), Some(&yt), data.clone(), true)),
        catch(|| build_bilinear::<T, _>(Some(&xt), Some(&yt), data.clone(), false)),
    );
    let (Ok(Ok(ex)), Ok(Ok(no))) = (a, b) else {
        out.violate(format!("{key}:build"), "build failed".to_string(), case(vec![]));
        return;
    };
    out.states += 2;
    // in range bit identity
    let (ix, iy) = (in_queries(&xt), in_queries(&yt));
    let mut qx = vec![];
    let mut qy = vec![];
    for &a in &ix {
        for &b in &iy {
            qx.push(a);
            qy.push(b);
        }
    }
    let ra = call2d(&ex, &qx, &qy, &[qx.len()], nl, "interp_array/static");
    let rb = call2d(&no, &qx, &qy, &[qx.len()], nl, "interp_array/static");
    out.transitions += 2;
    match (&ra, &rb) {
        (Ok(a), Ok(b)) => {
            let bad = a.iter().zip(b.iter()).position(|(u, v)| !same_bits(*u, *v));
            out.evals += a.len() as u64;
            if let Some(p) = bad {
                out.violate(
                    format!("{key}:inrange-bits"),
                    format!("in-range result differs between extrapolate(true) and (false) at flat index {p}"),
                    case(vec![("qx", Json::Num(Fl::to_f64(qx[p / nl]))), ("qy", Json::Num(Fl::to_f64(qy[p / nl])))]),
                );
            }
        }
        _ => out.violate(format!("{key}:inrange-call"), "in-range batch failed".to_string(), case(vec![])),
    }
    // outside: x only, y only, both
    let (ox, oy) = (out_queries(&xt), out_queries(&yt));
    let mut qx = vec![];
    let mut qy = vec![];
    for &a in &ox {
        for &b in iy.iter().step_by(2) {
            qx.push(a);
            qy.push(b);
        }
        for &b in &oy {
            qx.push(a);
            qy.push(b);
        }
    }
    for &b in &oy {
        for &a in ix.iter().step_by(2) {
            qx.push(a);
            qy.push(b);
        }
    }
    let nq = qx.len();
    let mut allx = qx.clone();
    let mut ally = qy.clone();
    allx.extend([T::max_value(), -T::max_value(), xt[0]]);
    ally.extend([yt[0], yt[0], T::max_value()]);
    for (call, two_d) in CALLS_SHAPED {
        let sh = shape_for(allx.len(), two_d);
        let label = format!("{call}{}", if two_d { "/2d-shape" } else { "" });
        out.transitions += 1;
        match call2d(&ex, &allx, &ally, &sh, nl, call) {
            Err(f) => {
                out.outcome(format!("{label}:{}", f.class()));
                out.violate(
                    format!("{key}:{label}:rejected"),
                    format!("finite queries outside the grid were not answered with extrapolate(true): {}", f.text()),
                    case(vec![("call", Json::str(&label))]),
                );
            }
            Ok(res) => {
                out.outcome(format!("{label}:Ok"));
                let mut reported = false;
                for qi in 0..nq {
                    let (a, b) = (qx[qi], qy[qi]);
                    let (i, j) = (bracket_scan(&xt, a), bracket_scan(&yt, b));
                    for k in 0..nl {
                        let z = |ii: usize, jj: usize| gen(ii, jj, k);
                        let (z11, z12, z21, z22) = (z(i, j), z(i, j + 1), z(i + 1, j), z(i + 1, j + 1));
                        let (exact, _) = bilinear_ref(
                            job.ax.x[i], job.ax.x[i + 1], ay.x[j], ay.x[j + 1], z11, z12, z21, z22,
                            Fl::to_f64(a), Fl::to_f64(b),
                        );
                        let tx = ((Fl::to_f64(a) - job.ax.x[i]) / (job.ax.x[i + 1] - job.ax.x[i])).abs();
                        let ty = ((Fl::to_f64(b) - ay.x[j]) / (ay.x[j + 1] - ay.x[j])).abs();
                        let m = z11.abs().max(z12.abs()).max(z21.abs()).max(z22.abs());
                        let tol = 24.0 * T::EPS * m * (1.0 + tx) * (1.0 + ty);
                        let got = Fl::to_f64(res[[qi, k]]);
                        let err = err_dd(got, exact);
                        out.evals += 1;
                        out.nontrivial += 1;
                        if tol > 0.0 {
                            out.maximum("outside_err_over_tol", err / tol);
                        }
                        if !(err <= tol) && !reported {
                            reported = true;
                            out.violate(
                                format!("{key}:{label}:lane{k}"),
                                format!(
                                    "extrapolated value at ({:e},{:e}) is {got:e}, the border cell's bilinear form gives {:e} (err {err:e}, tol {tol:e})",
                                    Fl::to_f64(a), Fl::to_f64(b), exact.to_f64()
                                ),
                                case(vec![
                                    ("call", Json::str(&label)),
                                    ("lane", Json::Int(k as i128)),
                                    ("qx", Json::Num(Fl::to_f64(a))),
                                    ("qy", Json::Num(Fl::to_f64(b))),
                                    ("expected", Json::Num(exact.to_f64())),
                                    ("observed", Json::Num(got)),
                                ]),
                            );
                        }
                    }
                }
            }
        }
    }
    if out.sample.is_none() {
        out.sample = Some(case(vec![("outside_query_pairs", Json::Int(nq as i128))]));
    }
}

/// A query that makes the call panic (NaN with extrapolation; a wrongly shaped buffer) is caught by
/// the caller, who goes on using the interpolator: every finite query must still be answered, with the
/// same bits as before.
fn after_a_caught_panic(out: &mut JobOut) {
    use ndarray::{Array1, Array2};
    use ndarray_interp::interp1d::cubic_spline::CubicSpline;
    use ndarray_interp::interp1d::{Interp1DBuilder, Linear};
    use ndarray_interp::interp2d::{Bilinear, Interp2DBuilder};
    let x = Array1::from(vec![-2.0, -1.25, 0.5, 1.0, 3.5]);
    let d = Array2::from_shape_fn((5, 2), |(i, j)| ((i * 3 + j * 5) as f64 * 0.37).sin() + 0.25 * i as f64);
    let qs = [-9.0, -2.0, -1.3, 0.0, 3.5, 3.6, 40.0];
    macro_rules! one_d {
        ($name:expr, $ip:expr) => {{
            let ip = $ip;
            out.states += 1;
            macro_rules! obs {
                () => {
                    qs.iter().map(|&q| format!("{:?}", catch(|| ip.interp(q)).map(|r| r.map(|a| a.iter().map(|v| v.to_bits()).collect::<Vec<_>>()).map_err(|e| e.to_string())))).collect::<Vec<String>>()
                };
            }
            let before = obs!();
            let p1 = catch(|| ip.interp(f64::NAN)).is_err();
            let mut small = Array1::<f64>::zeros(1);
            let p2 = catch(|| ip.interp_into(0.0, small.view_mut())).is_err();
            let p3 = catch(|| ip.interp_array(&Array1::from(vec![0.0, f64::NAN, 1.0]))).is_err();
            let after = obs!();
            out.evals += qs.len() as u64;
            out.nontrivial += qs.len() as u64;
            out.transitions += 3;
            out.outcome(format!("after-panic:{}:{}", p1 || p2 || p3, before == after));
            if before != after || before.iter().any(|b| !b.starts_with("Ok(Ok")) {
                let k = before.iter().zip(&after).position(|(a, b)| a != b || !a.starts_with("Ok(Ok")).unwrap_or(0);
                out.violate(
                    format!("after-panic:{}", $name).replace(' ', ""),
                    format!("{}: after a caught panic (NaN query: {p1}, short buffer: {p2}, NaN in a batch: {p3}) q = {} is answered with {}, before with {}", $name, qs[k], after[k], before[k]),
                    Json::str($name),
                );
            }
        }};
    }
    one_d!("Linear+extrapolate", Interp1DBuilder::new(d.clone()).x(x.clone()).strategy(Linear::new().extrapolate(true)).build().unwrap());
    one_d!("CubicSpline+extrapolate", Interp1DBuilder::new(d.clone()).x(x.clone()).strategy(CubicSpline::new().extrapolate(true)).build().unwrap());
    {
        let y = Array1::from(vec![0.0, 1.0, 4.0]);
        let z = Array2::from_shape_fn((5, 3), |(i, j)| (i * 3 + j) as f64 * 0.375 - 2.0);
        let ip = Interp2DBuilder::new(z).x(x.clone()).y(y).strategy(Bilinear::new().extrapolate(true)).build().unwrap();
        out.states += 1;
        macro_rules! obs {
            () => {
                qs.iter().map(|&q| format!("{:?}", catch(|| ip.interp_scalar(q, q * 0.5)).map(|r| r.map(|v| v.to_bits()).map_err(|e| e.to_string())))).collect::<Vec<String>>()
            };
        }
        let before = obs!();
        let p1 = catch(|| ip.interp_scalar(f64::NAN, 1.0)).is_err();
        let p2 = catch(|| ip.interp_scalar(1.0, f64::NAN)).is_err();
        let mut big = Array1::<f64>::zeros(3);
        let p3 = catch(|| ip.interp_array_into(&Array1::from(vec![0.0, 1.0]), &Array1::from(vec![0.0, 1.0]), big.view_mut())).is_err();
        let after = obs!();
        out.evals += qs.len() as u64;
        out.nontrivial += qs.len() as u64;
        if before != after || before.iter().any(|b| !b.starts_with("Ok(Ok")) {
            let k = before.iter().zip(&after).position(|(a, b)| a != b || !a.starts_with("Ok(Ok")).unwrap_or(0);
            out.violate("after-panic:Bilinear+extrapolate".to_string(), format!("Bilinear+extrapolate: after a caught panic (NaN x: {p1}, NaN y: {p2}, long buffer: {p3}) q = {} is answered with {}, before with {}", qs[k], after[k], before[k]), Json::Null);
        }
    }
}

/// After a long history of in-range queries on a strongly uneven axis (every lookup misses the
/// even-spacing guess; 70000 queries, one by one and in batches) the extrapolated answers are still
/// those of a fresh interpolator.
fn after_a_long_history(out: &mut JobOut) {
    use ndarray::{Array1, Array2};
    use ndarray_interp::interp1d::cubic_spline::CubicSpline;
    use ndarray_interp::interp1d::{Interp1DBuilder, Linear};
    use ndarray_interp::interp2d::{Bilinear, Interp2DBuilder};
    let x: Vec<f64> = (0..12).map(|i| 1.5f64.powi(i) - 3.0).collect();
    let n = x.len();
    let xa = Array1::from(x.clone());
    let d = Array2::from_shape_fn((n, 2), |(i, j)| ((i * 3 + j * 5) as f64 * 0.37).sin() + 0.25 * i as f64);
    // (segments 3..6 only: there the position computed from the end points is always wrong, so not a
    // single lookup of the history is a "hit")
    let inside = |k: usize| -> f64 { let i = 3 + k % 4; x[i] + (0.1 + 0.8 * ((k * 7) % 10) as f64 / 10.0) * (x[i + 1] - x[i]) };
    let probes = [x[0] - 0.001, x[0] - 1.0, x[0] - 1e6, x[n - 1] + 0.001, x[n - 1] + 50.0, x[n - 1] + 1e9, x[0], x[n - 1], inside(3), inside(10)];
    macro_rules! one_d {
        ($name:expr, $mk:expr) => {{
            let fresh = $mk;
            let used = $mk;
            out.states += 2;
            for k in 0..35_000usize {
                let _ = used.interp(inside(k));
            }
            let batch: Array1<f64> = (0..35_000usize).map(inside).collect();
            let _ = used.interp_array(&batch);
            out.transitions += 70_000;
            for &q in &probes {
                let (a, b) = (catch(|| used.interp(q)), catch(|| fresh.interp(q)));
                out.evals += 1;
                out.nontrivial += 1;
                let same = matches!((&a, &b), (Ok(Ok(u)), Ok(Ok(v))) if u.iter().zip(v.iter()).all(|(s, t)| s.to_bits() == t.to_bits()));
                out.outcome(if same { "long-history:same" } else { "long-history:differs" });
                if !same {
                    out.violate(format!("long-history:{}:{q}", $name), format!("{}: after 70000 in-range queries q = {q} is answered with {:?}, by a fresh interpolator with {:?}", $name, a.map(|r| r.map(|v| v.to_vec())), b.map(|r| r.map(|v| v.to_vec()))), Json::str($name));
                }
            }
        }};
    }
    one_d!("Linear+extrapolate", Interp1DBuilder::new(d.clone()).x(xa.clone()).strategy(Linear::new().extrapolate(true)).build().unwrap());
    one_d!("CubicSpline+extrapolate", Interp1DBuilder::new(d.clone()).x(xa.clone()).strategy(CubicSpline::new().extrapolate(true)).build().unwrap());
    {
        let z = Array2::from_shape_fn((n, n), |(i, j)| ((i * n + j) as f64 * 0.37).sin() * 3.0);
        let mk = || Interp2DBuilder::new(z.clone()).x(xa.clone()).y(xa.clone()).strategy(Bilinear::new().extrapolate(true)).build().unwrap();
        let (fresh, used) = (mk(), mk());
        for k in 0..35_000usize {
            let _ = used.interp_scalar(inside(k), inside(k + 5));
        }
        let (bx, by): (Array1<f64>, Array1<f64>) = ((0..35_000usize).map(inside).collect(), (0..35_000usize).map(|k| inside(k + 3)).collect());
        let _ = used.interp_array(&bx, &by);
        for &qx in &probes {
            for &qy in &probes[..4] {
                let (a, b) = (catch(|| used.interp_scalar(qx, qy)), catch(|| fresh.interp_scalar(qx, qy)));
                out.evals += 1;
                out.nontrivial += 1;
                let same = matches!((&a, &b), (Ok(Ok(u)), Ok(Ok(v))) if u.to_bits() == v.to_bits());
                if !same {
                    out.violate(format!("long-history:Bilinear:{qx},{qy}"), format!("Bilinear+extrapolate: after 70000 in-range queries ({qx}, {qy}) is answered with {a:?}, by a fresh interpolator with {b:?}"), Json::Null);
                }
            }
        }
    }
}

/// Far field. Farther outside than 1/epsilon end-interval widths the value of the *exact* end cubic
/// says nothing any more (an error of one ulp in a stored coefficient is multiplied by t^3), so the
/// reference of the main phase is vacuous there. What the property still demands is that the result
/// is the *stored* end piece evaluated at the query, up to the rounding of that evaluation. The stored
/// coefficients are read from the `Debug` text of the interpolator (both types derive `Debug`); a
/// text that cannot be parsed makes the case a skipped one, never a violation. For every axis, end
/// condition, lane (lines, a parabola, a wavy lane), side and distance 2^k widths:
/// |observed - piece(t)| <= 64 eps * (sum of the magnitudes of the terms of the piece).
fn far_field(out: &mut JobOut) {
    use ndarray::Array1;
    use ndarray_interp::interp1d::cubic_spline::{BoundaryCondition, CubicSpline};
    use ndarray_interp::interp1d::Interp1DBuilder;
    fn floats_after<'a>(dbg: &'a str, field: &str, parse: &dyn Fn(&str) -> Option<f64>) -> Option<(Vec<f64>, &'a str)> {
        let start = dbg.find(field)? + field.len();
        let rest = &dbg[start..];
        let end = rest.find("shape=")?;
        let body = &rest[..end];
        if body.contains("...") {
            return None;
        }
        let mut v = vec![];
        for tok in body.split(|c: char| c == '[' || c == ']' || c == ',' || c.is_whitespace()) {
            if !tok.is_empty() {
                v.push(parse(tok)?);
            }
        }
        Some((v, &rest[end..]))
    }
    let axes: Vec<Vec<f64>> = vec![vec![0.0, 1.0, 2.0, 3.0, 4.0], vec![-3.0, -1.0, 0.0, 4.0], vec![0.5, 1.0, 3.0], vec![-6.0, -5.0, -4.5, -4.25, -4.0, -2.0]];
    let lanes: Vec<(&str, Box<dyn Fn(usize, f64) -> f64>)> = vec![
        ("2x+1", Box::new(|_, x| 2.0 * x + 1.0)),
        ("-3x+0.5", Box::new(|_, x| -3.0 * x + 0.5)),
        ("x/2-4", Box::new(|_, x| 0.5 * x - 4.0)),
        ("7", Box::new(|_, _| 7.0)),
        ("x^2-x", Box::new(|_, x| x * x - x)),
        ("wavy", Box::new(|i, _| ((i * 3) % 5) as f64 - 1.5)),
    ];
    macro_rules! run {
        ($t:ty, $name:expr, $ks:expr) => {{
            let eps = <$t>::EPSILON as f64;
            let parse = |s: &str| s.parse::<$t>().ok().map(|v| v as f64);
            for ax in &axes {
                let n = ax.len();
                let x: Array1<$t> = ax.iter().map(|&v| v as $t).collect();
                for (lname, lane) in &lanes {
                    let y: Array1<$t> = ax.iter().enumerate().map(|(i, &v)| lane(i, v) as $t).collect();
                    for (bname, bc) in [("NotAKnot", BoundaryCondition::NotAKnot), ("Natural", BoundaryCondition::Natural), ("Clamped", BoundaryCondition::Clamped)] {
                        let Ok(Ok(ip)) = catch(|| Interp1DBuilder::new(y.clone()).x(x.clone()).strategy(CubicSpline::new().extrapolate(true).boundary(bc)).build()) else {
                            out.violate(format!("far:{}:{ax:?}:{lname}:{bname}:build", $name), "build failed".to_string(), Json::Null);
                            continue;
                        };
                        out.states += 1;
                        let text = format!("{ip:?}");
                        let coeffs = floats_after(&text, "CubicSplineStrategy { a: ", &parse).and_then(|(a, rest)| floats_after(rest, ", b: ", &parse).map(|(b, _)| (a, b)));
                        let Some((a, b)) = coeffs.filter(|(a, b)| a.len() == n - 1 && b.len() == n - 1) else {
                            out.outcome("far:stored piece not readable (skipped)");
                            continue;
                        };
                        for right in [false, true] {
                            let i = if right { n - 2 } else { 0 };
                            let (xl, xr) = (x[i], x[i + 1]);
                            let h = xr - xl;
                            for &k in $ks.iter() {
                                let step = h * (2.0 as $t).powi(k);
                                let q: $t = if right { xr + step } else { xl - step };
                                if !q.is_finite() {
                                    continue;
                                }
                                out.transitions += 1;
                                let t = (q as f64 - xl as f64) / (xr as f64 - xl as f64);
                                let (yl, yr) = (y[i] as f64, y[i + 1] as f64);
                                let expected = (1.0 - t) * yl + t * yr + t * (1.0 - t) * (a[i] * (1.0 - t) + b[i] * t);
                                let mag = ((1.0 - t) * yl).abs() + (t * yr).abs() + (t * (1.0 - t)).abs() * ((a[i] * (1.0 - t)).abs() + (b[i] * t).abs());
                                let tol = 64.0 * eps * mag;
                                if !(mag.is_finite() && mag < <$t>::MAX as f64 / 4.0) {
                                    continue;
                                }
                                out.evals += 1;
                                let sharp = tol <= 0.01 * expected.abs();
                                if sharp {
                                    out.nontrivial += 1;
                                }
                                let got = catch(|| ip.interp_scalar(q));
                                let ok = matches!(&got, Ok(Ok(v)) if ((*v as f64) - expected).abs() <= tol);
                                out.outcome(if ok { if sharp { "far:equal to the stored piece (sharp)" } else { "far:within the rounding of the stored piece" } } else { "far:differs" });
                                if !ok {
                                    out.violate(
                                        format!("far:{}:{ax:?}:{lname}:{bname}:{right}:{k}", $name),
                                        format!("{} CubicSpline({bname})+extrapolate, data {lname} on {ax:?}: q = {q:e} ({} 2^{k} end-interval widths outside) is answered with {:?}; the stored end piece (a = {:e}, b = {:e}) evaluated there gives {expected:e} (tol {tol:e})", $name, if right { "right," } else { "left," }, got.map(|r| r.map(|v| v as f64).map_err(|e| e.to_string())), a[i], b[i]),
                                        Json::obj(vec![("type", Json::str($name)), ("x", Json::f64s(ax)), ("lane", Json::str(lname)), ("boundary", Json::str(bname)), ("query", Json::Num(q as f64)), ("expected", Json::Num(expected))]),
                                    );
                                }
                            }
                        }
                    }
                }
            }
        }};
    }
    run!(f64, "f64", [10, 40, 52, 53, 55, 60, 80, 100, 200]);
    run!(f32, "f32", [10, 20, 23, 24, 26, 30, 36]);
}

/// Integer element types: Linear / Bilinear with extrapolate(true) on i32 / i64 axes (left of zero,
/// right of zero, across zero, starting at zero). The data have whole-numbered slopes per interval,
/// so the end line evaluated at any whole-numbered query is exact whatever the order of operations.
/// Every whole number within 30 of the range on either side, in range: equal to extrapolate(false).
fn integer_axes(out: &mut JobOut) {
    use ndarray::{Array1, Array2};
    use ndarray_interp::interp1d::{Interp1DBuilder, Linear};
    use ndarray_interp::interp2d::{Bilinear, Interp2DBuilder};
    macro_rules! run {
        ($t:ty, $name:expr) => {{
            let axes: Vec<Vec<i64>> = vec![vec![10, 20, 40], vec![-40, -20, -10], vec![3, 4, 9, 10], vec![-5, 5, 6], vec![0, 2, 3], vec![1, 2], vec![-7, -6, -2, -1], vec![100, 101, 103, 106, 110]];
            let slopes: [i64; 6] = [3, -2, 5, 1, -4, 2];
            for ax in &axes {
                let n = ax.len();
                let mut y: Vec<i64> = vec![7];
                for i in 1..n {
                    y.push(y[i - 1] + slopes[(i - 1) % 6] * (ax[i] - ax[i - 1]));
                }
                let x: Array1<$t> = ax.iter().map(|&v| v as $t).collect();
                let d: Array1<$t> = y.iter().map(|&v| v as $t).collect();
                let key = format!("integer-axes:{}:{:?}", $name, ax).replace(' ', "");
                let (Ok(Ok(ext)), Ok(Ok(plain))) = (
                    catch(|| Interp1DBuilder::new(d.clone()).x(x.clone()).strategy(Linear::new().extrapolate(true)).build()),
                    catch(|| Interp1DBuilder::new(d.clone()).x(x.clone()).strategy(Linear::new()).build()),
                ) else {
                    out.violate(key, "valid integer input not accepted by build()".to_string(), Json::Null);
                    continue;
                };
                out.states += 1;
                for q in ax[0] - 30..=ax[n - 1] + 30 {
                    let want = if q < ax[0] {
                        y[0] + slopes[0] * (q - ax[0])
                    } else if q > ax[n - 1] {
                        y[n - 1] + slopes[(n - 2) % 6] * (q - ax[n - 1])
                    } else {
                        let i = (0..n - 1).rev().find(|&i| ax[i] <= q).unwrap().min(n - 2);
                        y[i] + slopes[i % 6] * (q - ax[i])
                    };
                    let inside = q >= ax[0] && q <= ax[n - 1];
                    let got = catch(|| ext.interp_scalar(q as $t));
                    out.evals += 1;
                    out.nontrivial += 1;
                    out.transitions += 1;
                    let mut bad = match &got {
                        Ok(Ok(v)) if *v as i64 == want => None,
                        Ok(Ok(v)) => Some(format!("returned {v}, the {} gives {want}", if inside { "chord" } else { "line of the nearest end interval" })),
                        other => Some(format!("finite query not answered: {other:?}")),
                    };
                    if inside && bad.is_none() {
                        if !matches!(catch(|| plain.interp_scalar(q as $t)), Ok(Ok(v)) if v as i64 == want) {
                            bad = Some("differs from the interpolator without extrapolation".to_string());
                        }
                    }
                    out.outcome(if bad.is_none() { "integer-axes:ok" } else { "integer-axes:bad" });
                    if let Some(w) = bad {
                        out.violate(key.clone(), format!("Linear with extrapolate(true) over the {} axis {ax:?}, data {y:?}, query {q}: {w}", $name), Json::obj(vec![("type", Json::str($name)), ("query", Json::Int(q as i128))]));
                        break;
                    }
                }
                // Bilinear: z = 2 + 3x - y + 2xy on (axis) x [-3, 1, 2] and on [-3, 1, 2] x (axis)
                let other: Vec<i64> = vec![-3, 1, 2];
                for as_x in [true, false] {
                    let (gx, gy) = if as_x { (ax.clone(), other.clone()) } else { (other.clone(), ax.clone()) };
                    let z = |a: i64, b: i64| 2 + 3 * a - b + 2 * a * b;
                    let data = Array2::from_shape_fn((gx.len(), gy.len()), |(i, j)| z(gx[i], gy[j]) as $t);
                    let (xa, ya): (Array1<$t>, Array1<$t>) = (gx.iter().map(|&v| v as $t).collect(), gy.iter().map(|&v| v as $t).collect());
                    let Ok(Ok(ip)) = catch(|| Interp2DBuilder::new(data.clone()).x(xa.clone()).y(ya.clone()).strategy(Bilinear::new().extrapolate(true)).build()) else {
                        out.violate(format!("{key}:bilinear"), "valid integer grid not accepted by build()".to_string(), Json::Null);
                        continue;
                    };
                    out.states += 1;
                    'grid: for a in gx[0] - 12..=gx[gx.len() - 1] + 12 {
                        for b in gy[0] - 12..=gy[gy.len() - 1] + 12 {
                            let got = catch(|| ip.interp_scalar(a as $t, b as $t));
                            out.evals += 1;
                            out.nontrivial += 1;
                            out.transitions += 1;
                            if !matches!(&got, Ok(Ok(v)) if *v as i64 == z(a, b)) {
                                out.violate(format!("{key}:bilinear:{}", if as_x { "x" } else { "y" }), format!("Bilinear with extrapolate(true) over the {} grid {gx:?} x {gy:?} (z = 2 + 3x - y + 2xy), query ({a}, {b}): {got:?}, the bilinear form of the border cell gives {}", $name, z(a, b)), Json::Null);
                                break 'grid;
                            }
                        }
                    }
                }
            }
        }};
    }
    run!(i64, "i64");
    run!(i32, "i32");
    out.sample = Some(Json::str("8 integer axes, every whole-numbered query within 30 of the range"));
}

fn body(ctx: &Ctx) -> (Summary, Meta) {
    let quick = ctx.quick();
    let mut jobs = vec![];
    for f32 in [false, true] {
        let e = if f32 { f32::EPSILON as f64 } else { f64::EPSILON };
        // Linear
        let vs = vec![-1048576.0, -7.0, -1.0, 0.0, 2.0f64.powi(-10), 1.0, 1.0 + e, 1.0 + 2.0 * e, 1.5, 7.0];
        let mut lin = alpha::subsets_axes(&vs, "v", 2, if quick { 3 } else { 5 });
        lin.extend(alpha::full_word_axes(&alpha::h3(), "w", 2, if quick { 4 } else { 6 }, &alpha::OFFSETS));
        lin.extend(alpha::long_word_axes(&alpha::h4(), "L", &[8, 40], 1, &[0.0]));
        if !f32 {
            lin.extend(alpha::full_word_axes(&alpha::h3(), "w", 2, 4, &[1099511627776.0, -1099511627776.0]));
        }
        for a in lin {
            if a.name.starts_with("w[") && a.n() <= 4 && a.name.ends_with("@0") {
                let e = if f32 { 50 } else { 400 };
                let (big, small) = (2.0f64.powi(e), 2.0f64.powi(-e));
                let mut pairs = vec![(big, big), (small, small), (big, 1.0), (1.0, big)];
                if !f32 {
                    pairs.push((2.0f64.powi(100), 2.0f64.powi(880)));
                    pairs.push((2.0f64.powi(-100), 2.0f64.powi(-880)));
                }
                for (cx, cd) in pairs {
                    jobs.push(Job { ax: a.clone(), kind: Kind::Linear, f32, cx, cd });
                }
            }
            jobs.push(Job { ax: a, kind: Kind::Linear, f32, cx: 1.0, cd: 1.0 });
        }
        // Spline (exact reference: n <= 7)
        let mut sp = if quick {
            alpha::full_word_axes(&alpha::h3(), "w", 3, 5, &[0.0, -3.0])
        } else {
            let mut v = alpha::full_word_axes(&alpha::h4(), "w", 3, 6, &[0.0, -3.0]);
            v.extend(alpha::full_word_axes(&alpha::h3(), "w", 7, 7, &[1.25]));
            v
        };
        if !f32 {
            sp.extend(alpha::full_word_axes(&alpha::hw(), "W", 3, if quick { 4 } else { 5 }, &[0.0]));
            sp.extend(alpha::full_word_axes(&alpha::h3(), "w", 3, 4, &[1099511627776.0]));
        }
        for a in sp {
            for spec in bc_configs(a.n() + 8, a.n()) {
                if spec.is_periodic() {
                    continue;
                }
                jobs.push(Job { ax: a.clone(), kind: Kind::Spline(spec), f32, cx: 1.0, cd: 1.0 });
            }
        }
        // Bilinear
        let mut a2 = alpha::full_word_axes(&alpha::h3(), "w", 2, if quick { 3 } else { 4 }, &[0.0]);
        a2.push(alpha::axis_from_word("w", -3.0, &[0.5, 2.0, 1.0, 1.0]));
        a2.push(Axis::new("v[-2^20,2]".into(), vec![-1048576.0, 2.0]));
        a2.push(Axis::new("v[1,1+e,7]".into(), vec![1.0, 1.0 + e, 7.0]));
        for ax in &a2 {
            for ay in &a2 {
                jobs.push(Job { ax: ax.clone(), kind: Kind::Bilinear(ay.clone()), f32, cx: 1.0, cd: 1.0 });
            }
        }
    }
    let njobs = jobs.len();
    let mut sum = run_jobs(ctx, "extrapolation", &jobs, |j| j.key(), |j| {
        let mut out = JobOut::default();
        match (&j.kind, j.f32) {
            (Kind::Bilinear(_), false) => run2d::<f64>(j, &mut out),
            (Kind::Bilinear(_), true) => run2d::<f32>(j, &mut out),
            (_, false) => run1d::<f64>(j, &mut out),
            (_, true) => run1d::<f32>(j, &mut out),
        }
        out
    });
    sum.merge(run_jobs(ctx, "integer-axes", &[()], |_| "integer-axes".to_string(), |_| {
        let mut out = JobOut::default();
        integer_axes(&mut out);
        out
    }));
    sum.merge(run_jobs(ctx, "far-field", &[()], |_| "far-field".to_string(), |_| {
        let mut out = JobOut::default();
        far_field(&mut out);
        out
    }));
    sum.merge(run_jobs(ctx, "builder-option-histories", &[()], |_| "builder-option-histories".to_string(), |_| {
        let mut out = JobOut::default();
        nimc::subj::check_spline_option_histories(4, &|_b, e| e, &mut out);
        after_a_caught_panic(&mut out);
        after_a_long_history(&mut out);
        out.sample = Some(Json::str("[Boundary(3), Extrapolate(true), Boundary(1)] vs [Extrapolate(true), Boundary(1)]"));
        out
    }));
    let meta = Meta {
        rule: "for every (axis, strategy) pair build the extrapolating interpolator and its non-extrapolating twin: (i) every finite outside query {1,2 ulp, 2^-10 P, P/4, P, 3P, 100P on both sides, +-MAX} is answered through 6 call forms incl. 2-d and dynamic query arrays and *_into; (ii) in-range results are bit-identical to the twin; (iii) outside values equal the exact continuation of the end chord / the certified exact end cubic / the border cell's bilinear form (2-D: outside in x, in y, in both). Non-trivial = an outside query compared with the exact continuation. After 70000 in-range queries on a geometric axis (single and batched) the extrapolated answers equal those of a fresh interpolator. After a caught panic (NaN query, NaN inside a batch, wrongly shaped buffer) every extrapolating interpolator still answers every finite query with the same bits. Phase builder-option-histories: every sequence of up to 4 CubicSpline option calls over {boundary(NotAKnot), boundary(Natural), boundary(Periodic), extrapolate(true), extrapolate(false)} that denotes an extrapolating configuration answers 18 queries (in range, just outside, far outside) bit-identically to the canonical two-call history of that configuration. Phase integer-axes: Linear and Bilinear with extrapolate(true) over 8 i32 / i64 axes (left of zero, right of zero, across zero, from zero) with whole-numbered slopes per interval: every whole-numbered query within 30 (2-D: 12) of the range on every side equals the line of the nearest end interval / the bilinear form exactly; in range equal to the non-extrapolating interpolator. Phase far-field: CubicSpline with extrapolate(true) over 4 axes x 6 lanes (lines, a constant, a parabola, a wavy lane) x {NotAKnot, Natural, Clamped}, f64 and f32, both sides, 2^10 .. 2^200 (f32: 2^36) end-interval widths outside: the answer equals the *stored* end piece (coefficients read from the Debug text of the interpolator; unreadable = skipped and shown among the outcomes) evaluated at the query within 64 eps of the sum of the magnitudes of its terms; non-trivial = that allowance is below 1% of the value.".into(),
        bounds: format!("{njobs} (type, axis/grid, strategy) jobs; Linear on value-set subsets + words + long words; CubicSpline on word axes n<=7 x 32 non-periodic boundary configurations; Bilinear on all ordered pairs of the 2-D axis set; tier {}", ctx.tier.name()),
        assumptions: vec!["tolerances: Linear 8 eps max(|y1|,|y2|,|t||y2-y1|); spline 16 K eps scale max(1,|t|)^3 (see C16); bilinear 24 eps max|z| (1+|tx|)(1+|ty|)".into()],
        extra: vec![],
    };
    (sum, meta)
}

fn main() {
    main_with("C06", body)
}
