//! C17 - an interpolator is immutable: answers do not depend on history or concurrency.
//!
//! (a) Send + Sync of every instantiation over thread-safe storage (probed, not asserted, so a
//!     lost auto trait is a reported violation);
//! (b) E3: breadth-first exploration of all operation histories up to a depth bound on fresh
//!     interpolators, with a state fingerprint and a per-step oracle;
//! (c) E4: shuttle DFS over every interleaving of small multi-threaded programs at the hook
//!     scheduling points of the query path.

use std::cell::Cell;
use std::fmt::Debug;
use std::marker::PhantomData;
use std::sync::{Arc, Mutex};

use ndarray::{Array1, Array2, Array3, ArrayD, CowRepr, Ix1, Ix2, Ix3, IxDyn, OwnedArcRepr, OwnedRepr, ViewRepr};
use ndarray_interp::interp1d::cubic_spline::CubicSplineStrategy;
use ndarray_interp::interp1d::{Interp1D, Interp1DStrategy, Linear};
use ndarray_interp::interp2d::{Bilinear, Interp2D, Interp2DStrategy};
use ndarray_interp::verif_hooks;
use nimc::refm::End;
use nimc::subj::{build_bilinear, build_linear, build_spline, call1d, call2d, BcSpec, Fail};
use nimc::{catch, main_with, run_jobs, Ctx, JobOut, Json, Meta, Summary};

// ------------------------------------------------------------------------------------------
// (a) Send / Sync probes: inherent const (needs the bound) shadows the trait const (fallback)

struct Probe<T>(PhantomData<T>);
trait Fallback {
    const SEND: bool = false;
    const SYNC: bool = false;
}
impl<T> Fallback for Probe<T> {}
#[allow(dead_code)]
impl<T: Send> Probe<T> {
    const SEND: bool = true;
}
#[allow(dead_code)]
impl<T: Sync> Probe<T> {
    const SYNC: bool = true;
}

macro_rules! probe {
    ($v:expr, $t:ty) => {
        $v.push((stringify!($t).replace(' ', ""), <Probe<$t>>::SEND, <Probe<$t>>::SYNC));
    };
}

fn send_sync_table() -> Vec<(String, bool, bool)> {
    let mut v = vec![];
    macro_rules! storage {
        ($t:ty) => {
            probe!(v, Interp1D<OwnedRepr<$t>, OwnedRepr<$t>, Ix1, Linear>);
            probe!(v, Interp1D<OwnedRepr<$t>, OwnedRepr<$t>, IxDyn, Linear>);
            probe!(v, Interp1D<ViewRepr<&'static $t>, ViewRepr<&'static $t>, Ix2, Linear>);
            probe!(v, Interp1D<OwnedArcRepr<$t>, OwnedArcRepr<$t>, Ix2, Linear>);
            probe!(v, Interp1D<CowRepr<'static, $t>, OwnedRepr<$t>, Ix3, Linear>);
            probe!(v, Interp2D<OwnedRepr<$t>, OwnedRepr<$t>, OwnedRepr<$t>, Ix2, Bilinear>);
            probe!(v, Interp2D<ViewRepr<&'static $t>, ViewRepr<&'static $t>, OwnedRepr<$t>, Ix3, Bilinear>);
            probe!(v, Interp2D<OwnedArcRepr<$t>, OwnedArcRepr<$t>, OwnedArcRepr<$t>, IxDyn, Bilinear>);
            probe!(v, Interp2D<CowRepr<'static, $t>, OwnedRepr<$t>, ViewRepr<&'static $t>, Ix3, Bilinear>);
        };
    }
    storage!(f64);
    storage!(f32);
    storage!(i32);
    macro_rules! spline {
        ($t:ty) => {
            probe!(v, Interp1D<OwnedRepr<$t>, OwnedRepr<$t>, Ix1, CubicSplineStrategy<OwnedRepr<$t>, Ix1>>);
            probe!(v, Interp1D<OwnedRepr<$t>, OwnedRepr<$t>, IxDyn, CubicSplineStrategy<OwnedRepr<$t>, IxDyn>>);
            probe!(v, Interp1D<ViewRepr<&'static $t>, ViewRepr<&'static $t>, Ix2, CubicSplineStrategy<ViewRepr<&'static $t>, Ix2>>);
            probe!(v, Interp1D<OwnedArcRepr<$t>, OwnedRepr<$t>, Ix3, CubicSplineStrategy<OwnedArcRepr<$t>, Ix3>>);
            probe!(v, Interp1D<CowRepr<'static, $t>, CowRepr<'static, $t>, Ix2, CubicSplineStrategy<CowRepr<'static, $t>, Ix2>>);
        };
    }
    spline!(f64);
    spline!(f32);
    v
}

// ------------------------------------------------------------------------------------------
// subjects

#[derive(Clone, Debug, PartialEq)]
enum Outcome {
    Ok(Vec<usize>, Vec<u64>),
    Err(String),
    Panic,
}

impl Outcome {
    fn class(&self) -> &'static str {
        match self {
            Outcome::Ok(..) => "Ok",
            Outcome::Err(_) => "Err",
            Outcome::Panic => "panic",
        }
    }
}

fn outcome(r: Result<Array2<f64>, Fail>) -> Outcome {
    match r {
        Ok(a) => Outcome::Ok(a.shape().to_vec(), a.iter().map(|v| if v.is_nan() { u64::MAX } else { v.to_bits() }).collect()),
        Err(Fail::Err(k, _)) => Outcome::Err(k.to_string()),
        Err(Fail::Panic(_)) => Outcome::Panic,
    }
}

fn fnv(s: &str) -> u64 {
    let mut h: u64 = 0xcbf29ce484222325;
    for b in s.bytes() {
        h ^= b as u64;
        h = h.wrapping_mul(0x100000001b3);
    }
    h
}

/// non-dyadic axis and data: evaluating a knot from its left or its right interval differs
/// in the last bits
const AX: [f64; 5] = [0.1, 3.1, 6.1, 9.1, 12.1];
const AX_SIB: [f64; 5] = [-2.0, 1.3, 4.6, 7.9, 11.2];
const AY: [f64; 4] = [0.3, 1.0, 2.3, 4.0];

fn data1(periodic: bool, salt: f64) -> Array2<f64> {
    let y0 = [0.1, 0.7, 1e16 * 0.0 + 0.3 + salt, 1.9, 0.4];
    let y1 = [1.0 / 3.0, -2.0 / 7.0, 5.0 / 9.0 + salt, 0.123456789, -0.77];
    let mut d = Array2::from_shape_fn((5, 2), |(i, j)| if j == 0 { y0[i] } else { y1[i] });
    if periodic {
        for j in 0..2 {
            d[[4, j]] = d[[0, j]];
        }
    }
    d
}

fn data2(salt: f64) -> Array3<f64> {
    Array3::from_shape_fn((5, 4, 2), |(i, j, k)| ((i * 4 + j) as f64 * 0.37 + salt).sin() * (1.0 + k as f64) + 0.1 * i as f64)
}

trait Subject: Send + Sync {
    fn op(&self, op: usize) -> Outcome;
    fn fingerprint(&self) -> u64;
}

const NOPS: usize = 16;
const OP_NAMES: [&str; NOPS] = [
    "interp(knot 2)",
    "interp(just inside interval 1, left of knot 2)",
    "interp(interior of interval 3)",
    "interp(out of range) -> Err or extrapolated",
    "interp(NaN) -> Err",
    "interp_array([interval 1, knot 2, interval 0])",
    "interp_array([interval 2, far out of range]) (late failure)",
    "interp_array_into(wrongly shaped buffer) -> panic",
    "interp_array(2-d query [[knot 2, interval 1],[interval 1, knot 3]])",
    "interp_into(knot 2)",
    "interp_array_into(dynamic rank query [knot 2, interval 1])",
    "sibling.interp(interior)",
    "sibling.interp(knot 2)",
    "interp(last knot)",
    "interp(first knot)",
    "interp_array(dynamic rank-1 query [knot 2])",
];

fn q_of(ax: &[f64; 5]) -> [f64; 8] {
    [
        ax[2],
        ax[1] + 0.75 * (ax[2] - ax[1]),
        ax[3] + 0.4 * (ax[4] - ax[3]),
        ax[4] + 100.0,
        f64::NAN,
        ax[0] + 0.2 * (ax[1] - ax[0]),
        ax[2] + 0.5 * (ax[3] - ax[2]),
        ax[3],
    ]
}

struct S1<S: Interp1DStrategy<OwnedRepr<f64>, OwnedRepr<f64>, Ix2>> {
    ip: Interp1D<OwnedRepr<f64>, OwnedRepr<f64>, Ix2, S>,
    sib: Interp1D<OwnedRepr<f64>, OwnedRepr<f64>, Ix2, S>,
}

impl<S> Subject for S1<S>
where
    S: Interp1DStrategy<OwnedRepr<f64>, OwnedRepr<f64>, Ix2> + Debug + Send + Sync,
{
    fn op(&self, op: usize) -> Outcome {
        let q = q_of(&AX);
        let qs = q_of(&AX_SIB);
        let l = 2;
        match op {
            0 => outcome(call1d(&self.ip, &[q[0]], &[1], l, "interp")),
            1 => outcome(call1d(&self.ip, &[q[1]], &[1], l, "interp")),
            2 => outcome(call1d(&self.ip, &[q[2]], &[1], l, "interp")),
            3 => outcome(call1d(&self.ip, &[q[3]], &[1], l, "interp")),
            4 => {
                // NaN panics with extrapolation (documented precondition: not a finite query); only
                // the non-extrapolating answer (Err) is a defined behaviour
                outcome(call1d(&self.ip, &[q[4]], &[1], l, "interp"))
            }
            5 => outcome(call1d(&self.ip, &[q[1], q[0], q[5]], &[3], l, "interp_array/static")),
            6 => outcome(call1d(&self.ip, &[q[6], -1e9], &[2], l, "interp_array/static")),
            7 => {
                let xs = Array1::from(vec![q[0], q[1]]);
                let mut buf = Array2::<f64>::zeros((3, 2));
                match catch(|| self.ip.interp_array_into(&xs, buf.view_mut())) {
                    Ok(Ok(())) => Outcome::Ok(vec![3, 2], buf.iter().map(|v| v.to_bits()).collect()),
                    Ok(Err(e)) => Outcome::Err(e.to_string()),
                    Err(_) => Outcome::Panic,
                }
            }
            8 => outcome(call1d(&self.ip, &[q[0], q[1], q[1], q[7]], &[2, 2], l, "interp_array/static")),
            9 => outcome(call1d(&self.ip, &[q[0]], &[1], l, "interp_into")),
            10 => outcome(call1d(&self.ip, &[q[0], q[1]], &[2], l, "interp_array_into/dyn")),
            11 => outcome(call1d(&self.sib, &[qs[1]], &[1], l, "interp")),
            12 => outcome(call1d(&self.sib, &[qs[0]], &[1], l, "interp")),
            13 => outcome(call1d(&self.ip, &[AX[4]], &[1], l, "interp")),
            14 => outcome(call1d(&self.ip, &[AX[0]], &[1], l, "interp")),
            _ => outcome(call1d(&self.ip, &[q[0]], &[1], l, "interp_array/dyn")),
        }
    }
    fn fingerprint(&self) -> u64 {
        fnv(&format!("{:?}|{:?}", self.ip, self.sib))
    }
}

struct S2<S: Interp2DStrategy<OwnedRepr<f64>, OwnedRepr<f64>, OwnedRepr<f64>, Ix3>> {
    ip: Interp2D<OwnedRepr<f64>, OwnedRepr<f64>, OwnedRepr<f64>, Ix3, S>,
    sib: Interp2D<OwnedRepr<f64>, OwnedRepr<f64>, OwnedRepr<f64>, Ix3, S>,
}

impl<S> Subject for S2<S>
where
    S: Interp2DStrategy<OwnedRepr<f64>, OwnedRepr<f64>, OwnedRepr<f64>, Ix3> + Debug + Send + Sync,
{
    fn op(&self, op: usize) -> Outcome {
        let q = q_of(&AX);
        let qs = q_of(&AX_SIB);
        let yk = AY[1];
        let yi = AY[1] + 0.3 * (AY[2] - AY[1]);
        let yj = AY[0] + 0.9 * (AY[1] - AY[0]);
        let l = 2;
        match op {
            0 => outcome(call2d(&self.ip, &[q[0]], &[yk], &[1], l, "interp")),
            1 => outcome(call2d(&self.ip, &[q[1]], &[yj], &[1], l, "interp")),
            2 => outcome(call2d(&self.ip, &[q[2]], &[yi], &[1], l, "interp")),
            3 => outcome(call2d(&self.ip, &[q[0]], &[AY[3] + 50.0], &[1], l, "interp")),
            4 => outcome(call2d(&self.ip, &[q[4]], &[yk], &[1], l, "interp")),
            5 => outcome(call2d(&self.ip, &[q[1], q[0], q[5]], &[yj, yk, yi], &[3], l, "interp_array/static")),
            6 => outcome(call2d(&self.ip, &[q[6], -1e9], &[yi, yi], &[2], l, "interp_array/static")),
            7 => {
                let xs = Array1::from(vec![q[0], q[1]]);
                let ys = Array1::from(vec![yk, yj]);
                let mut buf = Array2::<f64>::zeros((3, 2));
                match catch(|| self.ip.interp_array_into(&xs, &ys, buf.view_mut())) {
                    Ok(Ok(())) => Outcome::Ok(vec![3, 2], buf.iter().map(|v| v.to_bits()).collect()),
                    Ok(Err(e)) => Outcome::Err(e.to_string()),
                    Err(_) => Outcome::Panic,
                }
            }
            8 => outcome(call2d(&self.ip, &[q[0], q[1], q[1], q[7]], &[yk, yj, yk, yi], &[2, 2], l, "interp_array/static")),
            9 => outcome(call2d(&self.ip, &[q[0]], &[yk], &[1], l, "interp_into")),
            10 => outcome(call2d(&self.ip, &[q[0], q[1]], &[yk, yj], &[2], l, "interp_array_into/dyn")),
            11 => outcome(call2d(&self.sib, &[qs[1]], &[yi], &[1], l, "interp")),
            12 => outcome(call2d(&self.sib, &[qs[0]], &[yk], &[1], l, "interp")),
            13 => outcome(call2d(&self.ip, &[AX[4]], &[AY[3]], &[1], l, "interp")),
            14 => outcome(call2d(&self.ip, &[AX[0]], &[AY[0]], &[1], l, "interp")),
            _ => outcome(call2d(&self.ip, &[q[0]], &[yk], &[1], l, "interp_array/dyn")),
        }
    }
    fn fingerprint(&self) -> u64 {
        fnv(&format!("{:?}|{:?}", self.ip, self.sib))
    }
}

/// 1-D data (Ix1): the scalar entry point
struct S1s<S: Interp1DStrategy<OwnedRepr<f64>, OwnedRepr<f64>, Ix1>> {
    ip: Interp1D<OwnedRepr<f64>, OwnedRepr<f64>, Ix1, S>,
    sib: Interp1D<OwnedRepr<f64>, OwnedRepr<f64>, Ix1, S>,
}

fn sc(r: Result<Result<f64, ndarray_interp::InterpolateError>, String>) -> Outcome {
    match r {
        Ok(Ok(v)) => Outcome::Ok(vec![], vec![if v.is_nan() { u64::MAX } else { v.to_bits() }]),
        Ok(Err(_)) => Outcome::Err("OutOfBounds".into()),
        Err(_) => Outcome::Panic,
    }
}
fn arr<D: ndarray::Dimension>(r: Result<Result<ndarray::Array<f64, D>, ndarray_interp::InterpolateError>, String>) -> Outcome {
    match r {
        Ok(Ok(a)) => Outcome::Ok(a.shape().to_vec(), a.iter().map(|v| if v.is_nan() { u64::MAX } else { v.to_bits() }).collect()),
        Ok(Err(_)) => Outcome::Err("OutOfBounds".into()),
        Err(_) => Outcome::Panic,
    }
}

impl<S> Subject for S1s<S>
where
    S: Interp1DStrategy<OwnedRepr<f64>, OwnedRepr<f64>, Ix1> + Debug + Send + Sync,
{
    fn op(&self, op: usize) -> Outcome {
        let q = q_of(&AX);
        let qs = q_of(&AX_SIB);
        match op {
            0 => sc(catch(|| self.ip.interp_scalar(q[0]))),
            1 => sc(catch(|| self.ip.interp_scalar(q[1]))),
            2 => sc(catch(|| self.ip.interp_scalar(q[2]))),
            3 => sc(catch(|| self.ip.interp_scalar(q[3]))),
            4 => sc(catch(|| self.ip.interp_scalar(q[4]))),
            5 => arr(catch(|| self.ip.interp_array(&Array1::from(vec![q[1], q[0], q[5]])))),
            6 => arr(catch(|| self.ip.interp_array(&Array1::from(vec![q[6], -1e9])))),
            7 => {
                let xs = Array1::from(vec![q[0], q[1]]);
                let mut buf = Array1::<f64>::zeros(3);
                match catch(|| self.ip.interp_array_into(&xs, buf.view_mut())) {
                    Ok(Ok(())) => Outcome::Ok(vec![3], buf.iter().map(|v| v.to_bits()).collect()),
                    Ok(Err(e)) => Outcome::Err(e.to_string()),
                    Err(_) => Outcome::Panic,
                }
            }
            8 => sc(catch(|| self.ip.interp_scalar(-1e9))),
            9 => arr(catch(|| self.ip.interp(q[0]))),
            10 => arr(catch(|| self.ip.interp_array(&ndarray::arr2(&[[q[0], q[1]], [q[1], q[7]]])))),
            11 => sc(catch(|| self.sib.interp_scalar(qs[1]))),
            12 => sc(catch(|| self.sib.interp_scalar(qs[0]))),
            13 => sc(catch(|| self.ip.interp_scalar(AX[4]))),
            14 => sc(catch(|| self.ip.interp_scalar(AX[0]))),
            _ => sc(catch(|| self.ip.interp_scalar(q[1] + 1e-9))),
        }
    }
    fn fingerprint(&self) -> u64 {
        fnv(&format!("{:?}|{:?}", self.ip, self.sib))
    }
}

/// 2-D data (Ix2): the scalar entry point
struct S2s<S: Interp2DStrategy<OwnedRepr<f64>, OwnedRepr<f64>, OwnedRepr<f64>, Ix2>> {
    ip: Interp2D<OwnedRepr<f64>, OwnedRepr<f64>, OwnedRepr<f64>, Ix2, S>,
    sib: Interp2D<OwnedRepr<f64>, OwnedRepr<f64>, OwnedRepr<f64>, Ix2, S>,
}

impl<S> Subject for S2s<S>
where
    S: Interp2DStrategy<OwnedRepr<f64>, OwnedRepr<f64>, OwnedRepr<f64>, Ix2> + Debug + Send + Sync,
{
    fn op(&self, op: usize) -> Outcome {
        let q = q_of(&AX);
        let qs = q_of(&AX_SIB);
        let yk = AY[1];
        let yi = AY[1] + 0.3 * (AY[2] - AY[1]);
        let yj = AY[0] + 0.9 * (AY[1] - AY[0]);
        match op {
            0 => sc(catch(|| self.ip.interp_scalar(q[0], yk))),
            1 => sc(catch(|| self.ip.interp_scalar(q[1], yj))),
            2 => sc(catch(|| self.ip.interp_scalar(q[2], yi))),
            3 => sc(catch(|| self.ip.interp_scalar(q[0], AY[3] + 50.0))),
            4 => sc(catch(|| self.ip.interp_scalar(q[4], yk))),
            5 => arr(catch(|| self.ip.interp_array(&Array1::from(vec![q[1], q[0], q[5]]), &Array1::from(vec![yj, yk, yi])))),
            6 => arr(catch(|| self.ip.interp_array(&Array1::from(vec![q[6], -1e9]), &Array1::from(vec![yi, yi])))),
            7 => sc(catch(|| self.ip.interp_scalar(7.0e9, yk))),
            8 => sc(catch(|| self.ip.interp_scalar(7.0e9, yk))),
            9 => arr(catch(|| self.ip.interp(q[0], yk))),
            10 => sc(catch(|| self.ip.interp_scalar(q[0], yk))),
            11 => sc(catch(|| self.sib.interp_scalar(qs[1], yi))),
            12 => sc(catch(|| self.sib.interp_scalar(qs[0], yk))),
            13 => sc(catch(|| self.ip.interp_scalar(AX[4], AY[3]))),
            14 => sc(catch(|| self.ip.interp_scalar(AX[0], AY[0]))),
            _ => sc(catch(|| self.ip.interp_scalar(q[1], yj + 1e-9))),
        }
    }
    fn fingerprint(&self) -> u64 {
        fnv(&format!("{:?}|{:?}", self.ip, self.sib))
    }
}

/// a long axis (70 knots): lazily built acceleration structures only exist for long axes
fn long_axis(off: f64) -> Vec<f64> {
    (0..70).map(|i| off + i as f64 * 0.3 + if i % 3 == 1 { 0.07 } else { 0.0 }).collect()
}

struct SLong {
    ip: Interp1D<OwnedRepr<f64>, OwnedRepr<f64>, Ix2, Linear>,
}
impl Subject for SLong {
    fn op(&self, op: usize) -> Outcome {
        let x = long_axis(0.1);
        let q = [x[35], x[34] + 0.75 * (x[35] - x[34]), x[60] + 0.1, x[69] + 100.0, f64::NAN, x[2] + 0.05];
        match op {
            0 => outcome(call1d(&self.ip, &[q[0]], &[1], 2, "interp")),
            1 => outcome(call1d(&self.ip, &[q[1]], &[1], 2, "interp")),
            2 => outcome(call1d(&self.ip, &[q[2]], &[1], 2, "interp")),
            3 => outcome(call1d(&self.ip, &[q[3]], &[1], 2, "interp")),
            5 => outcome(call1d(&self.ip, &[q[1], q[0], q[5]], &[3], 2, "interp_array/static")),
            _ => outcome(call1d(&self.ip, &[q[5]], &[1], 2, "interp")),
        }
    }
    fn fingerprint(&self) -> u64 {
        fnv(&format!("{:?}", self.ip))
    }
}

/// a strongly non-uniform (geometric) axis and a 300-element batch: behaviour that adapts to
/// the number of lookups or to how often the O(1) guess misses only shows after many lookups
fn geo_axis() -> Vec<f64> {
    (0..12).map(|i| 1.5f64.powi(i)).collect()
}
struct SGeo {
    ip: Interp1D<OwnedRepr<f64>, OwnedRepr<f64>, Ix2, Linear>,
}
impl Subject for SGeo {
    fn op(&self, op: usize) -> Outcome {
        let x = geo_axis();
        let n = x.len();
        let inside = |i: usize, t: f64| x[i] + t * (x[i + 1] - x[i]);
        match op {
            0 => outcome(call1d(&self.ip, &[inside(n - 2, 0.4)], &[1], 2, "interp")),
            1 => outcome(call1d(&self.ip, &[x[6]], &[1], 2, "interp")),
            2 => outcome(call1d(&self.ip, &[inside(0, 0.5)], &[1], 2, "interp")),
            3 => outcome(call1d(&self.ip, &[x[n - 1] + 100.0], &[1], 2, "interp")),
            4 => outcome(call1d(&self.ip, &[f64::NAN], &[1], 2, "interp")),
            5 | 8 | 10 => {
                // 300 in-range queries over all segments (the guess misses for most of them)
                let q: Vec<f64> = (0..300).map(|k| inside(k % (n - 1), 0.1 + 0.8 * ((k * 7) % 10) as f64 / 10.0)).collect();
                outcome(call1d(&self.ip, &q, &[300], 2, if op == 10 { "interp_array_into/dyn" } else { "interp_array/static" }))
            }
            6 => outcome(call1d(&self.ip, &[inside(3, 0.5), -1e9], &[2], 2, "interp_array/static")),
            9 => outcome(call1d(&self.ip, &[inside(n - 2, 0.9)], &[1], 2, "interp_into")),
            13 => outcome(call1d(&self.ip, &[x[n - 1]], &[1], 2, "interp")),
            14 => outcome(call1d(&self.ip, &[x[0]], &[1], 2, "interp")),
            _ => outcome(call1d(&self.ip, &[inside(n - 2, 0.25), inside(n - 3, 0.75)], &[2], 2, "interp_array/dyn")),
        }
    }
    fn fingerprint(&self) -> u64 {
        fnv(&format!("{:?}", self.ip))
    }
}

/// 64-bit integer axes whose knots are not representable as f64 (all odd, beyond 2^53)
const IB: i64 = (1 << 53) + 1;
fn iax() -> Vec<i64> {
    [0i64, 2, 6, 8, 14].iter().map(|o| IB + o).collect()
}
fn iay() -> Vec<i64> {
    [0i64, 4, 6, 12].iter().map(|o| IB + 100 + o).collect()
}
fn isc(r: Result<Result<i64, ndarray_interp::InterpolateError>, String>) -> Outcome {
    match r {
        Ok(Ok(v)) => Outcome::Ok(vec![], vec![v as u64]),
        Ok(Err(_)) => Outcome::Err("OutOfBounds".into()),
        Err(_) => Outcome::Panic,
    }
}
fn iarr<D: ndarray::Dimension>(r: Result<Result<ndarray::Array<i64, D>, ndarray_interp::InterpolateError>, String>) -> Outcome {
    match r {
        Ok(Ok(a)) => Outcome::Ok(a.shape().to_vec(), a.iter().map(|v| *v as u64).collect()),
        Ok(Err(_)) => Outcome::Err("OutOfBounds".into()),
        Err(_) => Outcome::Panic,
    }
}
struct SInt1 {
    ip: Interp1D<OwnedRepr<i64>, OwnedRepr<i64>, Ix1, Linear>,
}
impl Subject for SInt1 {
    fn op(&self, op: usize) -> Outcome {
        let x = iax();
        match op {
            0 => isc(catch(|| self.ip.interp_scalar(x[2]))),
            1 => isc(catch(|| self.ip.interp_scalar(x[2] - 1))),
            2 => isc(catch(|| self.ip.interp_scalar(x[3] + 3))),
            3 => isc(catch(|| self.ip.interp_scalar(x[4] + 1))),
            4 => isc(catch(|| self.ip.interp_scalar(x[0] - 1))),
            5 => iarr(catch(|| self.ip.interp_array(&Array1::from(vec![x[1] + 1, x[2], x[0] + 1])))),
            6 => iarr(catch(|| self.ip.interp_array(&Array1::from(vec![x[2] + 1, x[4] + 2])))),
            7 => {
                let xs = Array1::from(vec![x[2], x[1]]);
                let mut buf = Array1::<i64>::zeros(3);
                match catch(|| self.ip.interp_array_into(&xs, buf.view_mut())) {
                    Ok(Ok(())) => Outcome::Ok(vec![3], buf.iter().map(|v| *v as u64).collect()),
                    Ok(Err(e)) => Outcome::Err(e.to_string()),
                    Err(_) => Outcome::Panic,
                }
            }
            8 => iarr(catch(|| self.ip.interp_array(&ndarray::arr2(&[[x[2], x[1] + 1], [x[1] + 1, x[3]]])))),
            9 => iarr(catch(|| self.ip.interp(x[2]))),
            10 => iarr(catch(|| self.ip.interp_array(&Array1::from(vec![x[4], x[0], x[4]])))),
            13 => isc(catch(|| self.ip.interp_scalar(x[4]))),
            14 => isc(catch(|| self.ip.interp_scalar(x[0]))),
            _ => isc(catch(|| self.ip.interp_scalar(x[4] - 1))),
        }
    }
    fn fingerprint(&self) -> u64 {
        fnv(&format!("{:?}", self.ip))
    }
}
struct SInt2 {
    ip: Interp2D<OwnedRepr<i64>, OwnedRepr<i64>, OwnedRepr<i64>, Ix2, Bilinear>,
}
impl Subject for SInt2 {
    fn op(&self, op: usize) -> Outcome {
        let (x, y) = (iax(), iay());
        match op {
            0 => isc(catch(|| self.ip.interp_scalar(x[2], y[1]))),
            1 => isc(catch(|| self.ip.interp_scalar(x[2] - 1, y[1] - 1))),
            2 => isc(catch(|| self.ip.interp_scalar(x[3] + 3, y[2] + 2))),
            3 => isc(catch(|| self.ip.interp_scalar(x[4] + 1, y[1]))),
            4 => isc(catch(|| self.ip.interp_scalar(x[1], y[0] - 1))),
            5 => iarr(catch(|| self.ip.interp_array(&Array1::from(vec![x[1] + 1, x[2], x[4]]), &Array1::from(vec![y[0] + 1, y[1], y[3]])))),
            6 => iarr(catch(|| self.ip.interp_array(&Array1::from(vec![x[2] + 1, x[2]]), &Array1::from(vec![y[1], y[3] + 1])))),
            7 => {
                let (xs, ys) = (Array1::from(vec![x[2], x[1]]), Array1::from(vec![y[2], y[1]]));
                let mut buf = Array1::<i64>::zeros(3);
                match catch(|| self.ip.interp_array_into(&xs, &ys, buf.view_mut())) {
                    Ok(Ok(())) => Outcome::Ok(vec![3], buf.iter().map(|v| *v as u64).collect()),
                    Ok(Err(e)) => Outcome::Err(e.to_string()),
                    Err(_) => Outcome::Panic,
                }
            }
            8 => iarr(catch(|| self.ip.interp_array(&ndarray::arr2(&[[x[4], x[1] + 1], [x[0], x[3]]]), &ndarray::arr2(&[[y[3], y[1] + 1], [y[0], y[3]]])))),
            9 => iarr(catch(|| self.ip.interp(x[4], y[3]))),
            10 => isc(catch(|| self.ip.interp_scalar(x[0], y[3]))),
            13 => isc(catch(|| self.ip.interp_scalar(x[4], y[3]))),
            14 => isc(catch(|| self.ip.interp_scalar(x[0], y[0]))),
            _ => isc(catch(|| self.ip.interp_scalar(x[4] - 1, y[3] - 1))),
        }
    }
    fn fingerprint(&self) -> u64 {
        fnv(&format!("{:?}", self.ip))
    }
}

const KINDS: [&str; 14] = [
    "Linear",
    "Linear+extrapolate",
    "CubicSpline/NotAKnot",
    "CubicSpline/Natural",
    "CubicSpline/Periodic+extrapolate",
    "CubicSpline/Individual",
    "Bilinear",
    "Bilinear+extrapolate",
    "Linear/scalar(1-d data)",
    "Bilinear/scalar(2-d data)",
    "Linear/long axis (70 knots)",
    "Linear/geometric axis, 300-element batches",
    "Linear<i64>/axis beyond 2^53",
    "Bilinear<i64>/axes beyond 2^53",
];

fn build(kind: usize) -> Box<dyn Subject> {
    let spl = |spec: BcSpec, ex: bool, periodic: bool| -> Box<dyn Subject> {
        Box::new(S1 {
            ip: build_spline::<f64, Ix2>(&AX, data1(periodic, 0.0), &spec, ex).expect("valid build"),
            sib: build_spline::<f64, Ix2>(&AX_SIB, data1(periodic, 0.25), &spec, ex).expect("valid build"),
        })
    };
    match kind {
        0 | 1 => Box::new(S1 {
            ip: build_linear::<f64, Ix2>(Some(&AX), data1(false, 0.0), kind == 1).expect("valid build"),
            sib: build_linear::<f64, Ix2>(Some(&AX_SIB), data1(false, 0.25), kind == 1).expect("valid build"),
        }),
        2 => spl(BcSpec::TopNotAKnot, false, false),
        3 => spl(BcSpec::TopNatural, false, false),
        4 => spl(BcSpec::Periodic, true, true),
        5 => spl(BcSpec::Lanes(vec![(End::First(0.5), End::NotAKnot), (End::Natural, End::Second(-2.0))]), false, false),
        6 | 7 => Box::new(S2 {
            ip: build_bilinear::<f64, Ix3>(Some(&AX), Some(&AY), data2(0.0), kind == 7).expect("valid build"),
            sib: build_bilinear::<f64, Ix3>(Some(&AX_SIB), Some(&AY), data2(0.5), kind == 7).expect("valid build"),
        }),
        8 => Box::new(S1s {
            ip: build_linear::<f64, Ix1>(Some(&AX), data1(false, 0.0).column(0).to_owned(), false).expect("valid build"),
            sib: build_linear::<f64, Ix1>(Some(&AX_SIB), data1(false, 0.25).column(1).to_owned(), false).expect("valid build"),
        }),
        9 => Box::new(S2s {
            ip: build_bilinear::<f64, Ix2>(Some(&AX), Some(&AY), data2(0.0).index_axis(ndarray::Axis(2), 0).to_owned(), false).expect("valid build"),
            sib: build_bilinear::<f64, Ix2>(Some(&AX_SIB), Some(&AY), data2(0.5).index_axis(ndarray::Axis(2), 1).to_owned(), false).expect("valid build"),
        }),
        10 => {
            let x = long_axis(0.1);
            let d = Array2::from_shape_fn((70, 2), |(i, j)| ((i * 2 + j) as f64 * 0.37).sin() + 0.01 * i as f64);
            Box::new(SLong { ip: build_linear::<f64, Ix2>(Some(&x), d, true).expect("valid build") })
        }
        11 => {
            let x = geo_axis();
            let d = Array2::from_shape_fn((x.len(), 2), |(i, j)| ((i * 2 + j) as f64 * 0.37).sin() * 3.0 + 0.3 * i as f64);
            Box::new(SGeo { ip: build_linear::<f64, Ix2>(Some(&x), d, false).expect("valid build") })
        }
        12 => Box::new(SInt1 {
            ip: ndarray_interp::interp1d::Interp1DBuilder::new(Array1::from(vec![12i64, -30, 48, 6, 60])).x(Array1::from(iax())).build().expect("valid build"),
        }),
        _ => Box::new(SInt2 {
            ip: ndarray_interp::interp2d::Interp2DBuilder::new(Array2::from_shape_fn((5, 4), |(i, j)| [12i64, -30, 48, 6, 60, -18, 24][(i * 4 + j) % 7] * 4))
                .x(Array1::from(iax()))
                .y(Array1::from(iay()))
                .build()
                .expect("valid build"),
        }),
    }
}

// ------------------------------------------------------------------------------------------
// (b) histories

fn explore_histories(kind: usize, first: usize, depth: usize, out: &mut JobOut) {
    // canonical outcome of every op: the depth-1 history on a fresh world
    let canon: Vec<Outcome> = (0..NOPS).map(|o| build(kind).op(o)).collect();
    let fp0 = build(kind).fingerprint();
    out.states += 1;
    for (o, c) in canon.iter().enumerate() {
        if o == first {
            out.outcome(format!("{}:{}", OP_NAMES[o].split('(').next().unwrap_or(""), c.class()));
        }
    }
    let mut hist = vec![first];
    let key0 = format!("hist:{}", KINDS[kind]);
    // iterative DFS over all sequences starting with `first` (equivalent to BFS over the same set;
    // shortest histories are visited first because every prefix is checked as its own history)
    let mut counter = vec![0usize; depth];
    loop {
        // execute this history on a fresh world
        let w = build(kind);
        let mut ok = true;
        for (step, &o) in hist.iter().enumerate() {
            let got = w.op(o);
            out.transitions += 1;
            let fp = w.fingerprint();
            if fp != fp0 {
                // internal state that changes without changing any answer (a correct cache) does
                // not violate the statement: observed and reported, not judged
                out.count("steps_after_which_the_debug_fingerprint_differed", 1);
            }
            if got != canon[o] {
                ok = false;
                let h: Vec<&str> = hist[..=step].iter().map(|&i| OP_NAMES[i]).collect();
                out.violate(
                    format!("{key0}:{:?}", &hist[..=step]).replace(' ', ""),
                    {
                        format!("{}: op '{}' returned {:?} at the end of history {h:?} but {:?} on a fresh interpolator", KINDS[kind], OP_NAMES[o], short(&got), short(&canon[o]))
                    },
                    Json::obj(vec![
                        ("interpolator", Json::str(KINDS[kind])),
                        ("history", Json::Arr(h.iter().map(|s| Json::str(s)).collect())),
                        ("history_op_indices", Json::usizes(&hist[..=step])),
                        ("observed", Json::str(&format!("{got:?}"))),
                        ("fresh", Json::str(&format!("{:?}", canon[o]))),
                        ("x", Json::f64s(&AX)),
                    ]),
                );
                break;
            }
        }
        out.evals += 1;
        if hist.len() >= 2 && hist.iter().any(|&o| canon[o].class() != "Ok") && hist.iter().any(|&o| canon[o].class() == "Ok") {
            out.nontrivial += 1;
        }
        let _ = ok;
        // next history: extend if possible, else increment
        if hist.len() < depth {
            hist.push(0);
            counter[hist.len() - 1] = 0;
        } else {
            loop {
                let last = hist.len() - 1;
                if last == 0 {
                    return;
                }
                if hist[last] + 1 < NOPS {
                    hist[last] += 1;
                    break;
                }
                hist.pop();
            }
        }
        if out.viol.len() >= 3 {
            return;
        }
    }
}

fn short(o: &Outcome) -> String {
    match o {
        Outcome::Ok(s, v) => format!("Ok(shape {s:?}, first {:e})", v.first().map(|b| f64::from_bits(*b)).unwrap_or(f64::NAN)),
        o => format!("{o:?}"),
    }
}

// ------------------------------------------------------------------------------------------
// (c) schedules

thread_local! {
    static IN_SHUTTLE: Cell<bool> = const { Cell::new(false) };
    static POINTS: Cell<u64> = const { Cell::new(0) };
}

fn sched_hook(_label: &'static str) {
    POINTS.with(|c| c.set(c.get() + 1));
    if IN_SHUTTLE.with(|c| c.get()) {
        shuttle::thread::yield_now();
    } else {
        // a no-op unless this OS thread belongs to an exploration of nimc::baton
        nimc::baton::point();
    }
}

/// number of scheduling points one op passes through
fn points_of(kind: usize, op: usize) -> u64 {
    let w = build(kind);
    POINTS.with(|c| c.set(0));
    let _ = w.op(op);
    POINTS.with(|c| c.get())
}

/// number of interleavings of threads with the given numbers of atomic segments
fn interleavings(segments: &[u64]) -> f64 {
    let mut r = 1.0f64;
    let mut total = 0u64;
    for &a in segments {
        for i in 1..=a {
            total += 1;
            r = r * total as f64 / i as f64;
        }
    }
    r
}

/// the op alphabet of the schedule programs (non-panicking ops)
const SCHED_OPS: [usize; 5] = [1, 0, 3, 5, 2];

#[derive(Clone, Debug)]
struct Program {
    kind: usize,
    /// ops of each thread
    threads: Vec<Vec<usize>>,
    /// preemption bound (usize::MAX = every interleaving)
    bound: usize,
}
impl Program {
    fn key(&self) -> String {
        format!("sched:{}:{:?}:{}", KINDS[self.kind], self.threads, if self.bound == usize::MAX { "all".to_string() } else { format!("pb{}", self.bound) }).replace(' ', "")
    }
}

fn run_program(p: &Program, out: &mut JobOut) {
    // sequential oracle
    // sequential oracle (only for the ops of this program)
    let used: Vec<usize> = p.threads.iter().flatten().cloned().collect();
    let canon: Vec<Outcome> = (0..NOPS).map(|o| if used.contains(&o) { build(p.kind).op(o) } else { Outcome::Panic }).collect();
    let key = p.key();
    let dir = std::path::PathBuf::from(format!("{}/replays/shuttle-{:016x}", nimc::driver::VERIF_ROOT, fnv(&key)));
    let mismatches: Arc<Mutex<Vec<String>>> = Arc::new(Mutex::new(vec![]));
    let mut counts = vec![];
    for _round in 0..2 {
        let prog = p.clone();
        let canon2 = canon.clone();
        let mm = mismatches.clone();
        let mut cfg = shuttle::Config::new();
        let _ = std::fs::create_dir_all(&dir);
        cfg.failure_persistence = shuttle::FailurePersistence::File(Some(dir.clone()));
        let runner = shuttle::Runner::new(nimc::sched::PbDfs::new(p.bound), cfg);
        IN_SHUTTLE.with(|c| c.set(true));
        let r = std::panic::catch_unwind(std::panic::AssertUnwindSafe(|| {
            runner.run(move || {
                let w: Arc<Box<dyn Subject>> = Arc::new(build(prog.kind));
                let fp0 = w.fingerprint();
                let hs: Vec<_> = prog
                    .threads
                    .iter()
                    .cloned()
                    .map(|ops| {
                        let w = w.clone();
                        shuttle::thread::spawn(move || ops.iter().map(|&o| (o, w.op(o))).collect::<Vec<_>>())
                    })
                    .collect();
                for (t, h) in hs.into_iter().enumerate() {
                    for (o, got) in h.join().expect("thread") {
                        if got != canon2[o] {
                            let m = format!("thread {t}: op '{}' returned {} under this interleaving, sequentially {}", OP_NAMES[o], short(&got), short(&canon2[o]));
                            mm.lock().unwrap().push(m.clone());
                            panic!("C17 schedule violation: {m}");
                        }
                    }
                }
                let _ = fp0;
            })
        }));
        IN_SHUTTLE.with(|c| c.set(false));
        match r {
            Ok(n) => {
                counts.push(n as u64);
                out.transitions += n as u64;
            }
            Err(_) => {
                let m = mismatches.lock().unwrap().first().cloned().unwrap_or_else(|| "the program panicked under the scheduler".to_string());
                // shuttle's threads are coroutines on one OS thread and share its thread-local
                // state; the same program is explored again with one OS thread per thread
                let prog = p.clone();
                let make = move || -> Vec<Box<dyn FnOnce() -> Vec<(usize, Outcome)> + Send>> {
                    let w: Arc<Box<dyn Subject>> = Arc::new(build(prog.kind));
                    prog.threads
                        .iter()
                        .cloned()
                        .map(|ops| {
                            let w = w.clone();
                            Box::new(move || ops.iter().map(|&o| (o, w.op(o))).collect::<Vec<_>>()) as Box<dyn FnOnce() -> Vec<(usize, Outcome)> + Send>
                        })
                        .collect()
                };
                let canon3 = canon.clone();
                let check = move |rs: Vec<std::thread::Result<Vec<(usize, Outcome)>>>| -> Result<(), String> {
                    for (t, r) in rs.into_iter().enumerate() {
                        match r {
                            Err(_) => return Err(format!("thread {t} panicked")),
                            Ok(v) => {
                                for (o, got) in v {
                                    if got != canon3[o] {
                                        return Err(format!("thread {t}: op '{}' returned {} under this interleaving, sequentially {}", OP_NAMES[o], short(&got), short(&canon3[o])));
                                    }
                                }
                            }
                        }
                    }
                    Ok(())
                };
                // (every schedule with at most 2 preemptions, 3 in the thorough tier: a failure that needs
                // more than that on OS threads is taken for an effect of the shared thread-locals)
                let confirm_bound = p.bound.min(if std::env::args().any(|a| a == "thorough") { 3 } else { 2 });
                let ex = nimc::baton::explore(confirm_bound, 300_000, &make, &check);
                out.count("executions_on_os_threads_to_confirm_a_failure", ex.executions);
                let m = match (&ex.failure, &ex.incomplete) {
                    (Some((_, fm)), _) => format!("{m}; confirmed with one OS thread per thread: {fm}"),
                    (None, None) => {
                        // every schedule within the same bound passes when thread-local state is per thread
                        out.count("programs_that_fail_only_when_simulated_threads_share_one_os_thread", 1);
                        out.outcome("schedule:fails-only-with-shared-thread-locals(not a violation)");
                        out.states += 1;
                        return;
                    }
                    (None, Some(why)) => format!("{m}; the confirmation with one OS thread per thread was not completed ({why})"),
                };
                let sched = std::fs::read_dir(&dir).ok().and_then(|mut d| d.next()).and_then(|e| e.ok()).map(|e| e.path().display().to_string()).unwrap_or_default();
                out.violate(
                    key.clone(),
                    format!("{}: {m}", KINDS[p.kind]),
                    Json::obj(vec![
                        ("interpolator", Json::str(KINDS[p.kind])),
                        ("threads", Json::Arr(p.threads.iter().map(|t| Json::Arr(t.iter().map(|&o| Json::str(OP_NAMES[o])).collect())).collect())),
                        ("shuttle_schedule_file", Json::str(&sched)),
                        ("replay_hint", Json::str("shuttle::replay_from_file with the same program; `check --replay` re-runs the DFS of this program")),
                    ]),
                );
                out.outcome("schedule:violation");
                return;
            }
        }
    }
    let _ = std::fs::remove_dir(&dir);
    out.evals += counts[0];
    out.states += 1;
    out.nontrivial += 1;
    out.outcome(if p.bound == usize::MAX { "schedule:every-interleaving-equal-to-sequential".to_string() } else { format!("schedule:all-with<={}-preemptions-equal-to-sequential", p.bound) });
    out.maximum("schedules_of_one_program", counts[0] as f64);
    if counts[0] != counts[1] {
        // The two searches did not see the same schedule tree: the subject carries state from one
        // execution to the next (process-global or thread-local), which the harness does not own.
        // Every explored schedule still returned the sequential answers; this is reported, not judged.
        out.count("programs_whose_two_searches_differ_in_schedule_count(state carried between executions)", 1);
    }
    if out.sample.is_none() {
        out.sample = Some(Json::obj(vec![("program", Json::str(&key)), ("schedules", Json::Int(counts[0] as i128))]));
    }
}

// ------------------------------------------------------------------------------------------

/// An axis lives in a caller-owned buffer; interpolators are built over a *view* of it. Between two
/// builds the caller rewrites the interior knots (same address, length, first and last knot). The
/// second interpolator must answer like one built over an owned copy, on the thread that saw the
/// first axis just as on a fresh thread. Every pair (first axis, second axis) of the alphabet,
/// Linear, CubicSpline and Bilinear.
fn storage_reuse(n: usize, out: &mut JobOut) {
    use ndarray::ArrayView1;
    // all axes on [0, n-1] with n knots whose interior knots sit at i + d, d in {-1/4, 0, +1/4}
    let mut axes: Vec<Vec<f64>> = vec![vec![0.0]];
    for i in 1..n - 1 {
        axes = axes.iter().flat_map(|a| [-0.25, 0.0, 0.25].iter().map(move |d| { let mut v = a.clone(); v.push(i as f64 + d); v })).collect();
    }
    for a in axes.iter_mut() {
        a.push((n - 1) as f64);
    }
    if axes.len() > 27 {
        axes.truncate(27);
    }
    // interior knots crowded at one end: the position computed from the end points is off by whole cells
    let last = (n - 1) as f64;
    axes.push((0..n).map(|i| if i == n - 1 { last } else { i as f64 * 0.125 }).collect());
    axes.push((0..n).map(|i| if i == 0 { 0.0 } else { last - (n - 1 - i) as f64 * 0.125 }).collect());
    axes.push((0..n).map(|i| if i == 0 || i == n - 1 { i as f64 } else if i % 2 == 1 { i as f64 - 0.875 } else { i as f64 - 0.125 }).collect());
    // the evenly spaced axis first: it is the one whose remembered properties would be trusted
    let uni: Vec<f64> = (0..n).map(|i| i as f64).collect();
    axes.retain(|a| *a != uni);
    axes.insert(0, uni);
    assert!(axes.iter().all(|a| a.windows(2).all(|w| w[0] < w[1])));
    let data = Array2::from_shape_fn((n, 2), |(i, j)| ((i * 2 + j) as f64 * 0.37).sin() * 3.0 + 0.4 * i as f64);
    let z = Array3::from_shape_fn((n, 3, 1), |(i, j, _)| ((i * 3 + j) as f64 * 0.37).sin() * 3.0);
    let yax = [0.0, 1.0, 2.5];
    let queries = |x: &[f64]| -> Vec<f64> {
        let mut q = x.to_vec();
        for w in x.windows(2) {
            q.push(w[0] + 0.3 * (w[1] - w[0]));
            q.push(w[0] + 0.9 * (w[1] - w[0]));
        }
        q
    };
    // answers of an interpolator over a view of `buf` (three strategies, all queries)
    let answers = |buf: &Vec<f64>| -> Vec<u64> {
        let x = ArrayView1::from(&buf[..]);
        let q = queries(buf);
        let mut v = vec![];
        let lin = ndarray_interp::interp1d::Interp1DBuilder::new(data.view()).x(x).strategy(Linear::new()).build().expect("valid");
        let spl = ndarray_interp::interp1d::Interp1DBuilder::new(data.view()).x(x).strategy(ndarray_interp::interp1d::cubic_spline::CubicSpline::new()).build().expect("valid");
        let bil = ndarray_interp::interp2d::Interp2DBuilder::new(z.view()).x(x).y(ArrayView1::from(&yax[..])).build().expect("valid");
        for &qv in &q {
            v.extend(lin.interp(qv).expect("in range").iter().map(|t| t.to_bits()));
            v.extend(spl.interp(qv).expect("in range").iter().map(|t| t.to_bits()));
            v.extend(bil.interp(qv, 1.75).expect("in range").iter().map(|t| t.to_bits()));
        }
        v
    };
    // reference answers of every axis: from an owned buffer on a thread that has seen nothing else
    let reference: Vec<Vec<u64>> = axes.iter().map(|a| std::thread::scope(|s| s.spawn(|| answers(&a.clone())).join().expect("reference thread"))).collect();
    out.states += axes.len() as u64;
    let mut buf = axes[0].clone();
    for (ia, a) in axes.iter().enumerate() {
        for (ib, b) in axes.iter().enumerate() {
            if ia == ib {
                continue;
            }
            buf.copy_from_slice(a);
            let first = catch(|| answers(&buf));
            buf.copy_from_slice(b);
            let second = catch(|| answers(&buf));
            out.evals += 2;
            out.nontrivial += 1;
            out.transitions += 2;
            let ok = first.as_ref().ok() == Some(&reference[ia]) && second.as_ref().ok() == Some(&reference[ib]);
            out.outcome(if ok { "storage-reuse:same" } else { "storage-reuse:differs" });
            if !ok {
                out.violate(
                    format!("storage-reuse:n{n}:{ia}->{ib}"),
                    format!("interpolators over a view of one buffer: after the buffer held {a:?} and then {b:?}, the answers differ from those of interpolators built from owned copies on a fresh thread (first axis ok: {}, second axis ok: {})", first.as_ref().ok() == Some(&reference[ia]), second.as_ref().ok() == Some(&reference[ib])),
                    Json::obj(vec![("first_axis", Json::f64s(a)), ("second_axis", Json::f64s(b))]),
                );
                return;
            }
        }
    }
    out.sample = Some(Json::obj(vec![("n", Json::Int(n as i128)), ("axes", Json::Int(axes.len() as i128))]));
}

/// Histories over *many* interpolators: A is queried, then N - 1 other interpolators are built (and
/// dropped or kept), then B (other axis) is built and asked the same value. N runs over the places
/// where a narrow counter of interpolators would wrap. B's answer must be the one a thread that has
/// seen nothing else gets. One job, run alone: the number of builds between A and B is exact.
fn many_builds(out: &mut JobOut) {
    use ndarray::{Array1, Array2 as A2};
    use ndarray_interp::interp1d::{cubic_spline::CubicSpline, Interp1DBuilder};
    use ndarray_interp::interp2d::Interp2DBuilder;
    let xa: Vec<f64> = (0..60).map(|i| i as f64).collect();
    let xb: Vec<f64> = vec![0.0, 1.0, 2.0, 3.0, 60.0];
    let ya: Vec<f64> = xa.iter().map(|v| 0.5 * v * v - 3.0 * v).collect();
    let yb: Vec<f64> = xb.iter().map(|v| (0.7 * v).sin() * 4.0 + v).collect();
    let qs = [6.5, 50.25, 3.0];
    let ns: [usize; 12] = [1, 2, 3, 255, 256, 257, 511, 512, 65535, 65536, 65537, 131072];
    for flavor in ["Linear", "CubicSpline", "Bilinear"] {
        let ask = |x: &[f64], y: &[f64], q: f64| -> Result<u64, String> {
            let r = match flavor {
                "Linear" => Interp1DBuilder::new(Array1::from(y.to_vec())).x(Array1::from(x.to_vec())).build().map_err(|e| e.to_string())?.interp_scalar(q).map_err(|e| e.to_string())?,
                "CubicSpline" => Interp1DBuilder::new(Array1::from(y.to_vec())).x(Array1::from(x.to_vec())).strategy(CubicSpline::new()).build().map_err(|e| e.to_string())?.interp_scalar(q).map_err(|e| e.to_string())?,
                _ => {
                    let z = A2::from_shape_fn((x.len(), 2), |(i, j)| y[i] * (1 + j) as f64);
                    Interp2DBuilder::new(z).x(Array1::from(x.to_vec())).y(Array1::from(vec![0.0, 2.0])).build().map_err(|e| e.to_string())?.interp_scalar(q, 0.5).map_err(|e| e.to_string())?
                }
            };
            Ok(r.to_bits())
        };
        let filler = |keep: &mut Vec<Box<dyn std::any::Any>>, keep_alive: bool| match flavor {
            "Bilinear" => {
                let f = Interp2DBuilder::new(A2::<f64>::zeros((2, 2))).build().expect("valid");
                if keep_alive {
                    keep.push(Box::new(f));
                }
            }
            _ => {
                let f = Interp1DBuilder::new(Array1::from(vec![0.0, 1.0])).build().expect("valid");
                if keep_alive {
                    keep.push(Box::new(f));
                }
            }
        };
        for &q in &qs {
            let reference = std::thread::scope(|s| s.spawn(|| ask(&xb, &yb, q)).join().expect("reference thread"));
            out.states += 1;
            for &n in &ns {
                for keep_alive in [false, true] {
                    if keep_alive && n > 70000 {
                        continue;
                    }
                    let got = catch(|| {
                        let first = ask(&xa, &ya, q);
                        let mut keep: Vec<Box<dyn std::any::Any>> = vec![];
                        for _ in 1..n {
                            filler(&mut keep, keep_alive);
                        }
                        (first, ask(&xb, &yb, q))
                    });
                    out.evals += 1;
                    out.nontrivial += 1;
                    out.transitions += n as u64;
                    let ok = matches!(&got, Ok((_, b)) if *b == reference);
                    out.outcome(format!("many-builds:{}", if ok { "same" } else { "differs" }));
                    if !ok {
                        let show = |r: &Result<u64, String>| match r {
                            Ok(b) => format!("{:e}", f64::from_bits(*b)),
                            Err(e) => format!("Err({e})"),
                        };
                        let text = match &got {
                            Ok((_, b)) => show(b),
                            Err(p) => format!("panic: {p}"),
                        };
                        out.violate(
                            format!("many-builds:{flavor}:n{n}"),
                            format!("{flavor}: interpolator B asked {q} answers {text} when it is the {n}-th interpolator built after another interpolator A was asked {q} on the same thread (fillers {}), but {} on a thread that has seen nothing else", if keep_alive { "kept alive" } else { "dropped at once" }, show(&reference)),
                            Json::obj(vec![("flavor", Json::str(flavor)), ("q", Json::Num(q)), ("builds_between", Json::Int(n as i128)), ("keep_alive", Json::Bool(keep_alive))]),
                        );
                        break;
                    }
                }
            }
        }
    }
    out.sample = Some(Json::str("A asked q; N-1 builds; B built and asked q; N in {1,2,3,255,256,257,511,512,65535,65536,65537,131072}"));
}

// ------------------------------------------------------------------------------------------
// queries while the calling thread shuts down

/// a value in thread-local storage that asks its interpolator once more when it is dropped,
/// i.e. while the thread is being torn down
struct Parting {
    name: &'static str,
    w: Arc<Box<dyn Subject>>,
    ops: Vec<usize>,
    report: Arc<Mutex<Vec<(&'static str, usize, Outcome)>>>,
}

impl Drop for Parting {
    fn drop(&mut self) {
        for &o in &self.ops {
            let got = std::panic::catch_unwind(std::panic::AssertUnwindSafe(|| self.w.op(o))).unwrap_or(Outcome::Panic);
            if let Ok(mut r) = self.report.lock() {
                r.push((self.name, o, got));
            }
        }
    }
}

thread_local! {
    static PARTING_EARLY: std::cell::RefCell<Option<Parting>> = const { std::cell::RefCell::new(None) };
    static PARTING_LATE: std::cell::RefCell<Option<Parting>> = const { std::cell::RefCell::new(None) };
}

/// For every kind of interpolator: a fresh OS thread installs one such value before its first
/// query and one after its queries; both ask again from their destructors at thread exit (one
/// before, one after the crate's own thread-local state - if it has any - is destroyed). The
/// answers must be the sequential ones.
fn teardown_queries(kind: usize, out: &mut JobOut) {
    let ops = [0usize, 1, 2, 5, 8, 13];
    let w: Arc<Box<dyn Subject>> = Arc::new(build(kind));
    let canon: Vec<Outcome> = (0..NOPS).map(|o| if ops.contains(&o) { w.op(o) } else { Outcome::Panic }).collect();
    let report: Arc<Mutex<Vec<(&'static str, usize, Outcome)>>> = Arc::new(Mutex::new(vec![]));
    for history in [vec![], vec![0usize], vec![2, 5, 1, 0]] {
        report.lock().unwrap().clear();
        let (w2, r2, h2) = (w.clone(), report.clone(), history.clone());
        let joined = std::thread::spawn(move || {
            PARTING_EARLY.with(|p| *p.borrow_mut() = Some(Parting { name: "value installed before the thread's first query", w: w2.clone(), ops: ops.to_vec(), report: r2.clone() }));
            for &o in &h2 {
                let _ = w2.op(o);
            }
            PARTING_LATE.with(|p| *p.borrow_mut() = Some(Parting { name: "value installed after the thread's queries", w: w2.clone(), ops: ops.to_vec(), report: r2.clone() }));
        })
        .join();
        out.states += 1;
        let got = report.lock().unwrap().clone();
        out.transitions += got.len() as u64;
        let mut bad = None;
        if joined.is_err() {
            bad = Some("the thread panicked".to_string());
        } else if got.len() != 2 * ops.len() {
            bad = Some(format!("{} of {} answers arrived", got.len(), 2 * ops.len()));
        }
        for (name, o, g) in &got {
            out.evals += 1;
            out.nontrivial += 1;
            out.outcome(if *g == canon[*o] { "teardown:same" } else { "teardown:differs" });
            if *g != canon[*o] && bad.is_none() {
                bad = Some(format!("op '{}' asked from the destructor of a thread-local ({name}) returned {}, sequentially {}", OP_NAMES[*o], short(g), short(&canon[*o])));
            }
        }
        if let Some(b) = bad {
            out.violate(
                format!("teardown:{}:history{history:?}", KINDS[kind]).replace(' ', ""),
                format!("{}: after the history {:?} on a fresh OS thread, {b}", KINDS[kind], history.iter().map(|&o| OP_NAMES[o]).collect::<Vec<_>>()),
                Json::obj(vec![("interpolator", Json::str(KINDS[kind])), ("history", Json::Arr(history.iter().map(|&o| Json::str(OP_NAMES[o])).collect()))]),
            );
            return;
        }
    }
    out.sample = Some(Json::obj(vec![("interpolator", Json::str(KINDS[kind]))]));
}

#[derive(Clone, Debug)]
enum Job {
    SendSync,
    /// histories over *several* interpolators that share storage: an axis buffer is overwritten
    /// (same address, length and end points, other interior knots) between two builds
    StorageReuse { n: usize },
    /// queries from destructors of thread-local values at thread exit
    Teardown { kind: usize },
    Hist { kind: usize, first: usize, depth: usize },
    Sched(Program),
}

fn body(ctx: &Ctx) -> (Summary, Meta) {
    let quick = ctx.quick();
    assert!(verif_hooks::install_sched_point(sched_hook), "hook already installed");
    let depth = if quick { 3 } else { 4 };
    let mut jobs = vec![Job::SendSync];
    for n in 3..=7 {
        jobs.push(Job::StorageReuse { n });
    }
    for kind in 0..KINDS.len() {
        jobs.push(Job::Teardown { kind });
    }
    for kind in 0..KINDS.len() {
        for first in 0..NOPS {
            jobs.push(Job::Hist { kind, first, depth });
        }
    }
    // schedule programs: every candidate whose number of interleavings (computed from the number
    // of scheduling points each op passes) fits the budget of the tier
    let budget = if quick { 1.3e5 } else { 6.0e6 };
    let mut over_budget = 0u64;
    let mut est_total = 0.0;
    let mut selected_per_kind = vec![0u64; KINDS.len()];
    for kind in 0..KINDS.len() {
        let pts: Vec<u64> = (0..NOPS).map(|o| points_of(kind, o)).collect();
        #[allow(unused_assignments)]
        let mut cands: Vec<Vec<Vec<usize>>> = vec![];
        for &a in &SCHED_OPS {
            for &b in &SCHED_OPS {
                cands.push(vec![vec![a], vec![b]]);
            }
        }
        for (a, b) in [((1, 0), (2, 0)), ((0, 1), (1, 0)), ((2, 3), (0, 1)), ((0, 0), (1, 1)), ((1, 2), (3, 0))] {
            cands.push(vec![vec![a.0, a.1], vec![b.0, b.1]]);
        }
        for t in [[1usize, 0, 2], [0, 0, 1], [2, 3, 0], [1, 1, 0], [3, 0, 1], [0, 2, 2]] {
            cands.push(t.iter().map(|&o| vec![o]).collect());
        }
        if kind >= 8 && kind != 10 {
            continue; // the scalar kinds share their query path with kinds 0 and 6; kind 11 is for histories
        }
        if kind == 10 {
            cands = vec![vec![vec![1], vec![0]], vec![vec![0], vec![2]], vec![vec![5], vec![1]], vec![vec![1], vec![0], vec![2]]];
        }
        for threads in cands {
            // a thread with p points has p + 1 segments; spawn and finish add one each
            let seg: Vec<u64> = threads.iter().map(|ops| ops.iter().map(|&o| pts[o]).sum::<u64>() + 2).collect();
            let est = interleavings(&seg);
            if est <= budget {
                est_total += est;
                selected_per_kind[kind] += 1;
                jobs.push(Job::Sched(Program { kind, threads, bound: usize::MAX }));
            } else {
                // too many interleavings for an unbounded search: every schedule with at most
                // `pb` preemptions instead
                over_budget += 1;
                let total: u64 = seg.iter().sum();
                let pb = if !quick && (total as f64).powi(3) * (seg.len() as f64).powi(3) <= budget * 8.0 { 3 } else { 2 };
                jobs.push(Job::Sched(Program { kind, threads, bound: pb }));
            }
        }
    }
    let njobs = jobs.len();
    let key = |j: &Job| match j {
        Job::SendSync => "send-sync".to_string(),
        Job::StorageReuse { n } => format!("storage-reuse:n{n}"),
        Job::Teardown { kind } => format!("teardown:{}", KINDS[*kind]),
        Job::Hist { kind, first, .. } => format!("hist:{}:first={first}", KINDS[*kind]),
        Job::Sched(p) => p.key(),
    };
    let work = |j: &Job| {
        let mut out = JobOut::default();
        match j {
            Job::SendSync => {
                for (name, send, sync) in send_sync_table() {
                    out.evals += 1;
                    out.nontrivial += 1;
                    out.outcome(format!("Send={send},Sync={sync}"));
                    if !(send && sync) {
                        out.violate(format!("send-sync:{name}"), format!("{name} is Send = {send}, Sync = {sync} although its storage is thread safe"), Json::str(&name));
                    }
                }
                out.sample = Some(Json::str("Send/Sync probe of 37 instantiations"));
            }
            Job::StorageReuse { n } => storage_reuse(*n, &mut out),
            Job::Teardown { kind } => teardown_queries(*kind, &mut out),
            Job::Hist { kind, first, depth } => {
                explore_histories(*kind, *first, *depth, &mut out);
                if out.sample.is_none() {
                    out.sample = Some(Json::obj(vec![("interpolator", Json::str(KINDS[*kind])), ("first_op", Json::str(OP_NAMES[*first])), ("depth", Json::Int(*depth as i128))]));
                }
            }
            Job::Sched(p) => run_program(p, &mut out),
        }
        out
    };
    // histories first: they contain caught subject panics, and shuttle installs a process-wide
    // panic hook with its first runner
    let (hist_jobs, sched_jobs): (Vec<Job>, Vec<Job>) = jobs.into_iter().partition(|j| !matches!(j, Job::Sched(_)));
    // alone, before anything else builds interpolators on other threads
    let mut sum = run_jobs(ctx, "histories-over-many-interpolators", &[()], |_| "many-builds".to_string(), |_| {
        let mut out = JobOut::default();
        many_builds(&mut out);
        out
    });
    sum.merge(run_jobs(ctx, "send-sync+histories", &hist_jobs, key, work));
    sum.merge(run_jobs(ctx, "schedules", &sched_jobs, key, work));
    // (c') the same kind of programs on the instrumented build (every atomic access and lock
    // operation of the subject is a scheduling point): a separate binary, see mc/c17s
    sum.merge(run_jobs(ctx, "schedules-on-instrumented-build", &[()], |_| "instrumented".to_string(), |_| {
        let mut out = JobOut::default();
        let exe = std::env::current_exe().expect("current exe");
        let c17s = exe.parent().expect("exe dir").join("c17s");
        if !c17s.exists() {
            panic!("{} not found: run the check through /verif/bin/check, which builds it (machinery error)", c17s.display());
        }
        let mut cmd = std::process::Command::new(&c17s);
        cmd.arg(ctx.tier.name()).env("RUST_BACKTRACE", "0");
        if let Some(k) = ctx.only_key.as_ref().filter(|k| k.starts_with("instr:")) {
            cmd.arg("--only-key").arg(k);
        }
        let o = cmd.output().expect("run c17s");
        let text = String::from_utf8_lossy(&o.stdout).to_string();
        let mut got_result = false;
        for line in text.lines() {
            if let Some(rest) = line.strip_prefix("C17S-VIOLATION key=") {
                let (key, what) = rest.split_once(" what=").unwrap_or((rest, ""));
                out.violate(key.to_string(), format!("instrumented build: {what}"), Json::obj(vec![("engine", Json::str("shuttle DFS on the instrumented build (atomic accesses are scheduling points)")), ("program", Json::str(key))]));
                out.outcome("instrumented-schedule:violation");
            } else if let Some(rest) = line.strip_prefix("C17S-RESULT ") {
                got_result = true;
                for kv in rest.split_whitespace() {
                    if let Some((k, v)) = kv.split_once('=') {
                        let v: u64 = v.parse().unwrap_or(0);
                        match k {
                            "programs" => {
                                out.states += v;
                                out.nontrivial += v;
                                out.count("instrumented_build_programs", v);
                            }
                            "schedules" => {
                                out.evals += v;
                                out.transitions += v;
                                out.count("instrumented_build_schedules", v);
                            }
                            "every_interleaving" => out.count("instrumented_build_programs_with_every_interleaving", v),
                            "not_run_because_of_the_time_cap" => out.count("instrumented_build_programs_not_run(time cap)", v),
                            "searches_stopped_by_the_per_program_time_cap" => out.count("instrumented_build_program_searches_stopped_by_the_time_cap(not exhaustive for those)", v),
                            "cell_accesses_are_scheduling_points" => out.count("instrumented_build_cell_accesses_are_scheduling_points", v),
                            _ => {}
                        }
                    }
                }
            }
        }
        if !got_result {
            panic!("c17s did not finish (exit {:?}): {} (machinery error)", o.status.code(), String::from_utf8_lossy(&o.stderr).lines().rev().take(3).collect::<Vec<_>>().join(" | "));
        }
        out.outcome("instrumented-schedules:run");
        out.sample = Some(Json::str("2- and 3-thread programs on the instrumented build, see mc/c17s/src/main.rs"));
        out
    }));
    // a search that was stopped by its wall-time share, or a program that was not run, makes the run
    // as a whole a capped one: the evidence must not call it exhaustive
    if sum.total.counters.iter().any(|(k, &v)| v > 0 && (k.contains("stopped_by_the_time_cap") || k.contains("not_run(time cap)"))) {
        sum.capped = true;
    }
    let _ = (Ix1::default(), Ix3::default(), ArrayD::<f64>::zeros(IxDyn(&[1])));
    let meta = Meta {
        rule: format!("(0) histories over many interpolators (run alone, so the count is exact): A is asked q, N - 1 further interpolators are built (dropped at once / kept alive), B over another axis is built and asked q, N in {{1,2,3,255,256,257,511,512,65535,65536,65537,131072}}, Linear / CubicSpline / Bilinear, 3 values of q; B must answer bit for bit what a fresh thread gets; (0') for every interpolator kind a fresh OS thread asks 6 ops again from the destructors of two thread-local values (installed before its first query / after a history of 0, 1 or 4 queries) while it shuts down: sequential answers required; (a) Send and Sync are probed for 37 instantiations over owned / view / shared / copy-on-write storage; (b) for each of 8 interpolators every history of at most {depth} operations over a 16-op alphabet (all entry points; knot, interior, other interval, out of range -> Err, NaN -> Err, late failure in a batch, wrongly shaped buffer -> panic, ops on a sibling interpolator with another axis) is executed on a fresh interpolator: every occurrence of an op must return the bits it returns on a fresh interpolator (the Debug fingerprint of the interpolator is recorded after every step; on the current tree it never changes, i.e. the explored state space is a single state with self loops); (c) for each interpolator every ordered pair of a 5-op alphabet as a 2-thread program, plus 3-thread programs (thorough: plus 2x2-op programs), explored by shuttle's exhaustive DFS over all interleavings at the hook scheduling points; every result must equal the sequential answer; the DFS is run twice and the schedule counts compared; (c') the same programs (Linear, CubicSpline, Bilinear, Periodic+extrapolate, and a 70-knot axis) on an *instrumented build* of the current sources in which every std::sync primitive is shuttle's, so that every atomic access and lock operation is a scheduling point as well (every interleaving when the program is small, else every schedule with at most 2 preemptions; std::cell accesses are scheduling points too, thread_local! storage is per simulated thread, scoped threads the crate starts itself are simulated threads; programs with two different out-of-range queries, with 2^15+3-element batches, and with 15 (thorough 7 / 15 / 63) short-lived filler threads between the two threads; each search has a wall-time share, a stopped search makes the run a capped one). A program that fails under shuttle on the normal build is reported only if it also fails when explored with one OS thread per thread (nimc::baton, <= 2 / 3 preemptions). Non-trivial: history mixing failing and successful calls / every schedule program."),
        bounds: format!("{njobs} jobs: 1 Send/Sync table, {} history roots (depth {depth}: {} histories per interpolator), {} schedule programs; tier {}", KINDS.len() * NOPS, (1..=depth).map(|d| NOPS.pow(d as u32)).sum::<usize>(), njobs - 1 - KINDS.len() * NOPS, ctx.tier.name()),
        assumptions: vec![
            "scheduling points: the hook points (entry, before/after the lookup, inside the lookup, exit, per batch element) and, on the instrumented build, every std::sync atomic / lock operation; on the normal build the simulated threads of shuttle share the OS thread's thread_local! state, which is why failures there are confirmed on OS threads".into(),
            "shuttle models sequential consistency".into(),
        ],
        extra: vec![
            ("schedule_programs_explored_with_a_preemption_bound_instead_of_every_interleaving".into(), Json::Int(over_budget as i128)),
            ("estimated_interleavings_of_selected_programs".into(), Json::Num(est_total)),
            ("schedule_programs_per_interpolator".into(), Json::Obj(KINDS.iter().zip(&selected_per_kind).map(|(k, n)| (k.to_string(), Json::Int(*n as i128))).collect())),
        ],
    };
    (sum, meta)
}

fn main() {
    main_with("C17", body)
}
