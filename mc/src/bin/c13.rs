//! C13 - results do not depend on the memory layout or ownership of any array argument.
use ndarray::{
    Array1, ArrayD, ArrayViewMutD, Axis, Ix1, Ix2, Ix3, Ix4, IxDyn, ShapeBuilder, Slice,
};
use ndarray_interp::interp1d::cubic_spline::{BoundaryCondition, CubicSpline, RowBoundary, SingleBoundary};
use ndarray_interp::interp1d::{Interp1DBuilder, Linear};
use ndarray_interp::interp2d::{Bilinear, Interp2DBuilder};
use ndarray_interp::InterpolateError;
use nimc::{catch, main_with, run_jobs, Ctx, JobOut, Json, Meta, Summary};

const POISON: f64 = -777.25;

// ------------------------------------------------------------------------------------------
// layouts of an input array (owned arrays with unusual strides; same logical contents)

fn layouts_in(a: &ArrayD<f64>, full: bool) -> Vec<(String, ArrayD<f64>)> {
    let shape: Vec<usize> = a.shape().to_vec();
    let nd = shape.len();
    let mut v = vec![("C".to_string(), a.clone())];
    if nd == 0 {
        return v;
    }
    // F order
    let mut f = ArrayD::zeros(IxDyn(&shape).f());
    f.assign(a);
    v.push(("F".into(), f));
    // every k-th element of a larger poisoned array (along every axis)
    for k in [2usize, 3] {
        if k == 3 && !full {
            continue;
        }
        let big_shape: Vec<usize> = shape.iter().map(|&s| s * k + 1).collect();
        let mut big = ArrayD::from_elem(IxDyn(&big_shape), POISON);
        {
            let mut w = big.view_mut();
            for ax in 0..nd {
                w.slice_axis_inplace(Axis(ax), Slice::new(1, None, k as isize));
                w.slice_axis_inplace(Axis(ax), Slice::from(0..shape[ax]));
            }
            w.assign(a);
        }
        let mut owned = big;
        for ax in 0..nd {
            owned.slice_axis_inplace(Axis(ax), Slice::new(1, None, k as isize));
            owned.slice_axis_inplace(Axis(ax), Slice::from(0..shape[ax]));
        }
        v.push((format!("every{k}"), owned));
    }
    // reversed along each axis (memory order reversed, negative stride)
    for ax in 0..nd {
        if !full && ax > 0 && ax + 1 < nd {
            continue;
        }
        let mut r = a.clone();
        r.invert_axis(Axis(ax));
        let mut r = r.as_standard_layout().to_owned(); // memory now holds the reversed order
        r.invert_axis(Axis(ax));
        v.push((format!("rev{ax}"), r));
    }
    // permuted axes storage
    if nd >= 2 {
        let t = a.clone().reversed_axes().as_standard_layout().to_owned(); // memory = transposed
        v.push(("perm".into(), t.reversed_axes()));
    }
    for (n, l) in &v {
        assert!(l == a, "layout {n} changed the logical contents (machinery)");
    }
    v
}

/// The 3-layout core used for the full product
fn core3(a: &ArrayD<f64>) -> Vec<(String, ArrayD<f64>)> {
    let nd = a.ndim();
    let all = layouts_in(a, false);
    let mut v: Vec<(String, ArrayD<f64>)> = all.iter().filter(|(n, _)| n == "C" || n == "F").cloned().collect();
    if nd >= 1 {
        // reversed + strided
        let shape: Vec<usize> = a.shape().to_vec();
        let big_shape: Vec<usize> = shape.iter().map(|&s| s * 2 + 1).collect();
        let mut big = ArrayD::from_elem(IxDyn(&big_shape), POISON);
        let mut rev = a.clone();
        rev.invert_axis(Axis(0));
        let mut owned = {
            {
                let mut w = big.view_mut();
                for ax in 0..nd {
                    w.slice_axis_inplace(Axis(ax), Slice::new(1, None, 2));
                    w.slice_axis_inplace(Axis(ax), Slice::from(0..shape[ax]));
                }
                w.assign(&rev);
            }
            big
        };
        for ax in 0..nd {
            owned.slice_axis_inplace(Axis(ax), Slice::new(1, None, 2));
            owned.slice_axis_inplace(Axis(ax), Slice::from(0..shape[ax]));
        }
        owned.invert_axis(Axis(0));
        assert!(owned == *a);
        v.push(("rev-strided".into(), owned));
    }
    v
}

// ------------------------------------------------------------------------------------------
// buffers: a view with a given layout into a larger poisoned array

const BUF_LAYOUTS: [&str; 6] = ["C", "F", "every2", "rev0", "perm", "rev-last+window"];

/// run `call` on a buffer view of logical `shape` with the given layout; returns the call's
/// result, the logical contents and whether the memory outside the view is untouched
fn with_buffer(
    layout: &str,
    shape: &[usize],
    call: &dyn Fn(ArrayViewMutD<f64>) -> Option<Result<Result<(), InterpolateError>, String>>,
) -> Option<(Result<Result<(), InterpolateError>, String>, ArrayD<f64>, bool)> {
    let nd = shape.len();
    let (mut big, mk): (ArrayD<f64>, Box<dyn Fn(&mut ArrayD<f64>) -> ArrayViewMutD<f64>>) = match layout {
        "C" => (ArrayD::from_elem(IxDyn(shape), POISON), Box::new(|b| b.view_mut())),
        "F" => (ArrayD::from_elem(IxDyn(shape).f(), POISON), Box::new(|b| b.view_mut())),
        "every2" => {
            let bs: Vec<usize> = shape.iter().map(|&s| 2 * s + 1).collect();
            let sh = shape.to_vec();
            (
                ArrayD::from_elem(IxDyn(&bs), POISON),
                Box::new(move |b| {
                    let mut w = b.view_mut();
                    for ax in 0..sh.len() {
                        w.slice_axis_inplace(Axis(ax), Slice::new(1, None, 2));
                        w.slice_axis_inplace(Axis(ax), Slice::from(0..sh[ax]));
                    }
                    w
                }),
            )
        }
        "rev0" => (
            ArrayD::from_elem(IxDyn(shape), POISON),
            Box::new(move |b| {
                let mut w = b.view_mut();
                if w.ndim() > 0 {
                    w.invert_axis(Axis(0));
                }
                w
            }),
        ),
        "perm" => {
            let rs: Vec<usize> = shape.iter().rev().cloned().collect();
            (ArrayD::from_elem(IxDyn(&rs), POISON), Box::new(|b| b.view_mut().reversed_axes()))
        }
        _ => {
            let bs: Vec<usize> = shape.iter().map(|&s| s + 2).collect();
            let sh = shape.to_vec();
            (
                ArrayD::from_elem(IxDyn(&bs), POISON),
                Box::new(move |b| {
                    let mut w = b.view_mut();
                    for ax in 0..sh.len() {
                        w.slice_axis_inplace(Axis(ax), Slice::from(1..1 + sh[ax]));
                    }
                    if !sh.is_empty() {
                        w.invert_axis(Axis(sh.len() - 1));
                    }
                    w
                }),
            )
        }
    };
    let _ = nd;
    let res = {
        let w = mk(&mut big);
        assert_eq!(w.shape(), shape);
        call(w)?
    };
    // logical contents, then blank them to check the rest of the memory
    let logical = mk(&mut big).to_owned();
    mk(&mut big).fill(POISON);
    let outside_ok = big.iter().all(|v| v.to_bits() == POISON.to_bits());
    Some((res, logical, outside_ok))
}

// ------------------------------------------------------------------------------------------

#[derive(Clone, Debug)]
struct Job {
    two_d: bool,
    strat: &'static str,
    data_shape: Vec<usize>,
    query_shape: Vec<usize>,
    /// static dimension types to instantiate: (data, query); "dyn" = IxDyn
    inst: (&'static str, &'static str),
    /// the query holds two different out-of-range values (first and last element): the calls
    /// fail, and must fail identically (same message, same partial fill) for every layout
    failing: bool,
}
impl Job {
    fn key(&self) -> String {
        format!(
            "{}{}:{}:data{:?}:query{:?}:{}x{}",
            if self.two_d { "Interp2D" } else { "Interp1D" },
            if self.failing { "(failing-batch)" } else { "" },
            self.strat,
            self.data_shape,
            self.query_shape,
            self.inst.0,
            self.inst.1
        )
        .replace(' ', "")
    }
}

#[derive(Clone, Debug, PartialEq)]
enum Obs {
    Ok(Vec<usize>, Vec<u64>),
    /// the error message (it names the offending query value)
    Err(String),
    Panic(String),
}

fn obs_arr(a: &ArrayD<f64>) -> Obs {
    Obs::Ok(a.shape().to_vec(), a.iter().map(|v| if v.is_nan() { u64::MAX } else { v.to_bits() }).collect())
}

struct Args<'a> {
    data: &'a ArrayD<f64>,
    x: &'a Array1<f64>,
    y: Option<&'a Array1<f64>>,
    q: &'a ArrayD<f64>,
    qy: Option<&'a ArrayD<f64>>,
    bounds: Option<&'a ArrayD<RowBoundary<f64>>>,
    buf: &'a str,
}

fn boundary_rows(shape: &[usize], f_order: bool) -> ArrayD<RowBoundary<f64>> {
    let mut s = shape.to_vec();
    s[0] = 1;
    let mut c = 0usize;
    let rows = ArrayD::from_shape_fn(IxDyn(&s), |_| {
        c += 1;
        match c % 4 {
            0 => RowBoundary::Natural,
            1 => RowBoundary::Mixed { left: SingleBoundary::FirstDeriv(0.5), right: SingleBoundary::NotAKnot },
            2 => RowBoundary::Clamped,
            _ => RowBoundary::Mixed { left: SingleBoundary::Natural, right: SingleBoundary::SecondDeriv(-2.0) },
        }
    });
    if f_order {
        let mut f = ArrayD::from_elem(IxDyn(&s).f(), RowBoundary::NotAKnot);
        f.assign(&rows);
        f
    } else {
        rows
    }
}

/// run the four call forms on one concrete instantiation; outputs in logical form.
/// (a macro, not a generic function: the crate's `DimExtension` bound is private)
macro_rules! inst_1d {
    ($name:ident, $d:ty, $dq:ty) => {
        fn $name(strat: &str, a: &Args) -> Option<Vec<(String, Obs, bool)>> {
            let data = a.data.clone().into_dimensionality::<$d>().ok()?;
            let q = a.q.clone().into_dimensionality::<$dq>().ok()?;
            let x = a.x.clone();
            let q0 = a.q.iter().next().cloned().unwrap_or(1.0);
            let mut expected = a.q.shape().to_vec();
            expected.extend_from_slice(&a.data.shape()[1..]);
            let single_shape = a.data.shape()[1..].to_vec();
            macro_rules! calls {
                ($ip:expr) => {{
                    let ip = $ip;
                    let mut out = vec![];
                    let r = catch(|| ip.interp(q0));
                    out.push(("interp".to_string(), match r { Ok(Ok(v)) => obs_arr(&v.into_dyn()), Ok(Err(e)) => Obs::Err(e.to_string()), Err(p) => Obs::Panic(p) }, true));
                    let r = catch(|| ip.interp_array(&q));
                    out.push(("interp_array".to_string(), match r { Ok(Ok(v)) => obs_arr(&v.into_dyn()), Ok(Err(e)) => Obs::Err(e.to_string()), Err(p) => Obs::Panic(p) }, true));
                    if let Some((r, logical, intact)) = with_buffer(a.buf, &single_shape, &|w| { let w2 = w.into_dimensionality().ok()?; Some(catch(|| ip.interp_into(q0, w2))) }) {
                        out.push(("interp_into".to_string(), match r { Ok(Ok(())) => obs_arr(&logical), Ok(Err(e)) => Obs::Err(e.to_string()), Err(p) => Obs::Panic(p) }, intact));
                    }
                    if let Some((r, logical, intact)) = with_buffer(a.buf, &expected, &|w| { let w2 = w.into_dimensionality().ok()?; Some(catch(|| ip.interp_array_into(&q, w2))) }) {
                        out.push(("interp_array_into".to_string(), match r { Ok(Ok(())) => obs_arr(&logical), Ok(Err(e)) => Obs::Err(e.to_string()), Err(p) => Obs::Panic(p) }, intact));
                    }
                    out
                }};
            }
            Some(match strat {
                "Linear" => calls!(Interp1DBuilder::new(data).x(x).strategy(Linear::new()).build().ok()?),
                "Linear+extrapolate" => calls!(Interp1DBuilder::new(data).x(x).strategy(Linear::new().extrapolate(true)).build().ok()?),
                "Cubic/Periodic" => calls!(Interp1DBuilder::new(data).x(x).strategy(CubicSpline::new().boundary(BoundaryCondition::Periodic).extrapolate(true)).build().ok()?),
                _ => {
                    let b = a.bounds?.clone().into_dimensionality::<$d>().ok()?;
                    calls!(Interp1DBuilder::new(data).x(x).strategy(CubicSpline::new().boundary(BoundaryCondition::Individual(b))).build().ok()?)
                }
            })
        }
    };
}

macro_rules! inst_2d {
    ($name:ident, $d:ty, $dq:ty) => {
        fn $name(strat: &str, a: &Args) -> Option<Vec<(String, Obs, bool)>> {
            let data = a.data.clone().into_dimensionality::<$d>().ok()?;
            let qx = a.q.clone().into_dimensionality::<$dq>().ok()?;
            let qy = a.qy?.clone().into_dimensionality::<$dq>().ok()?;
            let (x, y) = (a.x.clone(), a.y?.clone());
            let q0 = a.q.iter().next().cloned().unwrap_or(1.0);
            let q1 = a.qy?.iter().next().cloned().unwrap_or(1.0);
            let mut expected = a.q.shape().to_vec();
            expected.extend_from_slice(&a.data.shape()[2..]);
            let single_shape = a.data.shape()[2..].to_vec();
            let ip = Interp2DBuilder::new(data).x(x).y(y).strategy(Bilinear::new().extrapolate(strat == "Bilinear")).build().ok()?;
            let mut out = vec![];
            let r = catch(|| ip.interp(q0, q1));
            out.push(("interp".to_string(), match r { Ok(Ok(v)) => obs_arr(&v.into_dyn()), Ok(Err(e)) => Obs::Err(e.to_string()), Err(p) => Obs::Panic(p) }, true));
            let r = catch(|| ip.interp_array(&qx, &qy));
            out.push(("interp_array".to_string(), match r { Ok(Ok(v)) => obs_arr(&v.into_dyn()), Ok(Err(e)) => Obs::Err(e.to_string()), Err(p) => Obs::Panic(p) }, true));
            if let Some((r, logical, intact)) = with_buffer(a.buf, &single_shape, &|w| { let w2 = w.into_dimensionality().ok()?; Some(catch(|| ip.interp_into(q0, q1, w2))) }) {
                out.push(("interp_into".to_string(), match r { Ok(Ok(())) => obs_arr(&logical), Ok(Err(e)) => Obs::Err(e.to_string()), Err(p) => Obs::Panic(p) }, intact));
            }
            if let Some((r, logical, intact)) = with_buffer(a.buf, &expected, &|w| { let w2 = w.into_dimensionality().ok()?; Some(catch(|| ip.interp_array_into(&qx, &qy, w2))) }) {
                out.push(("interp_array_into".to_string(), match r { Ok(Ok(())) => obs_arr(&logical), Ok(Err(e)) => Obs::Err(e.to_string()), Err(p) => Obs::Panic(p) }, intact));
            }
            Some(out)
        }
    };
}

inst_1d!(i1_1_1, Ix1, Ix1);
inst_1d!(i1_2_1, Ix2, Ix1);
inst_1d!(i1_3_1, Ix3, Ix1);
inst_1d!(i1_4_1, Ix4, Ix1);
inst_1d!(i1_1_2, Ix1, Ix2);
inst_1d!(i1_2_2, Ix2, Ix2);
inst_1d!(i1_3_2, Ix3, Ix2);
inst_1d!(i1_2_3, Ix2, Ix3);
inst_1d!(i1_2_0, Ix2, ndarray::Ix0);
inst_1d!(i1_d_d, IxDyn, IxDyn);
inst_1d!(i1_d_1, IxDyn, Ix1);
inst_1d!(i1_2_d, Ix2, IxDyn);
inst_2d!(i2_2_1, Ix2, Ix1);
inst_2d!(i2_3_1, Ix3, Ix1);
inst_2d!(i2_4_1, Ix4, Ix1);
inst_2d!(i2_3_2, Ix3, Ix2);
inst_2d!(i2_3_3, Ix3, Ix3);
inst_2d!(i2_d_d, IxDyn, IxDyn);
inst_2d!(i2_d_1, IxDyn, Ix1);
inst_2d!(i2_3_d, Ix3, IxDyn);

type Runner = fn(&str, &Args) -> Option<Vec<(String, Obs, bool)>>;

fn runner(two_d: bool, inst: (&str, &str)) -> Runner {
    match (two_d, inst.0, inst.1) {
        (false, "Ix1", "Ix1") => i1_1_1,
        (false, "Ix2", "Ix1") => i1_2_1,
        (false, "Ix3", "Ix1") => i1_3_1,
        (false, "Ix4", "Ix1") => i1_4_1,
        (false, "Ix1", "Ix2") => i1_1_2,
        (false, "Ix2", "Ix2") => i1_2_2,
        (false, "Ix3", "Ix2") => i1_3_2,
        (false, "Ix2", "Ix3") => i1_2_3,
        (false, "Ix2", "Ix0") => i1_2_0,
        (false, "dyn", "dyn") => i1_d_d,
        (false, "dyn", "Ix1") => i1_d_1,
        (false, "Ix2", "dyn") => i1_2_d,
        (true, "Ix2", "Ix1") => i2_2_1,
        (true, "Ix3", "Ix1") => i2_3_1,
        (true, "Ix4", "Ix1") => i2_4_1,
        (true, "Ix3", "Ix2") => i2_3_2,
        (true, "Ix3", "Ix3") => i2_3_3,
        (true, "dyn", "dyn") => i2_d_d,
        (true, "dyn", "Ix1") => i2_d_1,
        (true, "Ix3", "dyn") => i2_3_d,
        other => panic!("no instantiation {other:?}"),
    }
}

fn data_nd(shape: &[usize], periodic: bool) -> ArrayD<f64> {
    let mut c = 0.0f64;
    let mut d = ArrayD::from_shape_fn(IxDyn(shape), |_| {
        c += 1.0;
        (c * 0.37).sin() * 3.0 + c * 0.1
    });
    if periodic {
        let first = d.index_axis(Axis(0), 0).to_owned();
        let n = shape[0];
        d.index_axis_mut(Axis(0), n - 1).assign(&first);
    }
    d
}

fn query_nd(shape: &[usize], lo: f64, hi: f64, salt: f64) -> ArrayD<f64> {
    let mut c = salt;
    ArrayD::from_shape_fn(IxDyn(shape), |_| {
        c += 1.0;
        lo + (c * 0.61) % (hi - lo)
    })
}

fn run(job: &Job, full: bool, out: &mut JobOut) {
    let f = runner(job.two_d, job.inst);
    let n = job.data_shape[0];
    let x0: Array1<f64> = Array1::from((0..n).map(|i| [0.0, 0.1, 0.5, 1.7, 2.0, 3.3, 4.1][i]).collect::<Vec<_>>());
    let y0: Option<Array1<f64>> = if job.two_d { Some(Array1::from((0..job.data_shape[1]).map(|i| [-1.0, 0.3, 0.9, 2.5, 3.0][i]).collect::<Vec<_>>())) } else { None };
    let data0 = data_nd(&job.data_shape, job.strat == "Cubic/Periodic");
    let mut xs0 = query_nd(&job.query_shape, x0[0], x0[n - 1], 0.0);
    if job.failing {
        let m = xs0.len();
        if m < 2 {
            return;
        }
        // two different offending values placed so that logical order and column-major memory
        // order meet them in different order: logical indices 1 = (0,..,1) and m/shape[0] = (1,0,..)
        let p2 = if job.query_shape.len() >= 2 && job.query_shape[0] >= 2 { m / job.query_shape[0] } else { m - 1 };
        let p1 = if p2 == 1 { 0 } else { 1 };
        for (i, v) in xs0.iter_mut().enumerate() {
            if i == p1 {
                *v = 9.0;
            } else if i == p2 {
                *v = -7.0;
            }
        }
    }
    let ys0 = y0.as_ref().map(|y| query_nd(&job.query_shape, y[0], y[y.len() - 1], 3.0));
    let bounds0 = if job.strat == "Cubic/Individual" { Some(boundary_rows(&job.data_shape, false)) } else { None };
    let key = job.key();
    let reference = {
        let a = Args { data: &data0, x: &x0, y: y0.as_ref(), q: &xs0, qy: ys0.as_ref(), bounds: bounds0.as_ref(), buf: "C" };
        match f(job.strat, &a) {
            Some(r) => r,
            None => return, // instantiation does not match these ranks
        }
    };
    out.states += 1;
    for (name, o, _) in &reference {
        out.outcome(format!("reference:{name}:{}", match o { Obs::Ok(..) => "Ok", Obs::Err(_) => "Err", Obs::Panic(_) => "panic" }));
        if !matches!(o, Obs::Ok(..)) && !(job.failing && matches!(o, Obs::Err(_))) {
            out.violate(format!("{key}:reference:{name}"), format!("the all-C-order reference call {name} did not succeed: {o:?}"), Json::str(&key));
        }
    }
    let x0d = x0.clone().into_dyn();
    let y0d = y0.clone().map(|y| y.into_dyn());
    // candidate layouts per argument
    let l_data = layouts_in(&data0, full);
    let l_x = layouts_in(&x0d, full);
    let l_y: Vec<(String, ArrayD<f64>)> = y0d.as_ref().map(|y| layouts_in(y, full)).unwrap_or_default();
    let l_q = layouts_in(&xs0, full);
    let l_qy: Vec<(String, ArrayD<f64>)> = ys0.as_ref().map(|q| layouts_in(q, full)).unwrap_or_default();
    let check = |what: String, data: &ArrayD<f64>, x: &ArrayD<f64>, y: Option<&ArrayD<f64>>, q: &ArrayD<f64>, qy: Option<&ArrayD<f64>>, bounds: Option<&ArrayD<RowBoundary<f64>>>, buf: &str, out: &mut JobOut| {
        let x1 = x.clone().into_dimensionality::<Ix1>().unwrap();
        let y1 = y.map(|y| y.clone().into_dimensionality::<Ix1>().unwrap());
        let a = Args { data, x: &x1, y: y1.as_ref(), q, qy, bounds, buf };
        let got = f(job.strat, &a).expect("same instantiation");
        out.transitions += got.len() as u64;
        for ((name, want, _), (_, g, intact)) in reference.iter().zip(got.iter()) {
            out.evals += 1;
            if what != "all-C" {
                out.nontrivial += 1;
            }
            let ok = want == g;
            out.outcome(if ok { "bit-identical" } else { "differs" });
            if !ok || !intact {
                let why = if !intact {
                    "memory outside the buffer view was modified".to_string()
                } else {
                    match (want, g) {
                        (Obs::Ok(ws, wv), Obs::Ok(gs, gv)) => {
                            if ws != gs {
                                format!("result shape {gs:?} instead of {ws:?}")
                            } else {
                                let k = wv.iter().zip(gv).position(|(a, b)| a != b).unwrap_or(0);
                                format!("element {k} is {:e} instead of {:e}", f64::from_bits(gv[k]), f64::from_bits(wv[k]))
                            }
                        }
                        (_, o) => format!("{o:?}"),
                    }
                };
                out.violate(
                    format!("{key}:{what}:{name}"),
                    format!("{name} with layout [{what}] differs from the all-C-order run: {why}"),
                    Json::obj(vec![("job", Json::str(&key)), ("layouts", Json::str(&what)), ("call", Json::str(name)), ("data_shape", Json::usizes(&job.data_shape)), ("query_shape", Json::usizes(&job.query_shape))]),
                );
            }
        }
    };
    // each argument independently
    for (ln, d) in l_data.iter().skip(1) {
        check(format!("data={ln}"), d, &x0d, y0d.as_ref(), &xs0, ys0.as_ref(), bounds0.as_ref(), "C", out);
    }
    for (ln, x) in l_x.iter().skip(1) {
        check(format!("x={ln}"), &data0, x, y0d.as_ref(), &xs0, ys0.as_ref(), bounds0.as_ref(), "C", out);
    }
    for (ln, y) in l_y.iter().skip(1) {
        check(format!("y={ln}"), &data0, &x0d, Some(y), &xs0, ys0.as_ref(), bounds0.as_ref(), "C", out);
    }
    for (ln, q) in l_q.iter().skip(1) {
        check(format!("query={ln}"), &data0, &x0d, y0d.as_ref(), q, ys0.as_ref(), bounds0.as_ref(), "C", out);
    }
    for (ln, qy) in l_qy.iter().skip(1) {
        check(format!("ys={ln}"), &data0, &x0d, y0d.as_ref(), &xs0, Some(qy), bounds0.as_ref(), "C", out);
    }
    for b in BUF_LAYOUTS.iter().skip(1) {
        check(format!("buffer={b}"), &data0, &x0d, y0d.as_ref(), &xs0, ys0.as_ref(), bounds0.as_ref(), b, out);
    }
    if bounds0.is_some() {
        let bf = boundary_rows(&job.data_shape, true);
        check("boundary-array=F".into(), &data0, &x0d, y0d.as_ref(), &xs0, ys0.as_ref(), Some(&bf), "C", out);
    }
    // full product on the 3-layout core (data, x, query, buffer) (+ y, ys in 2-D move with x, query)
    let (c_d, c_x, c_q) = (core3(&data0), core3(&x0d), core3(&xs0));
    let c_y = y0d.as_ref().map(core3);
    let c_qy = ys0.as_ref().map(core3);
    for (i, (dn, d)) in c_d.iter().enumerate() {
        for (j, (xn, x)) in c_x.iter().enumerate() {
            for (k, (qn, q)) in c_q.iter().enumerate() {
                for (m, b) in ["C", "F", "rev-last+window"].iter().enumerate() {
                    if i + j + k + m == 0 {
                        continue;
                    }
                    let y = c_y.as_ref().map(|c| &c[(j + 1) % c.len()].1);
                    let qy = c_qy.as_ref().map(|c| &c[(k + 1) % c.len()].1);
                    check(format!("data={dn},x={xn},query={qn},buffer={b}"), d, x, y, q, qy, bounds0.as_ref(), b, out);
                }
            }
        }
    }
    if out.sample.is_none() {
        out.sample = Some(Json::obj(vec![
            ("job", Json::str(&key)),
            ("data_layouts", Json::strs(&l_data.iter().map(|l| l.0.clone()).collect::<Vec<_>>())),
            ("query_layouts", Json::strs(&l_q.iter().map(|l| l.0.clone()).collect::<Vec<_>>())),
            ("buffer_layouts", Json::strs(&BUF_LAYOUTS)),
        ]));
    }
}

/// Aliasing: arguments that are views into one allocation (axes that start at the same element with
/// different strides; an axis that is a column of the data; queries that are the axes themselves)
/// against the same call on owned copies.
fn run_alias(kind: usize, m: usize, out: &mut JobOut) {
    use ndarray::{s, Array2};
    let xv: Vec<f64> = (0..m).map(|i| [0.0, 0.1, 0.5, 1.7, 2.0, 3.3][i]).collect();
    let yv: Vec<f64> = (0..m).map(|i| [0.0, 0.3, 0.9, 2.5, 3.0, 3.1][i]).collect();
    // shared storage: x and y both start at the element holding 0.0
    let table = {
        let mut t = Array2::<f64>::from_elem((m, m), 55.0);
        for i in 0..m {
            t[[i, 0]] = xv[i];
            t[[0, i]] = yv[i];
        }
        t
    };
    let vec2 = {
        let mut v = vec![0.0; 2 * m - 1];
        for i in 0..m {
            v[m - 1 + i] = xv[i];
            v[m - 1 - i] = yv[i];
        }
        Array1::from(v)
    };
    let (x, y) = match kind {
        0 => (table.column(0), table.row(0)),
        1 => (vec2.slice(s![m - 1..]), vec2.slice(s![..m;-1])),
        _ => (table.column(0), table.column(0)),
    };
    let yv: Vec<f64> = y.to_vec();
    let (xo, yo) = (x.to_owned(), y.to_owned());
    let data = Array2::from_shape_fn((m, m), |(i, j)| ((i * 7 + j * 3) as f64 * 0.37).sin() * 3.0 + (i * m + j) as f64 * 0.125);
    let key = format!("alias:kind{kind}:m{m}");
    let what = ["x = table.column(0), y = table.row(0)", "x = v[m-1..], y = v[..m;-1]", "x and y the same view"][kind];
    let alias = catch(|| Interp2DBuilder::new(data.view()).x(x).y(y).build());
    let owned = Interp2DBuilder::new(data.view()).x(xo.view()).y(yo.view()).build();
    let (Ok(Ok(alias)), Ok(owned)) = (alias, owned) else {
        out.violate(format!("{key}:build"), format!("build with aliasing axes ({what}) failed although the axes {xv:?}, {yv:?} are valid"), Json::str(what));
        return;
    };
    out.states += 1;
    // queries: every pair over knots and points between them (the diagonal included)
    let mut pts: Vec<f64> = vec![];
    for v in xv.iter().chain(yv.iter()) {
        pts.push(*v);
    }
    for w in xv.windows(2).chain(yv.windows(2)) {
        pts.push(w[0] + (w[1] - w[0]) * 0.375);
    }
    pts.sort_by(|a, b| a.partial_cmp(b).unwrap());
    pts.dedup();
    let hi = xv[m - 1].min(yv[m - 1]);
    pts.retain(|p| *p <= hi);
    let mut cmp = |name: String, a: Obs, b: Obs, out: &mut JobOut| {
        out.evals += 1;
        out.nontrivial += 1;
        out.transitions += 1;
        let ok = a == b;
        out.outcome(if ok { "alias:bit-identical" } else { "alias:differs" });
        if !ok {
            out.violate(format!("{key}:{name}"), format!("{name} on an interpolator whose axes alias each other ({what}; x = {xv:?}, y = {yv:?}) differs from the same call on owned copies: {a:?} instead of {b:?}"), Json::str(what));
        }
    };
    let o = |r: Result<Result<f64, InterpolateError>, String>| match r {
        Ok(Ok(v)) => Obs::Ok(vec![], vec![v.to_bits()]),
        Ok(Err(e)) => Obs::Err(format!("{e:?}")),
        Err(p) => Obs::Panic(p),
    };
    for &qx in &pts {
        for &qy in &pts {
            cmp(format!("interp_scalar({qx},{qy})"), o(catch(|| alias.interp_scalar(qx, qy))), o(catch(|| owned.interp_scalar(qx, qy))), out);
        }
    }
    let oa = |r: Result<Result<Array1<f64>, InterpolateError>, String>| match r {
        Ok(Ok(v)) => obs_arr(&v.into_dyn()),
        Ok(Err(e)) => Obs::Err(format!("{e:?}")),
        Err(p) => Obs::Panic(p),
    };
    // batches: the diagonal, the same array for xs and ys, and the axes themselves as queries
    let diag = Array1::from(pts.clone());
    cmp("interp_array(diag,diag)".into(), oa(catch(|| alias.interp_array(&diag, &diag))), oa(catch(|| owned.interp_array(&diag, &diag))), out);
    let rev = diag.slice(s![..;-1]);
    cmp("interp_array(diag,diag reversed view)".into(), oa(catch(|| alias.interp_array(&diag, &rev))), oa(catch(|| owned.interp_array(&diag, &rev))), out);
    {
        let n = x.len().min(y.len());
        let (qx, qy) = (x.slice(s![..n]), y.slice(s![..n]));
        let (qxo, qyo) = (qx.to_owned(), qy.to_owned());
        let clip = |a: &Array1<f64>| a.mapv(|v| v.min(hi));
        let (cx, cy) = (clip(&qxo), clip(&qyo));
        if qxo == cx && qyo == cy {
            cmp("interp_array(x axis view, y axis view)".into(), oa(catch(|| alias.interp_array(&qx, &qy))), oa(catch(|| owned.interp_array(&qxo, &qyo))), out);
        }
    }
    // 1-D: the axis is a column of the data
    let lin_a = catch(|| Interp1DBuilder::new(table.view()).x(table.column(0)).build());
    let lin_o = Interp1DBuilder::new(table.to_owned()).x(table.column(0).to_owned()).build();
    if let (Ok(Ok(a)), Ok(b)) = (lin_a, lin_o) {
        let q = Array1::from(pts.iter().cloned().filter(|p| *p <= xv[m - 1]).collect::<Vec<_>>());
        let oa2 = |r: Result<Result<Array2<f64>, InterpolateError>, String>| match r {
            Ok(Ok(v)) => obs_arr(&v.into_dyn()),
            Ok(Err(e)) => Obs::Err(format!("{e:?}")),
            Err(p) => Obs::Panic(p),
        };
        cmp("Interp1D(x = data.column(0)).interp_array".into(), oa2(catch(|| a.interp_array(&q))), oa2(catch(|| b.interp_array(&q))), out);
        cmp("Interp1D(x = data.column(0)).interp_array(x view)".into(), oa2(catch(|| a.interp_array(&table.column(0)))), oa2(catch(|| b.interp_array(&xo))), out);
    } else {
        out.violate(format!("{key}:build1d"), "Interp1D with x = data.column(0) failed to build", Json::str(what));
    }
}

/// Data that is a broadcast view (stride 0 along a lane axis): the same logical contents as an owned
/// array whose lanes are copies of each other; per-lane boundary conditions differ.
fn run_broadcast(n: usize, lanes: usize, out: &mut JobOut) {
    use ndarray::{Array1 as A1, Array2 as A2};
    let x: A1<f64> = (0..n).map(|i| [0.0, 0.1, 0.5, 1.7, 2.0, 3.3, 4.1][i]).collect();
    let base: A1<f64> = (0..n).map(|i| ((i * 7) as f64 * 0.37).sin() * 3.0 + i as f64 * 0.125).collect();
    let col = base.view().insert_axis(Axis(1));
    let bview = col.broadcast((n, lanes)).expect("broadcast");
    let owned: A2<f64> = bview.to_owned();
    let q: A1<f64> = (0..9).map(|k| x[0] + (x[n - 1] - x[0]) * k as f64 / 8.0).collect();
    let rows = A2::from_shape_fn((1, lanes), |(_, j)| match j % 4 {
        0 => RowBoundary::Natural,
        1 => RowBoundary::Mixed { left: SingleBoundary::FirstDeriv(0.5), right: SingleBoundary::NotAKnot },
        2 => RowBoundary::Clamped,
        _ => RowBoundary::Mixed { left: SingleBoundary::Natural, right: SingleBoundary::SecondDeriv(-2.0) },
    });
    let key = format!("broadcast:n{n}:lanes{lanes}");
    macro_rules! cmp {
        ($name:expr, $strat:expr) => {{
            let a = catch(|| Interp1DBuilder::new(bview.clone()).x(x.view()).strategy($strat).build().map(|ip| ip.interp_array(&q)));
            let b = catch(|| Interp1DBuilder::new(owned.view()).x(x.view()).strategy($strat).build().map(|ip| ip.interp_array(&q)));
            out.evals += 1;
            out.nontrivial += 1;
            out.transitions += 2;
            let show = |r: &Result<Result<Result<A2<f64>, InterpolateError>, ndarray_interp::BuilderError>, String>| match r {
                Ok(Ok(Ok(v))) => obs_arr(&v.clone().into_dyn()),
                Ok(Ok(Err(e))) => Obs::Err(e.to_string()),
                Ok(Err(e)) => Obs::Err(e.to_string()),
                Err(p) => Obs::Panic(p.clone()),
            };
            let (oa, ob) = (show(&a), show(&b));
            out.outcome(if oa == ob { "broadcast:bit-identical" } else { "broadcast:differs" });
            if oa != ob || !matches!(ob, Obs::Ok(..)) {
                out.violate(format!("{key}:{}", $name), format!("{} over data that is a stride-0 broadcast view ({n} x {lanes}) differs from the same call on an owned copy: {oa:?} instead of {ob:?}", $name), Json::str($name));
            }
        }};
    }
    cmp!("Linear", Linear::new());
    cmp!("CubicSpline/NotAKnot", CubicSpline::new());
    cmp!("CubicSpline/Individual", CubicSpline::new().boundary(BoundaryCondition::Individual(rows.clone())));
    cmp!("CubicSpline/Individual+extrapolate", CubicSpline::new().extrapolate(true).boundary(BoundaryCondition::Individual(rows.clone())));
    // 2-D: data broadcast along the lane axis
    let y: A1<f64> = A1::from(vec![-1.0, 0.3, 0.9]);
    let base2 = A2::from_shape_fn((n, 3), |(i, j)| ((i * 3 + j) as f64 * 0.37).sin() * 3.0);
    let col2 = base2.view().insert_axis(Axis(2));
    let b3 = col2.broadcast((n, 3, lanes)).expect("broadcast");
    let o3 = b3.to_owned();
    let qy: A1<f64> = (0..9).map(|k| -1.0 + 1.9 * k as f64 / 8.0).collect();
    let a = catch(|| Interp2DBuilder::new(b3.clone()).x(x.view()).y(y.view()).build().map(|ip| ip.interp_array(&q, &qy).map(|v| v.into_dyn())));
    let b = catch(|| Interp2DBuilder::new(o3.view()).x(x.view()).y(y.view()).build().map(|ip| ip.interp_array(&q, &qy).map(|v| v.into_dyn())));
    out.evals += 1;
    out.nontrivial += 1;
    let same = match (&a, &b) {
        (Ok(Ok(Ok(u))), Ok(Ok(Ok(v)))) => obs_arr(u) == obs_arr(v),
        _ => false,
    };
    if !same {
        out.violate(format!("{key}:Bilinear"), "Bilinear over data that is a stride-0 broadcast view differs from the same call on an owned copy".to_string(), Json::Null);
    }
}

/// (1) broadcast (stride-0) *query* views: meshgrid-style xs / ys where one repeats along an axis the
/// other varies along, against owned copies; (2) data lanes and output buffer that are non-contiguous
/// in exactly the same way (both every 2nd / 3rd element of larger arrays), against the plain run.
fn run_broadcast_queries_and_equal_strides(out: &mut JobOut) {
    use ndarray::{s, Array1 as A1, Array2 as A2};
    let x: A1<f64> = A1::from(vec![0.0, 0.1, 0.5, 1.7, 2.0]);
    let y: A1<f64> = A1::from(vec![-1.0, 0.3, 0.9, 2.5]);
    let z = A2::from_shape_fn((5, 4), |(i, j)| ((i * 4 + j) as f64 * 0.37).sin() * 3.0);
    let ip2 = Interp2DBuilder::new(z.view()).x(x.view()).y(y.view()).build().expect("valid");
    let (gx, gy) = (A1::from(vec![0.05, 0.3, 1.0, 1.9]), A1::from(vec![-0.5, 0.5, 2.0]));
    // meshgrid through broadcasting: xs varies along axis 0, ys along axis 1 (and the transposed form)
    for form in 0..2 {
        let (cx, cy) = if form == 0 { (gx.view().insert_axis(Axis(1)), gy.view().insert_axis(Axis(0))) } else { (gx.view().insert_axis(Axis(0)), gy.view().insert_axis(Axis(1))) };
        let shape = if form == 0 { (4, 3) } else { (3, 4) };
        let (bx, by) = (cx.broadcast(shape).expect("broadcast"), cy.broadcast(shape).expect("broadcast"));
        let (ox, oy) = (bx.to_owned(), by.to_owned());
        let a = catch(|| ip2.interp_array(&bx, &by));
        let b = ip2.interp_array(&ox, &oy).expect("in range");
        out.evals += 1;
        out.nontrivial += 1;
        out.transitions += 2;
        let same = matches!(&a, Ok(Ok(v)) if obs_arr(&v.clone().into_dyn()) == obs_arr(&b.clone().into_dyn()));
        let mut buf = A2::from_elem(shape, f64::NAN);
        let c = catch(|| ip2.interp_array_into(&bx, &by, buf.view_mut()));
        let same_into = matches!(c, Ok(Ok(()))) && obs_arr(&buf.clone().into_dyn()) == obs_arr(&b.clone().into_dyn());
        out.outcome(if same && same_into { "broadcast-query:bit-identical" } else { "broadcast-query:differs" });
        if !same || !same_into {
            out.violate(format!("broadcast-query:2d:form{form}"), format!("Interp2D with xs / ys that are stride-0 broadcast views (meshgrid, shape {shape:?}) differs from the same call on owned copies (interp_array same: {same}, interp_array_into same: {same_into})"), Json::Null);
        }
        // 1-D interpolator with a broadcast query
        let d1 = A2::from_shape_fn((5, 2), |(i, j)| ((i * 2 + j) as f64 * 0.37).sin());
        let ip1 = Interp1DBuilder::new(d1.view()).x(x.view()).build().expect("valid");
        let a = catch(|| ip1.interp_array(&bx));
        let b = ip1.interp_array(&ox).expect("in range");
        out.evals += 1;
        out.nontrivial += 1;
        if !matches!(&a, Ok(Ok(v)) if obs_arr(&v.clone().into_dyn()) == obs_arr(&b.clone().into_dyn())) {
            out.violate(format!("broadcast-query:1d:form{form}"), "Interp1D with a stride-0 broadcast query view differs from the same call on an owned copy".to_string(), Json::Null);
        }
    }
    // (2) data lanes and buffer strided identically
    for k in [2usize, 3] {
        for (n, lanes) in [(4usize, 3usize), (5, 4)] {
            let xs: A1<f64> = (0..n).map(|i| [0.0, 0.1, 0.5, 1.7, 2.0][i]).collect();
            let big = A2::from_shape_fn((n, lanes * k), |(i, j)| ((i * 31 + j * 7) as f64 * 0.37).sin() * 3.0 + j as f64);
            let dview = big.slice(s![.., ..;k]);
            let downed = dview.to_owned();
            macro_rules! both {
                ($name:expr, $strat:expr) => {{
                    let ipv = Interp1DBuilder::new(dview.clone()).x(xs.view()).strategy($strat).build().expect("valid");
                    let ipo = Interp1DBuilder::new(downed.view()).x(xs.view()).strategy($strat).build().expect("valid");
                    for q in [0.05, 0.5, 1.2, xs[n - 1]] {
                        let want = ipo.interp(q).expect("in range");
                        let mut bigbuf = A1::from_elem(lanes * k, POISON);
                        let r = {
                            let w = bigbuf.slice_mut(s![..;k]);
                            catch(|| ipv.interp_into(q, w))
                        };
                        out.evals += 1;
                        out.nontrivial += 1;
                        out.transitions += 1;
                        let got: Vec<u64> = bigbuf.slice(s![..;k]).iter().map(|v| v.to_bits()).collect();
                        let between_ok = bigbuf.iter().enumerate().all(|(j, v)| j % k == 0 || v.to_bits() == POISON.to_bits());
                        let ok = matches!(r, Ok(Ok(()))) && got == want.iter().map(|v| v.to_bits()).collect::<Vec<_>>() && between_ok;
                        out.outcome(if ok { "equal-strides:same" } else { "equal-strides:differs" });
                        if !ok {
                            out.violate(format!("equal-strides:{}:k{k}:n{n}", $name), format!("{}: data lanes and output buffer both every {k}-th element of larger arrays, q = {q}: result {r:?}, buffer elements as expected: {}, memory between the buffer elements untouched: {between_ok}", $name, got == want.iter().map(|v| v.to_bits()).collect::<Vec<_>>()), Json::Null);
                        }
                    }
                }};
            }
            both!("Linear", Linear::new());
            both!("Linear+extrapolate", Linear::new().extrapolate(true));
            both!("CubicSpline", CubicSpline::new());
        }
    }
    // (3) the block of one knot is contiguous in memory but not in row-major order (trailing axes
    // permuted / one trailing axis reversed), and the caller's buffer has exactly the same strides
    for (n, a, b) in [(4usize, 2usize, 3usize), (5, 3, 2), (4, 1, 4)] {
        let xs: A1<f64> = (0..n).map(|i| [0.0, 0.1, 0.5, 1.7, 2.0][i]).collect();
        let stored = ndarray::Array3::from_shape_fn((n, b, a), |(i, j, k)| ((i * 31 + j * 7 + k * 3) as f64 * 0.37).sin() * 3.0 + (j * a + k) as f64);
        for form in ["trailing axes permuted", "last axis reversed", "both trailing axes reversed"] {
            let mut dview = stored.view();
            match form {
                "trailing axes permuted" => dview = dview.permuted_axes([0, 2, 1]),
                "last axis reversed" => dview.invert_axis(ndarray::Axis(2)),
                _ => {
                    dview.invert_axis(ndarray::Axis(1));
                    dview.invert_axis(ndarray::Axis(2));
                }
            }
            let downed = dview.to_owned();
            let lane_shape = (dview.shape()[1], dview.shape()[2]);
            macro_rules! both3 {
                ($name:expr, $strat:expr) => {{
                    let ipv = Interp1DBuilder::new(dview.clone()).x(xs.view()).strategy($strat).build().expect("valid");
                    let ipo = Interp1DBuilder::new(downed.view()).x(xs.view()).strategy($strat).build().expect("valid");
                    for q in [0.05, 0.5, 1.2, xs[n - 1]] {
                        let want = ipo.interp(q).expect("in range");
                        // a buffer laid out like one knot's block of the data
                        let mut store = A2::from_elem((b, a), POISON);
                        let r = {
                            let mut w = store.view_mut();
                            match form {
                                "trailing axes permuted" => w = w.reversed_axes(),
                                "last axis reversed" => w.invert_axis(ndarray::Axis(1)),
                                _ => {
                                    w.invert_axis(ndarray::Axis(0));
                                    w.invert_axis(ndarray::Axis(1));
                                }
                            }
                            assert_eq!(w.dim(), lane_shape);
                            assert_eq!(w.strides(), &dview.strides()[1..]);
                            catch(|| ipv.interp_into(q, w))
                        };
                        let mut got = store.view();
                        match form {
                            "trailing axes permuted" => got = got.reversed_axes(),
                            "last axis reversed" => got.invert_axis(ndarray::Axis(1)),
                            _ => {
                                got.invert_axis(ndarray::Axis(0));
                                got.invert_axis(ndarray::Axis(1));
                            }
                        }
                        out.evals += 1;
                        out.nontrivial += 1;
                        out.transitions += 1;
                        let ok = matches!(r, Ok(Ok(()))) && got.iter().map(|v| v.to_bits()).eq(want.iter().map(|v| v.to_bits()));
                        out.outcome(if ok { "equal-strides:same" } else { "equal-strides:differs" });
                        if !ok {
                            out.violate(format!("equal-strides:{}:{}:n{n}:{a}x{b}", $name, form.replace(' ', "-")), format!("{}: data of shape {:?} with {form} and an output buffer with the same strides, q = {q}: result {r:?}, buffer {:?}, the same call on owned row-major data gives {:?}", $name, dview.shape(), got.iter().collect::<Vec<_>>(), want.iter().collect::<Vec<_>>()), Json::Null);
                        }
                    }
                }};
            }
            both3!("Linear", Linear::new());
            both3!("Linear+extrapolate", Linear::new().extrapolate(true));
            both3!("CubicSpline", CubicSpline::new());
            both3!("CubicSpline/Natural+extrapolate", CubicSpline::new().extrapolate(true).boundary(ndarray_interp::interp1d::cubic_spline::BoundaryCondition::Natural));
        }
    }
}

fn body(ctx: &Ctx) -> (Summary, Meta) {
    // the full layout alphabet costs well under a second: both tiers use it; the thorough tier adds a
    // second family of data shapes
    let full = true;
    let deep = !ctx.quick();
    let mut jobs = vec![];
    let shapes_for = |rank: usize| -> Vec<usize> { [4usize, 3, 2, 2][..rank].to_vec() };
    let shapes_alt = |rank: usize| -> Vec<usize> { [5usize, 4, 3, 2][..rank].to_vec() };
    let qshape = |inst: &str, alt: usize| -> Vec<Vec<usize>> {
        match inst {
            "Ix0" => vec![vec![]],
            "Ix1" => vec![vec![3], vec![1]],
            "Ix2" => vec![vec![2, 3], vec![3, 1]],
            "Ix3" => vec![vec![2, 1, 3]],
            _ => vec![vec![], vec![3], vec![2, 3], vec![2, 2, 2]][..if alt == 0 { 4 } else { 3 }].to_vec(),
        }
    };
    for strat in ["Linear", "Linear+extrapolate", "Cubic/Individual", "Cubic/Periodic"] {
        for (d, dq, rank) in [
            ("Ix1", "Ix1", 1), ("Ix2", "Ix1", 2), ("Ix3", "Ix1", 3), ("Ix4", "Ix1", 4), ("Ix1", "Ix2", 1), ("Ix2", "Ix2", 2), ("Ix3", "Ix2", 3),
            ("Ix2", "Ix3", 2), ("Ix2", "Ix0", 2), ("dyn", "dyn", 1), ("dyn", "dyn", 2), ("dyn", "dyn", 3), ("dyn", "dyn", 4), ("dyn", "Ix1", 3), ("Ix2", "dyn", 2),
        ] {
            if !full && strat == "Linear+extrapolate" && rank > 2 {
                continue;
            }
            for qs in qshape(dq, 0) {
                if strat == "Linear" && qs.iter().product::<usize>() >= 2 {
                    jobs.push(Job { two_d: false, strat, data_shape: shapes_for(rank), query_shape: qs.clone(), inst: (d, dq), failing: true });
                }
                if deep {
                    jobs.push(Job { two_d: false, strat, data_shape: shapes_alt(rank), query_shape: qs.clone(), inst: (d, dq), failing: false });
                }
                jobs.push(Job { two_d: false, strat, data_shape: shapes_for(rank), query_shape: qs, inst: (d, dq), failing: false });
            }
        }
    }
    for (d, dq, rank) in [("Ix2", "Ix1", 2), ("Ix3", "Ix1", 3), ("Ix4", "Ix1", 4), ("Ix3", "Ix2", 3), ("Ix3", "Ix3", 3), ("dyn", "dyn", 2), ("dyn", "dyn", 3), ("dyn", "dyn", 4), ("dyn", "Ix1", 3), ("Ix3", "dyn", 3)] {
        for qs in qshape(dq, 1) {
            if deep {
                jobs.push(Job { two_d: true, strat: "Bilinear", data_shape: shapes_alt(rank), query_shape: qs.clone(), inst: (d, dq), failing: false });
            }
            if qs.iter().product::<usize>() >= 2 {
                jobs.push(Job { two_d: true, strat: "Bilinear/no-extrapolation", data_shape: shapes_for(rank), query_shape: qs.clone(), inst: (d, dq), failing: true });
            }
            jobs.push(Job { two_d: true, strat: "Bilinear", data_shape: shapes_for(rank), query_shape: qs, inst: (d, dq), failing: false });
        }
    }
    let njobs = jobs.len();
    let mut sum = run_jobs(ctx, "layouts", &jobs, |j| j.key(), |j| {
        let mut out = JobOut::default();
        run(j, full, &mut out);
        out
    });
    let bc_jobs: Vec<(usize, usize)> = [(3usize, 2usize), (4, 2), (4, 3), (5, 4), (7, 5)].to_vec();
    sum.merge(run_jobs(ctx, "broadcast-data", &bc_jobs, |j| format!("broadcast:n{}:lanes{}", j.0, j.1), |j| {
        let mut out = JobOut::default();
        run_broadcast(j.0, j.1, &mut out);
        out
    }));
    sum.merge(run_jobs(ctx, "broadcast-queries-and-equal-strides", &[()], |_| "broadcast-queries+equal-strides".to_string(), |_| {
        let mut out = JobOut::default();
        run_broadcast_queries_and_equal_strides(&mut out);
        out
    }));
    let alias_jobs: Vec<(usize, usize)> = (0..3).flat_map(|k| (2..=6).map(move |m| (k, m))).collect();
    sum.merge(run_jobs(ctx, "aliasing", &alias_jobs, |j| format!("alias:kind{}:m{}", j.0, j.1), |j| {
        let mut out = JobOut::default();
        run_alias(j.0, j.1, &mut out);
        out
    }));
    let meta = Meta {
        rule: "for every (strategy, data rank 1..4, query rank 0..3 / dynamic, static-or-dynamic instantiation) the four call forms {interp, interp_into, interp_array, interp_array_into} are run once with all arguments as owned C-order arrays (reference) and then with each argument (data, x, y, query xs, query ys, output buffer, boundary array) independently in every layout of the alphabet {F order, every 2nd (3rd) element of a larger poisoned array, reversed along an axis (negative stride), permuted axes storage; buffers also as reversed windows}, and with the full product over a 3-layout core {C, F, reversed+strided} of (data, x, query, buffer). For Linear and Bilinear every job is repeated with a query holding two different out-of-range values: the error (which names the first offending value in logical order) and the partially filled buffer must not depend on the layouts either. Oracle: bit-identical to the reference; correctly shaped buffers accepted; memory outside strided buffers untouched. Non-trivial = at least one argument not in C order. Broadcast queries: xs / ys that are stride-0 broadcast views (meshgrid in both orientations) against owned copies; data lanes and output buffer strided identically (every 2nd / 3rd element; one knot's block contiguous but with permuted or reversed trailing axes) for the single-point *_into call, Linear and CubicSpline. Broadcast phase: data that is a stride-0 broadcast view along the lane axis (Linear, CubicSpline with whole-data-set and with per-lane boundary conditions, Bilinear) against an owned copy. Aliasing phase: Interp2D whose x and y axes are views into one allocation starting at the same element (column/row of one table; forward/backward slice of one vector; the same view twice), 2..6 points, every query pair over the knots and interior points (diagonal included), batch queries that are the axes themselves or views of one array, and Interp1D whose axis is a column of its data - each compared bit for bit with the same call on owned copies.".into(),
        bounds: format!("{njobs} instantiation jobs; tier {}", ctx.tier.name()),
        assumptions: vec!["all layouts are realised as owned arrays / mutable views with unusual strides; ownership kinds (view, shared) are covered by C19".into()],
        extra: vec![],
    };
    (sum, meta)
}

fn main() {
    main_with("C13", body)
}
