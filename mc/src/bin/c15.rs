//! C15 - results are independent of the units of the axis and linear in the data.
use ndarray::{Array2, Array3};
use nimc::alpha::{self, Axis};
use nimc::fl::{same_bits, vec_exact, Fl};
use nimc::refm::End;
use nimc::spl::{bc_configs_coarse as bc_configs, k_for};
use nimc::subj::{build_bilinear, build_linear, build_spline, call1d, call2d, lanes_matrix, BcSpec};
use nimc::{catch, main_with, run_jobs, Ctx, JobOut, Json, Meta, Summary};

#[derive(Clone)]
enum Kind {
    Linear,
    Spline(BcSpec),
    Bilinear(Axis),
}

#[derive(Clone)]
struct Job {
    ax: Axis,
    kind: Kind,
    f32: bool,
}
impl Job {
    fn key(&self) -> String {
        let t = if self.f32 { "f32" } else { "f64" };
        match &self.kind {
            Kind::Linear => format!("{t}:Linear:{}", self.ax.name),
            Kind::Spline(s) => format!("{t}:Spline:{}:{}", self.ax.name, s.name()),
            Kind::Bilinear(ay) => format!("{t}:Bilinear:{}x{}", self.ax.name, ay.name),
        }
    }
}

fn is_pow2(c: f64) -> bool {
    let a = c.abs();
    a > 0.0 && a.log2() == a.log2().trunc() && nimc::rat::sig_bits(a) == 1
}

/// boundary spec with derivative values converted to new units: v * cd / cx^k
fn convert<T: Fl>(spec: &BcSpec, cx: T, cd: T) -> Option<BcSpec> {
    let conv = |e: End| -> Option<End> {
        Some(match e {
            End::First(v) => End::First(Fl::to_f64(T::from_f64_exact(v)? * cd / cx)),
            End::Second(v) => End::Second(Fl::to_f64(T::from_f64_exact(v)? * cd / (cx * cx))),
            o => o,
        })
    };
    Some(match spec {
        BcSpec::Lanes(v) => BcSpec::Lanes(v.iter().map(|&(l, r)| Some((conv(l)?, conv(r)?))).collect::<Option<Vec<_>>>()?),
        BcSpec::RowAll(e) => BcSpec::RowAll(conv(*e)?),
        o => o.clone(),
    })
}

fn eval1d<T: Fl>(kind: &Kind, x: &[T], data: &Array2<T>, qs: &[T]) -> Result<Array2<T>, String> {
    let l = data.ncols();
    match kind {
        Kind::Linear => {
            let ip = catch(|| build_linear::<T, _>(Some(x), data.clone(), true))?.map_err(|e| e.to_string())?;
            call1d(&ip, qs, &[qs.len()], l, "interp_array/static").map_err(|f| f.text())
        }
        Kind::Spline(spec) => {
            let ip = catch(|| build_spline::<T, _>(x, data.clone(), spec, true))?.map_err(|e| e.to_string())?;
            call1d(&ip, qs, &[qs.len()], l, "interp_array/static").map_err(|f| f.text())
        }
        Kind::Bilinear(_) => unreachable!(),
    }
}

fn queries(x: &[f64]) -> Vec<f64> {
    let mut q = alpha::grid_queries(x, 4);
    // just off the knots (2^-20 away): exactly representable also after large grid shifts
    for i in 1..x.len() {
        q.push(x[i] - 2.0f64.powi(-20));
        q.push(x[i - 1] + 2.0f64.powi(-20));
    }
    let p = x[x.len() - 1] - x[0];
    q.extend([x[0] - p * 0.25, x[0] - p, x[x.len() - 1] + p * 0.25, x[x.len() - 1] + 2.0 * p]);
    q
}

fn factors(quick: bool, f32: bool) -> Vec<(f64, f64)> {
    let cx = [2.0f64.powi(-20), 0.125, 2.0, 32.0, 1048576.0, 3.0, 0.1];
    let cd = [2.0f64.powi(-20), 0.5, -1.0, 128.0, 1048576.0, 3.0, -0.1];
    let mut v = vec![];
    if quick {
        for &a in &cx {
            v.push((a, 1.0));
        }
        for &b in &cd {
            v.push((1.0, b));
        }
        for i in 0..7 {
            v.push((cx[i], cd[6 - i]));
        }
        // far outside the usual units
        // (f32: squares of interval lengths must stay inside the exponent range)
        for e in if f32 { [24, 30] } else { [60, 100] } {
            v.push((1.0, 2.0f64.powi(-e)));
            v.push((1.0, 2.0f64.powi(e)));
            v.push((2.0f64.powi(-e), 1.0));
            v.push((2.0f64.powi(e), 1.0));
        }
    } else {
        for &a in &cx {
            for &b in &cd {
                v.push((a, b));
            }
        }
        for &a in &cx {
            v.push((a, 1.0));
        }
        for &b in &cd {
            v.push((1.0, b));
        }
        for e in if f32 { vec![24, 30] } else { vec![40, 60, 100, 300] } {
            v.push((1.0, 2.0f64.powi(-e)));
            v.push((1.0, 2.0f64.powi(e)));
            v.push((2.0f64.powi(-e), 1.0));
            v.push((2.0f64.powi(e), 1.0));
            v.push((2.0f64.powi(e), 2.0f64.powi(e)));
        }
    }
    v
}

const SHIFTS: [f64; 8] = [1.0, -1.0, 8.0, -8.0, 1024.0, 2147483648.0, -1099511627776.0, 8796093022208.0];

fn run1d<T: Fl>(job: &Job, quick: bool, out: &mut JobOut) {
    let axis = &job.ax;
    let Some(xt) = vec_exact::<T>(&axis.x) else {
        return;
    };
    let n = xt.len();
    let periodic = matches!(&job.kind, Kind::Spline(s) if s.is_periodic());
    let lanes: Vec<alpha::Lane> = alpha::lanes(&axis.x, n <= 6)
        .iter()
        .map(|l| if periodic { alpha::close_periodic(l) } else { l.clone() })
        .filter(|l| vec_exact::<T>(&l.y).is_some())
        .collect();
    let lt: Vec<Vec<T>> = lanes.iter().map(|l| vec_exact::<T>(&l.y).unwrap()).collect();
    let data = lanes_matrix(&lt);
    let nl = lanes.len();
    let key = job.key();
    let q64 = queries(&axis.x);
    let Some(qt) = vec_exact::<T>(&q64) else {
        return;
    };
    let case = |extra: Vec<(&str, Json)>| {
        let mut v = vec![("type", Json::str(T::NAME)), ("x", Json::f64s(&axis.x)), ("config", Json::str(&key))];
        v.extend(extra);
        Json::obj(v)
    };
    let base = match eval1d(&job.kind, &xt, &data, &qt) {
        Ok(b) => b,
        Err(e) => {
            out.violate(format!("{key}:base"), format!("base evaluation failed: {e}"), case(vec![]));
            return;
        }
    };
    out.states += 1;
    out.transitions += 1;
    let kk = match &job.kind {
        Kind::Linear => 8.0,
        _ => k_for(axis),
    };
    // magnitude per lane for tolerances: largest |result| and |data|
    let mag: Vec<f64> = (0..nl)
        .map(|j| {
            let a = lanes[j].y.iter().fold(0.0f64, |m, v| m.max(v.abs()));
            (0..qt.len()).fold(a, |m, qi| m.max(Fl::to_f64(base[[qi, j]]).abs()))
        })
        .collect();
    let xmax = axis.x.iter().fold(0.0f64, |m, v| m.max(v.abs()));
    let hmin = axis.x.windows(2).map(|w| w[1] - w[0]).fold(f64::INFINITY, f64::min);
    let outside_amp = |qi: usize| -> f64 {
        // |t|^3 amplification for extrapolated queries (spline) / |t| (linear)
        let q = q64[qi];
        let i = nimc::refm::bracket_scan(&axis.x, q);
        let t = ((q - axis.x[i]) / (axis.x[i + 1] - axis.x[i])).abs().max(1.0);
        if matches!(job.kind, Kind::Linear) {
            t
        } else {
            16.0 * t * t * t
        }
    };

    // ---- change of units
    for (cx, cd) in factors(quick, T::NAME == "f32") {
        let (Some(cxt), Some(cdt)) = (T::from_f64_exact(cx).or(Some(T::from_f64_lossy(cx))), Some(T::from_f64_lossy(cd))) else {
            continue;
        };
        let exact = is_pow2(cx) && (is_pow2(cd) || cd == -1.0 || cd == 1.0) || (cx == 1.0 && (is_pow2(cd) || cd == -1.0));
        let x2: Vec<T> = xt.iter().map(|&v| v * cxt).collect();
        if x2.windows(2).any(|w| !(w[0] < w[1])) {
            continue;
        }
        let q2: Vec<T> = qt.iter().map(|&v| v * cxt).collect();
        let d2 = data.mapv(|v| v * cdt);
        let kind2 = match &job.kind {
            Kind::Spline(s) => match convert::<T>(s, cxt, cdt) {
                Some(s2) => Kind::Spline(s2),
                None => continue,
            },
            k => k.clone(),
        };
        let name = format!("cx={cx},cd={cd}");
        out.transitions += 1;
        let r2 = match eval1d(&kind2, &x2, &d2, &q2) {
            Ok(r) => r,
            Err(e) => {
                out.violate(format!("{key}:{name}"), format!("evaluation in converted units failed: {e}"), case(vec![("cx", Json::Num(cx)), ("cd", Json::Num(cd))]));
                continue;
            }
        };
        out.states += 1;
        let mut reported = false;
        for qi in 0..qt.len() {
            for j in 0..nl {
                let want = base[[qi, j]] * cdt;
                let got = r2[[qi, j]];
                out.evals += 1;
                out.nontrivial += 1;
                let ok = if exact {
                    same_bits(want, got) || (want == got)
                } else {
                    // inexact factors perturb the knots relatively by eps: allow for the
                    // conditioning (|x|/h_min) of the interval lengths
                    let tol = kk * T::EPS * mag[j] * cd.abs() * outside_amp(qi) * (4.0 + 2.0 * xmax / hmin);
                    (Fl::to_f64(want) - Fl::to_f64(got)).abs() <= tol
                };
                if exact {
                    out.outcome(if ok { "exact-factor:bit-identical" } else { "exact-factor:differs" });
                }
                if !ok && !reported {
                    reported = true;
                    out.violate(
                        format!("{key}:{name}:{}", lanes[j].name),
                        format!(
                            "change of units (axis x {cx}, data x {cd}): result at q={} lane {} is {:e}, expected {} {:e}",
                            q64[qi],
                            lanes[j].name,
                            Fl::to_f64(got),
                            if exact { "bit-identical" } else { "within rounding of" },
                            Fl::to_f64(want)
                        ),
                        case(vec![("cx", Json::Num(cx)), ("cd", Json::Num(cd)), ("query", Json::Num(q64[qi])), ("lane", Json::str(&lanes[j].name)), ("data", Json::f64s(&lanes[j].y))]),
                    );
                }
            }
        }
    }
    // ---- shifts on the common dyadic grid: bit-identical
    for s in SHIFTS {
        let st = T::from_f64_lossy(s);
        let x2: Vec<T> = xt.iter().map(|&v| v + st).collect();
        let q2: Vec<T> = qt.iter().map(|&v| v + st).collect();
        // the shift must be exact for every value
        let exact_shift = xt.iter().zip(&x2).chain(qt.iter().zip(&q2)).all(|(&a, &b)| Fl::to_f64(b) - s == Fl::to_f64(a) && Fl::to_f64(b) - Fl::to_f64(a) == s);
        if !exact_shift {
            continue;
        }
        out.transitions += 1;
        let r2 = match eval1d(&job.kind, &x2, &data, &q2) {
            Ok(r) => r,
            Err(e) => {
                out.violate(format!("{key}:shift{s}"), format!("evaluation of the shifted problem failed: {e}"), case(vec![("shift", Json::Num(s))]));
                continue;
            }
        };
        out.states += 1;
        let mut reported = false;
        for qi in 0..qt.len() {
            for j in 0..nl {
                out.evals += 1;
                out.nontrivial += 1;
                let ok = same_bits(base[[qi, j]], r2[[qi, j]]);
                out.outcome(if ok { "shift:bit-identical" } else { "shift:differs" });
                if !ok && !reported {
                    reported = true;
                    out.violate(
                        format!("{key}:shift{s}:{}", lanes[j].name),
                        format!("shifting axis and queries by {s}: result at q={} lane {} changed from {:e} to {:e}", q64[qi], lanes[j].name, Fl::to_f64(base[[qi, j]]), Fl::to_f64(r2[[qi, j]])),
                        case(vec![("shift", Json::Num(s)), ("query", Json::Num(q64[qi])), ("lane", Json::str(&lanes[j].name))]),
                    );
                }
            }
        }
    }
    // ---- superposition of every pair of lanes
    let sum_kind: Option<Kind> = match &job.kind {
        Kind::Linear => Some(Kind::Linear),
        Kind::Spline(BcSpec::Lanes(v)) if v.len() == 1 => {
            let dbl = |e: End| match e {
                End::First(v) => End::First(2.0 * v),
                End::Second(v) => End::Second(2.0 * v),
                o => o,
            };
            Some(Kind::Spline(BcSpec::Lanes(vec![(dbl(v[0].0), dbl(v[0].1))])))
        }
        Kind::Spline(BcSpec::Lanes(_)) => None,
        Kind::Spline(s) => Some(Kind::Spline(s.clone())),
        Kind::Bilinear(_) => None,
    };
    if let Some(sk) = sum_kind {
        let mut pairs = vec![];
        for a in 0..nl {
            for b in a + 1..nl {
                let sum: Vec<T> = (0..n).map(|i| lt[a][i] + lt[b][i]).collect();
                // exact sums only
                if (0..n).all(|i| Fl::to_f64(sum[i]) == lanes[a].y[i] + lanes[b].y[i] && nimc::rat::sig_bits(lanes[a].y[i] + lanes[b].y[i]) <= if T::NAME == "f32" { 24 } else { 53 }) {
                    pairs.push((a, b, sum));
                }
            }
        }
        if !pairs.is_empty() {
            let d2 = Array2::from_shape_fn((n, pairs.len()), |(i, p)| pairs[p].2[i]);
            out.transitions += 1;
            match eval1d(&sk, &xt, &d2, &qt) {
                Ok(r2) => {
                    out.states += 1;
                    let mut reported = false;
                    for qi in 0..qt.len() {
                        for (p, (a, b, _)) in pairs.iter().enumerate() {
                            let want = Fl::to_f64(base[[qi, *a]]) + Fl::to_f64(base[[qi, *b]]);
                            let got = Fl::to_f64(r2[[qi, p]]);
                            let tol = 2.0 * kk * T::EPS * (mag[*a] + mag[*b]) * outside_amp(qi);
                            out.evals += 1;
                            out.nontrivial += 1;
                            if tol > 0.0 {
                                out.maximum("superposition_err_over_tol", (want - got).abs() / tol);
                            }
                            if !((want - got).abs() <= tol) && !reported {
                                reported = true;
                                out.violate(
                                    format!("{key}:sum:{}+{}", lanes[*a].name, lanes[*b].name),
                                    format!("superposition: result for data {}+{} at q={} is {got:e}, the sum of the two results is {want:e} (tol {tol:e})", lanes[*a].name, lanes[*b].name, q64[qi]),
                                    case(vec![("lane_a", Json::str(&lanes[*a].name)), ("lane_b", Json::str(&lanes[*b].name)), ("query", Json::Num(q64[qi]))]),
                                );
                            }
                        }
                    }
                }
                Err(e) => out.violate(format!("{key}:sum"), format!("evaluation of the summed data failed: {e}"), case(vec![])),
            }
        }
    }
    if out.sample.is_none() {
        out.sample = Some(case(vec![("lanes", Json::Int(nl as i128)), ("queries", Json::f64s(&q64)), ("factor_pairs", Json::Int(factors(quick, T::NAME == "f32").len() as i128)), ("shifts", Json::f64s(&SHIFTS))]));
    }
}

fn run2d<T: Fl>(job: &Job, quick: bool, out: &mut JobOut) {
    let Kind::Bilinear(ay) = &job.kind else { unreachable!() };
    let (Some(xt), Some(yt)) = (vec_exact::<T>(&job.ax.x), vec_exact::<T>(&ay.x)) else {
        return;
    };
    let (nx, ny) = (xt.len(), yt.len());
    let key = job.key();
    let nl = 3;
    let gen = |i: usize, j: usize, k: usize| -> f64 {
        match k {
            0 => [1.0, -0.5, 2.0, 0.25, -3.0, 1.5, 0.875][(3 * i + 5 * j) % 7],
            1 => ((i == 1 && j == 0) as u8) as f64,
            _ => (i as f64 - 1.0) * (j as f64 + 0.5) * 1048576.0,
        }
    };
    let data = Array3::from_shape_fn((nx, ny, nl), |(i, j, k)| T::from_f64_lossy(gen(i, j, k)));
    let (q1x, q1y) = (queries(&job.ax.x), queries(&ay.x));
    let mut qx = vec![];
    let mut qy = vec![];
    for &a in &q1x {
        for &b in &q1y {
            qx.push(a);
            qy.push(b);
        }
    }
    let (Some(qxt), Some(qyt)) = (vec_exact::<T>(&qx), vec_exact::<T>(&qy)) else {
        return;
    };
    let eval = |x: &[T], y: &[T], d: &Array3<T>, qx: &[T], qy: &[T]| -> Result<Array2<T>, String> {
        let ip = catch(|| build_bilinear::<T, _>(Some(x), Some(y), d.clone(), true))?.map_err(|e| e.to_string())?;
        call2d(&ip, qx, qy, &[qx.len()], nl, "interp_array/static").map_err(|f| f.text())
    };
    let case = |extra: Vec<(&str, Json)>| {
        let mut v = vec![("type", Json::str(T::NAME)), ("x", Json::f64s(&job.ax.x)), ("y", Json::f64s(&ay.x))];
        v.extend(extra);
        Json::obj(v)
    };
    let base = match eval(&xt, &yt, &data, &qxt, &qyt) {
        Ok(b) => b,
        Err(e) => {
            out.violate(format!("{key}:base"), format!("base evaluation failed: {e}"), case(vec![]));
            return;
        }
    };
    out.states += 1;
    let pow2 = [2.0f64.powi(-20), 0.125, 2.0, 32.0, 1048576.0];
    let cds = [0.5, -1.0, 1048576.0];
    let mut combos = vec![];
    for (i, &cx) in pow2.iter().enumerate() {
        for (j, &cy) in pow2.iter().enumerate() {
            if quick && (i + 2 * j) % 3 != 0 {
                continue;
            }
            combos.push((cx, cy, cds[(i + j) % 3]));
        }
    }
    for (cx, cy, cd) in combos {
        let (cxt, cyt, cdt) = (T::from_f64_lossy(cx), T::from_f64_lossy(cy), T::from_f64_lossy(cd));
        let x2: Vec<T> = xt.iter().map(|&v| v * cxt).collect();
        let y2: Vec<T> = yt.iter().map(|&v| v * cyt).collect();
        let qx2: Vec<T> = qxt.iter().map(|&v| v * cxt).collect();
        let qy2: Vec<T> = qyt.iter().map(|&v| v * cyt).collect();
        let d2 = data.mapv(|v| v * cdt);
        out.transitions += 1;
        match eval(&x2, &y2, &d2, &qx2, &qy2) {
            Ok(r2) => {
                out.states += 1;
                let bad = (0..qx.len()).flat_map(|qi| (0..nl).map(move |k| (qi, k))).find(|&(qi, k)| {
                    let want = base[[qi, k]] * cdt;
                    !(same_bits(want, r2[[qi, k]]) || want == r2[[qi, k]])
                });
                out.evals += (qx.len() * nl) as u64;
                out.nontrivial += (qx.len() * nl) as u64;
                out.outcome(if bad.is_none() { "exact-factor:bit-identical" } else { "exact-factor:differs" });
                if let Some((qi, k)) = bad {
                    out.violate(
                        format!("{key}:cx={cx},cy={cy},cd={cd}"),
                        format!(
                            "change of units (x x {cx}, y x {cy}, data x {cd}): result at ({},{}) lane {k} is {:e}, expected bit-identical {:e}",
                            qx[qi], qy[qi], Fl::to_f64(r2[[qi, k]]), Fl::to_f64(base[[qi, k]] * cdt)
                        ),
                        case(vec![("cx", Json::Num(cx)), ("cy", Json::Num(cy)), ("cd", Json::Num(cd)), ("qx", Json::Num(qx[qi])), ("qy", Json::Num(qy[qi]))]),
                    );
                }
            }
            Err(e) => out.violate(format!("{key}:cx={cx},cy={cy}"), format!("evaluation in converted units failed: {e}"), case(vec![])),
        }
    }
    // shifts of x and y independently
    for (sx, sy) in [(1.0, 0.0), (0.0, -8.0), (1024.0, 1.0), (-1.0, 8.0)] {
        let (sxt, syt) = (T::from_f64_lossy(sx), T::from_f64_lossy(sy));
        let x2: Vec<T> = xt.iter().map(|&v| v + sxt).collect();
        let y2: Vec<T> = yt.iter().map(|&v| v + syt).collect();
        let qx2: Vec<T> = qxt.iter().map(|&v| v + sxt).collect();
        let qy2: Vec<T> = qyt.iter().map(|&v| v + syt).collect();
        let exact = xt.iter().zip(&x2).chain(qxt.iter().zip(&qx2)).all(|(&a, &b)| Fl::to_f64(b) - Fl::to_f64(a) == sx && Fl::to_f64(b) - sx == Fl::to_f64(a))
            && yt.iter().zip(&y2).chain(qyt.iter().zip(&qy2)).all(|(&a, &b)| Fl::to_f64(b) - Fl::to_f64(a) == sy && Fl::to_f64(b) - sy == Fl::to_f64(a));
        if !exact {
            continue;
        }
        out.transitions += 1;
        match eval(&x2, &y2, &data, &qx2, &qy2) {
            Ok(r2) => {
                out.states += 1;
                let bad = (0..qx.len()).flat_map(|qi| (0..nl).map(move |k| (qi, k))).find(|&(qi, k)| !same_bits(base[[qi, k]], r2[[qi, k]]));
                out.evals += (qx.len() * nl) as u64;
                out.nontrivial += (qx.len() * nl) as u64;
                out.outcome(if bad.is_none() { "shift:bit-identical" } else { "shift:differs" });
                if let Some((qi, k)) = bad {
                    out.violate(
                        format!("{key}:shift({sx},{sy})"),
                        format!("shifting the grid by ({sx},{sy}): result at ({},{}) lane {k} changed from {:e} to {:e}", qx[qi], qy[qi], Fl::to_f64(base[[qi, k]]), Fl::to_f64(r2[[qi, k]])),
                        case(vec![("sx", Json::Num(sx)), ("sy", Json::Num(sy))]),
                    );
                }
            }
            Err(e) => out.violate(format!("{key}:shift({sx},{sy})"), format!("evaluation of the shifted problem failed: {e}"), case(vec![])),
        }
    }
    // superposition lane0 + lane1
    let d2 = Array3::from_shape_fn((nx, ny, nl), |(i, j, k)| if k == 0 { data[[i, j, 0]] + data[[i, j, 1]] } else { data[[i, j, k]] });
    if let Ok(r2) = eval(&xt, &yt, &d2, &qxt, &qyt) {
        out.states += 1;
        out.transitions += 1;
        for qi in 0..qx.len() {
            let want = Fl::to_f64(base[[qi, 0]]) + Fl::to_f64(base[[qi, 1]]);
            let got = Fl::to_f64(r2[[qi, 0]]);
            let (i, j) = (nimc::refm::bracket_scan(&job.ax.x, qx[qi]), nimc::refm::bracket_scan(&ay.x, qy[qi]));
            let tx = ((qx[qi] - job.ax.x[i]) / (job.ax.x[i + 1] - job.ax.x[i])).abs();
            let ty = ((qy[qi] - ay.x[j]) / (ay.x[j + 1] - ay.x[j])).abs();
            let tol = 48.0 * T::EPS * 4.0 * (1.0 + tx) * (1.0 + ty);
            out.evals += 1;
            out.nontrivial += 1;
            if !((want - got).abs() <= tol) {
                out.violate(format!("{key}:sum"), format!("superposition fails at ({},{}): {got:e} vs {want:e}", qx[qi], qy[qi]), case(vec![]));
                break;
            }
        }
    }
    if out.sample.is_none() {
        out.sample = Some(case(vec![("query_pairs", Json::Int(qx.len() as i128))]));
    }
}

/// Superposition with a *different* (homogeneous) boundary pair per lane, on data sets whose
/// neighbouring lanes are bit-identical copies: D1 = [u, u, v], D2 = [v, w, w]; the result for
/// D1 + D2 must be the sum of the two results, lane by lane.
fn run_superposition_per_lane(ax: &Axis, out: &mut JobOut) {
    let x = &ax.x;
    let n = x.len();
    let kk = k_for(ax);
    let q = queries(x);
    let lane = |s: usize| -> Vec<f64> { (0..n).map(|i| [1.0, -0.5, 2.0, 0.25, -3.0, 1.5, 0.875, -1.25, 0.5, 3.0, -0.75][(i * 3 + s * 5) % 11]).collect() };
    let (u, v, w) = (lane(0), lane(1), lane(2));
    let homogeneous = [End::NotAKnot, End::Natural, End::Clamped];
    let pairs: Vec<(End, End)> = homogeneous.iter().flat_map(|l| homogeneous.iter().map(move |r| (*l, *r))).filter(|(l, r)| n >= 4 || !(matches!(l, End::NotAKnot) && matches!(r, End::NotAKnot))).collect();
    let mk = |cols: [&Vec<f64>; 3]| Array2::from_shape_fn((n, 3), |(i, j)| cols[j][i]);
    let d1 = mk([&u, &u, &v]);
    let d2 = mk([&v, &w, &w]);
    let d12 = &d1 + &d2;
    for (a, ca) in pairs.iter().enumerate() {
        for (b, cb) in pairs.iter().enumerate() {
            if a == b {
                continue;
            }
            let cc = pairs[(a + b) % pairs.len()];
            let kind = Kind::Spline(BcSpec::Lanes(vec![*ca, *cb, cc]));
            let key = format!("superposition-per-lane:{}:{a},{b}", ax.name);
            let (r1, r2, r12) = (eval1d::<f64>(&kind, x, &d1, &q), eval1d::<f64>(&kind, x, &d2, &q), eval1d::<f64>(&kind, x, &d12, &q));
            let (Ok(r1), Ok(r2), Ok(r12)) = (r1, r2, r12) else {
                out.violate(format!("{key}:eval"), "evaluation of a valid configuration failed".to_string(), Json::Null);
                continue;
            };
            out.states += 3;
            out.transitions += 3;
            let span = x[n - 1] - x[0];
            'cfg: for (qi, &qv) in q.iter().enumerate() {
                let t = if qv < x[0] { (x[0] - qv) / span } else if qv > x[n - 1] { (qv - x[n - 1]) / span } else { 0.0 };
                let amp = if t > 0.0 { 16.0 * (1.0 + t).powi(3) * ax.mesh_ratio.max(1.0).powi(2) } else { 1.0 };
                for j in 0..3 {
                    let want = r1[[qi, j]] + r2[[qi, j]];
                    let got = r12[[qi, j]];
                    let tol = 2.0 * kk * f64::EPSILON * 24.0 * amp;
                    out.evals += 1;
                    out.nontrivial += 1;
                    out.maximum("superposition_per_lane_err_over_tol", (want - got).abs() / tol);
                    if !((want - got).abs() <= tol) {
                        out.violate(
                            key.clone(),
                            format!("superposition with per-lane boundary conditions {:?}: lane {j} of the summed data at q={qv} is {got:e}, the sum of the two results is {want:e} (tol {tol:e})", [ca, cb, &cc]),
                            Json::obj(vec![("x", Json::f64s(x)), ("lane", Json::Int(j as i128)), ("query", Json::Num(qv))]),
                        );
                        break 'cfg;
                    }
                }
            }
        }
    }
    if out.sample.is_none() {
        out.sample = Some(Json::str(&format!("superposition per lane on {}", ax.name)));
    }
}

/// Verdicts are results too: whether build() accepts a data set and whether a query is in range must
/// not depend on the units. (a) Periodic data whose last value misses the first by a few ulps up to
/// 2^-22 relative, axis x cx, data x cd; (b) non-extrapolating Bilinear with queries k ulps inside /
/// outside the range ends, x and y axes scaled by independent factors.
fn run_verdicts(out: &mut JobOut) {
    use ndarray::{Array1, Array2};
    use ndarray_interp::interp1d::cubic_spline::{BoundaryCondition, CubicSpline};
    use ndarray_interp::interp1d::Interp1DBuilder;
    use ndarray_interp::interp2d::{Bilinear, Interp2DBuilder};
    let p2 = |e: i32| 2.0f64.powi(e);
    let factors = [p2(-40), p2(-20), p2(-3), 1.0, p2(5), p2(20), p2(40)];
    let x = [-2.0, -1.25, 0.5, 1.0, 3.5, 4.0];
    let n = x.len();
    let base: Vec<f64> = (0..n).map(|i| ((i * 3) as f64 * 0.37).sin() * 2.0 + 1.5).collect();
    // (a)
    let mut gaps: Vec<(String, f64)> = vec![("0".into(), 0.0)];
    for k in [1u64, 2, 4, 16, 256, 65536] {
        gaps.push((format!("{k} ulp"), f64::from_bits(base[0].to_bits() + k) - base[0]));
    }
    for e in [-40, -30, -22, -16] {
        gaps.push((format!("2^{e} relative"), base[0] * p2(e)));
    }
    for (gname, gap) in &gaps {
        let mut verdicts: Vec<(f64, f64, String)> = vec![];
        for &cx in &factors {
            for &cd in &factors {
                let xa: Array1<f64> = x.iter().map(|v| v * cx).collect();
                let mut d: Vec<f64> = base.clone();
                d[n - 1] = d[0] + gap;
                let da: Array1<f64> = d.iter().map(|v| v * cd).collect();
                let r = catch(|| Interp1DBuilder::new(da).x(xa).strategy(CubicSpline::new().boundary(BoundaryCondition::Periodic)).build().map(|_| ()));
                let v = match r { Ok(Ok(())) => "Ok".to_string(), Ok(Err(e)) => nimc::subj::builder_err_kind(&e).to_string(), Err(_) => "panic".to_string() };
                verdicts.push((cx, cd, v));
                out.evals += 1;
                out.nontrivial += 1;
                out.transitions += 1;
            }
        }
        out.states += 1;
        let first = verdicts[0].2.clone();
        out.outcome(format!("periodic-gap:{}", first));
        if let Some((cx, cd, v)) = verdicts.iter().find(|v| v.2 != first) {
            out.violate(
                format!("verdict:periodic:{gname}").replace(' ', ""),
                format!("Periodic data whose last value misses the first by {gname}: build() says {first} with axis x {:e}, data x {:e} but {v} with axis x {cx:e}, data x {cd:e}", verdicts[0].0, verdicts[0].1),
                Json::str(gname),
            );
        }
    }
    // (b)
    let y = [0.25, 1.0, 2.5, 7.0];
    let z = Array2::from_shape_fn((n, y.len()), |(i, j)| ((i * 4 + j) as f64 * 0.37).sin());
    let around = |v: f64| -> Vec<f64> {
        let mut q = vec![v];
        for k in [1u64, 2, 16, 1 << 10, 1 << 20, 1 << 30, 1 << 40] {
            let (up, down) = if v > 0.0 { (v.to_bits() + k, v.to_bits() - k) } else { (v.to_bits() - k, v.to_bits() + k) };
            q.push(f64::from_bits(up));
            q.push(f64::from_bits(down));
        }
        q
    };
    let qx: Vec<f64> = around(x[0]).into_iter().chain(around(x[n - 1])).collect();
    let qy: Vec<f64> = around(y[0]).into_iter().chain(around(y[y.len() - 1])).collect();
    for &cx in &factors {
        for &cy in &factors {
            let xa: Array1<f64> = x.iter().map(|v| v * cx).collect();
            let ya: Array1<f64> = y.iter().map(|v| v * cy).collect();
            let ip = Interp2DBuilder::new(z.clone()).x(xa).y(ya).strategy(Bilinear::new()).build().expect("valid grid");
            out.states += 1;
            for &a in &qx {
                for &b in &qy {
                    let inside = a >= x[0] && a <= x[n - 1] && b >= y[0] && b <= y[y.len() - 1];
                    let got = matches!(catch(|| ip.interp_scalar(a * cx, b * cy)), Ok(Ok(_)));
                    out.evals += 1;
                    out.nontrivial += 1;
                    if got != inside {
                        out.violate(
                            format!("verdict:bilinear:{cx:e}:{cy:e}"),
                            format!("Bilinear (no extrapolation), axes in units of {cx:e} (x) and {cy:e} (y): the query ({a:e}, {b:e}) [original units] is {} although it lies {} the closed range", if got { "answered" } else { "rejected" }, if inside { "inside" } else { "outside" }),
                            Json::f64s(&[a, b, cx, cy]),
                        );
                        return;
                    }
                }
            }
        }
    }
    out.sample = Some(Json::str("verdicts under unit changes"));
}

fn body(ctx: &Ctx) -> (Summary, Meta) {
    let quick = ctx.quick();
    let mut jobs = vec![];
    for f32 in [false, true] {
        let lin = alpha::full_word_axes(&alpha::h3(), "w", 2, if quick { 4 } else { 6 }, &alpha::OFFSETS);
        for a in &lin {
            jobs.push(Job { ax: a.clone(), kind: Kind::Linear, f32 });
        }
        let mut sp = if quick {
            alpha::full_word_axes(&alpha::h3(), "w", 3, 4, &[0.0, -3.0])
        } else {
            alpha::full_word_axes(&alpha::h4(), "w", 3, 6, &[0.0, -3.0])
        };
        sp.push(alpha::axis_from_word("w", 1.25, &[2.0, 0.5, 0.5, 1.0]));
        sp.push(alpha::axis_from_word("L", 0.0, &[1.0, 1.0, 4.0, 1.0, 1.0, 1.0, 1.0, 0.5, 1.0]));
        if !f32 {
            sp.extend(alpha::full_word_axes(&alpha::hw(), "W", 3, 4, &[0.0]));
        }
        for a in &sp {
            for spec in bc_configs(a.n() + 8, a.n()) {
                jobs.push(Job { ax: a.clone(), kind: Kind::Spline(spec), f32 });
            }
        }
        let mut a2 = alpha::full_word_axes(&alpha::h3(), "w", 2, if quick { 3 } else { 4 }, &[0.0]);
        a2.push(alpha::axis_from_word("w", -3.0, &[0.5, 2.0, 1.0]));
        for ax in &a2 {
            for ay in &a2 {
                jobs.push(Job { ax: ax.clone(), kind: Kind::Bilinear(ay.clone()), f32 });
            }
        }
    }
    let njobs = jobs.len();
    let sp_axes: Vec<Axis> = {
        let mut v = alpha::full_word_axes(&alpha::h3(), "w", 3, if quick { 4 } else { 5 }, &[0.0]);
        v.push(alpha::axis_from_word("L", 0.0, &[1.0, 1.0, 4.0, 1.0, 1.0, 1.0, 1.0, 0.5, 1.0]));
        v
    };
    let mut sum = run_jobs(ctx, "units-and-linearity", &jobs, |j| j.key(), |j| {
        let mut out = JobOut::default();
        match (&j.kind, j.f32) {
            (Kind::Bilinear(_), false) => run2d::<f64>(j, quick, &mut out),
            (Kind::Bilinear(_), true) => run2d::<f32>(j, quick, &mut out),
            (_, false) => run1d::<f64>(j, quick, &mut out),
            (_, true) => run1d::<f32>(j, quick, &mut out),
        }
        out
    });
    sum.merge(run_jobs(ctx, "verdicts-under-unit-changes", &[()], |_| "verdicts".to_string(), |_| {
        let mut out = JobOut::default();
        run_verdicts(&mut out);
        out
    }));
    sum.merge(run_jobs(ctx, "superposition-per-lane-conditions", &sp_axes, |a| format!("superposition-per-lane:{}", a.name), |a| {
        let mut out = JobOut::default();
        run_superposition_per_lane(a, &mut out);
        out
    }));
    let meta = Meta {
        rule: "for every (axis, strategy/boundary configuration): a base interpolator and twins in converted units: axis and queries x cx, data x cd (derivative boundary values converted with cd/cx and cd/cx^2), grid shifts of axis+queries, and the sum of every pair of lanes; in-range and extrapolated queries. Powers of two, negation and grid shifts must be bit-identical; factors 3 and 1/10 and superposition within rounding. Phase verdicts-under-unit-changes: (a) Periodic data whose last value misses the first by 0 / 1..65536 ulps / 2^-40..2^-16 relative: build()'s verdict is the same for all 49 (cx, cd) pairs of powers of two; (b) non-extrapolating Bilinear: queries 0, 1, 2, .. 2^40 ulps inside / outside each range end are answered iff in range for all 49 independent (cx, cy) pairs. Phase superposition-per-lane-conditions: data sets D1 = [u,u,v], D2 = [v,w,w] (neighbouring lanes bit-identical) under every ordered pair of different homogeneous boundary pairs {NotAKnot,Natural,Clamped}^2 per lane: S(D1+D2) = S(D1)+S(D2) lane by lane. Every comparison is non-trivial.".into(),
        bounds: format!("{njobs} (type, axis/grid, configuration) jobs; {} (cx, cd) pairs from cx in {{2^-20,2^-3,2,2^5,2^20,3,1/10}}, cd in {{2^-20,1/2,-1,2^7,2^20,3,-1/10}}; shifts {:?}; 2-D: independent cx, cy; tier {}", factors(quick, false).len(), SHIFTS, ctx.tier.name()),
        assumptions: vec!["inexact factors: tolerance K eps |result| (4 + 2 max|x|/h_min) (the rounded knots perturb the interval lengths)".into()],
        extra: vec![],
    };
    (sum, meta)
}

fn main() {
    main_with("C15", body)
}
