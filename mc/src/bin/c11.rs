//! C11 - the segment lookup returns the bracketing interval for every axis and query.
use std::fmt::Debug;

use ndarray::{s, Array1, Array2, ArrayView1};
use ndarray_interp::interp1d::Interp1DBuilder;
use ndarray_interp::interp2d::Interp2DBuilder;
use ndarray_interp::vector_extensions::VectorExtensions;
use ndarray_interp::verif_hooks;
use nimc::alpha;
use nimc::{catch, main_with, run_jobs, Ctx, JobOut, Json, Meta, Summary};
use num_traits::{Num, NumCast};

trait Elem: PartialOrd + Copy + Num + NumCast + Debug + Send + Sync + 'static {
    const NAME: &'static str;
    /// the two neighbouring representable values (saturating)
    fn up(self) -> Self;
    fn down(self) -> Self;
    fn extremes() -> Vec<Self>;
    fn show(self) -> String {
        format!("{self:?}")
    }
}
impl Elem for f64 {
    const NAME: &'static str = "f64";
    fn up(self) -> Self {
        self.next_up()
    }
    fn down(self) -> Self {
        self.next_down()
    }
    fn extremes() -> Vec<Self> {
        vec![0.0, -0.0, f64::MAX, f64::MIN, f64::INFINITY, f64::NEG_INFINITY, f64::MIN_POSITIVE, -f64::MIN_POSITIVE]
    }
    fn show(self) -> String {
        format!("{self:e}[{:#x}]", self.to_bits())
    }
}
impl Elem for f32 {
    const NAME: &'static str = "f32";
    fn up(self) -> Self {
        self.next_up()
    }
    fn down(self) -> Self {
        self.next_down()
    }
    fn extremes() -> Vec<Self> {
        vec![0.0, -0.0, f32::MAX, f32::MIN, f32::INFINITY, f32::NEG_INFINITY]
    }
}
impl Elem for i32 {
    const NAME: &'static str = "i32";
    fn up(self) -> Self {
        self.saturating_add(1)
    }
    fn down(self) -> Self {
        self.saturating_sub(1)
    }
    fn extremes() -> Vec<Self> {
        vec![0, i32::MAX, i32::MIN]
    }
}
impl Elem for i64 {
    const NAME: &'static str = "i64";
    fn up(self) -> Self {
        self.saturating_add(1)
    }
    fn down(self) -> Self {
        self.saturating_sub(1)
    }
    fn extremes() -> Vec<Self> {
        vec![0, i64::MAX, i64::MIN]
    }
}

macro_rules! narrow_elem {
    ($($t:ty),*) => {$(
        impl Elem for $t {
            const NAME: &'static str = stringify!($t);
            fn up(self) -> Self {
                self.saturating_add(1)
            }
            fn down(self) -> Self {
                self.saturating_sub(1)
            }
            fn extremes() -> Vec<Self> {
                vec![0, <$t>::MAX, <$t>::MIN]
            }
        }
    )*};
}
narrow_elem!(u8, i8, u16, i16, u32, u64);

/// Narrow integer types used over their whole range: axes of consecutive values whose length
/// (but not `len - 1` or the span) exceeds the type, shorter ones, and every-2nd / every-3rd-value
/// axes; queries: every value of the type (8 bit) or the standard set (16 bit and wider).
fn narrow_jobs<T: Elem + TryFrom<i64>>(min: i64, max: i64) -> Vec<Job<T>>
where
    <T as TryFrom<i64>>::Error: Debug,
{
    let mut jobs = vec![];
    let full = max - min + 1;
    // precondition of the statement: the span and len - 1 are representable (<= MAX)
    let mut cands: Vec<(i64, i64, i64)> = vec![];
    for (n, step) in [(max + 1, 1i64), (max, 1), (max / 2 + 1, 2), (max / 3 + 1, 3), (5, 1), (2, max), (3, max / 2)] {
        for first in [min, min / 2, -1, 0, 1, max - (n - 1) * step] {
            if first >= min && first + (n - 1) * step <= max && !cands.contains(&(first, n, step)) {
                cands.push((first, n, step));
            }
        }
    }
    for (first, n, step) in cands {
        assert!((n - 1) * step <= max && n - 1 <= max);
        let x: Vec<T> = (0..n).map(|i| T::try_from(first + i * step).unwrap()).collect();
        let q: Vec<T> = if full <= 256 { (min..=max).map(|v| T::try_from(v).unwrap()).collect() } else { std_queries(&x) };
        jobs.push(Job { name: format!("narrow:first{first}:n{n}:step{step}"), x, q, through_interp: n <= 300 });
    }
    jobs
}

/// reference: linear scan (short axes) / partition point (long axes)
fn oracle<T: Elem>(x: &[T], q: T) -> usize {
    let n = x.len();
    if n <= 64 {
        return nimc::refm::bracket_scan(x, q);
    }
    if q <= x[0] {
        return 0;
    }
    if q >= x[n - 1] {
        return n - 2;
    }
    x.partition_point(|&v| v <= q) - 1
}

#[derive(Clone)]
struct Job<T> {
    name: String,
    x: Vec<T>,
    q: Vec<T>,
    /// also go through Interp1D / Interp2D accessors
    through_interp: bool,
}

fn std_queries<T: Elem>(x: &[T]) -> Vec<T> {
    let mut q = vec![];
    let two = T::one() + T::one();
    for i in 0..x.len() {
        q.push(x[i]);
        q.push(x[i].up());
        q.push(x[i].down());
        if i + 1 < x.len() {
            // midpoint without overflow
            q.push(x[i] / two + x[i + 1] / two);
        }
    }
    q.extend(T::extremes());
    q
}

fn lookup_job<T: Elem>(job: &Job<T>, out: &mut JobOut)
where
    T: ndarray_interp_bounds::Bound,
{
    let n = job.x.len();
    let x = &job.x;
    // three storage forms of the same logical axis
    let owned = Array1::from(x.clone());
    let mut wide = Array1::from_elem(2 * n + 1, x[0]);
    for i in 0..n {
        wide[2 * i + 1] = x[i];
    }
    let strided: ArrayView1<T> = wide.slice(s![1..;2]);
    let mut rv: Vec<T> = x.clone();
    rv.reverse();
    let rev_store = Array1::from(rv);
    let reversed: ArrayView1<T> = rev_store.slice(s![..;-1]);
    debug_assert!(strided == owned && reversed == owned);
    let forms: [(&str, ArrayView1<T>); 3] = [("contiguous", owned.view()), ("strided", strided), ("reversed", reversed)];
    out.states += 1;
    for (form, ax) in forms.iter() {
        for &q in &job.q {
            let want = oracle(x, q);
            verif_hooks::reset_counters();
            let got = catch(|| ax.get_lower_index(q));
            let c = verif_hooks::counters();
            out.evals += 1;
            out.transitions += 1;
            let exit = ["clamp-left", "clamp-right", "guess-hit", "bisect"]
                .iter()
                .zip(c.lookup_exits.iter())
                .find(|(_, &k)| k > 0)
                .map(|(n, _)| *n)
                .unwrap_or("none");
            let rel = match c.last_guess {
                None => "no-guess".to_string(),
                Some(g) => {
                    let d = g as i64 - want as i64;
                    match d {
                        0 => "guess=bracket".into(),
                        1 => "guess=bracket+1".into(),
                        -1 => "guess=bracket-1".into(),
                        d if d > 1 => "guess>>bracket".into(),
                        _ => "guess<<bracket".to_string(),
                    }
                }
            };
            out.outcome(format!("{exit}:{rel}"));
            out.maximum("max_bisect_steps", c.max_bisect_steps as f64);
            if exit == "bisect" {
                out.nontrivial += 1;
            }
            let bad = match &got {
                Ok(i) if *i == want && *i + 2 <= n => None,
                Ok(i) => Some(format!("returned {i}, the bracketing index is {want} (n = {n})")),
                Err(p) => Some(format!("panicked: {p}")),
            };
            if let Some(w) = bad {
                out.violate(
                    format!("{}:{}:{form}:q={}", T::NAME, job.name, q.show()),
                    format!("get_lower_index({}) on a {form} axis {w}", q.show()),
                    Json::obj(vec![
                        ("type", Json::str(T::NAME)),
                        ("axis_name", Json::str(&job.name)),
                        ("axis", Json::Arr(x.iter().take(64).map(|v| Json::str(&v.show())).collect())),
                        ("axis_len", Json::Int(n as i128)),
                        ("storage", Json::str(form)),
                        ("query", Json::str(&q.show())),
                        ("expected", Json::Int(want as i128)),
                        ("observed", Json::str(&format!("{got:?}"))),
                    ]),
                );
            }
        }
    }
    if job.through_interp {
        T::through_interp(job, out);
    }
    if out.sample.is_none() {
        out.sample = Some(Json::obj(vec![
            ("type", Json::str(T::NAME)),
            ("axis_name", Json::str(&job.name)),
            ("axis", Json::Arr(x.iter().take(16).map(|v| Json::str(&v.show())).collect())),
            ("queries", Json::Int(job.q.len() as i128)),
        ]));
    }
}

/// Interp1D / Interp2D accessors need `Send` etc. on the element and only make sense for the
/// float types; the integer types skip this part.
mod ndarray_interp_bounds {
    use super::*;
    pub trait Bound: Elem {
        fn through_interp(job: &Job<Self>, out: &mut JobOut);
    }
    macro_rules! float_bound {
        ($t:ty) => {
            impl Bound for $t {
                fn through_interp(job: &Job<Self>, out: &mut JobOut) {
                    let n = job.x.len();
                    let x = Array1::from(job.x.clone());
                    let data1 = Array1::from_elem(n, 1.0 as $t);
                    let Ok(i1) = Interp1DBuilder::new(data1).x(x.clone()).build() else {
                        out.violate(format!("{}:{}:interp1d-build", Self::NAME, job.name), "valid axis rejected", Json::Null);
                        return;
                    };
                    // y axis = the same axis shifted; x axis of the 2-D interpolator = a 2 knot axis
                    let data2 = Array2::from_elem((2, n), 1.0 as $t);
                    let Ok(i2) = Interp2DBuilder::new(data2).y(x.clone()).build() else {
                        out.violate(format!("{}:{}:interp2d-build", Self::NAME, job.name), "valid axis rejected", Json::Null);
                        return;
                    };
                    for &q in &job.q {
                        let want = oracle(&job.x, q);
                        let g1 = catch(|| i1.get_index_left_of(q));
                        let g2 = catch(|| i2.get_index_left_of(0.5 as $t, q));
                        out.evals += 2;
                        out.transitions += 2;
                        if g1 != Ok(want) {
                            out.violate(
                                format!("{}:{}:Interp1D:q={}", Self::NAME, job.name, q.show()),
                                format!("Interp1D::get_index_left_of({}) = {g1:?}, bracket is {want}", q.show()),
                                Json::Null,
                            );
                        }
                        if g2 != Ok((0, want)) {
                            out.violate(
                                format!("{}:{}:Interp2D:q={}", Self::NAME, job.name, q.show()),
                                format!("Interp2D::get_index_left_of(0.5, {}) = {g2:?}, bracket is (0, {want})", q.show()),
                                Json::Null,
                            );
                        }
                    }
                }
            }
        };
    }
    float_bound!(f64);
    float_bound!(f32);
    impl Bound for i32 {
        fn through_interp(_: &Job<Self>, _: &mut JobOut) {}
    }
    impl Bound for i64 {
        fn through_interp(_: &Job<Self>, _: &mut JobOut) {}
    }
    macro_rules! int_bound {
        ($($t:ty),*) => {$(
            impl Bound for $t {
                fn through_interp(job: &Job<Self>, out: &mut JobOut) {
                    let n = job.x.len();
                    let x = Array1::from(job.x.clone());
                    let Ok(i1) = Interp1DBuilder::new(Array1::from_elem(n, 1 as $t)).x(x.clone()).build() else {
                        out.violate(format!("{}:{}:interp1d-build", Self::NAME, job.name), "valid axis rejected", Json::Null);
                        return;
                    };
                    for &q in &job.q {
                        let want = oracle(&job.x, q);
                        let g1 = catch(|| i1.get_index_left_of(q));
                        out.evals += 1;
                        out.transitions += 1;
                        if g1 != Ok(want) {
                            out.violate(format!("{}:{}:Interp1D:q={}", Self::NAME, job.name, q.show()), format!("Interp1D::get_index_left_of({}) = {g1:?}, bracket is {want}", q.show()), Json::Null);
                        }
                    }
                }
            }
        )*};
    }
    int_bound!(u8, i8, u16, i16, u32, u64);
}

/// (a) every (n, guess g, rank r, query kind)
fn guess_rank_jobs(nmax: usize) -> Vec<Job<f64>> {
    let mut jobs = vec![];
    for n in 2..=nmax {
        for g in 0..n - 1 {
            let v = g as f64 + 0.5;
            for r in 1..n {
                // r knots (incl. x0) are <= the query; kinds: interior, at-knot, knot+ulp, knot-ulp
                for kind in 0..4 {
                    let knot_at_v = kind != 0;
                    if knot_at_v && (r < 2) {
                        continue; // x0 = 0 is never at v
                    }
                    // knots below or at the query
                    let lower_interior = r - 1; // excluding x0
                    let upper_interior = n - 1 - r; // excluding x_{n-1}
                    let mut x = vec![0.0];
                    let free_lower = if knot_at_v { lower_interior - 1 } else { lower_interior };
                    for j in 1..=free_lower {
                        x.push(v * j as f64 / (free_lower + 1) as f64);
                    }
                    if knot_at_v {
                        x.push(v);
                    }
                    let top = (n - 1) as f64;
                    for j in 1..=upper_interior {
                        x.push(v + (top - v) * j as f64 / (upper_interior + 1) as f64);
                    }
                    x.push(top);
                    if x.len() != n || x.windows(2).any(|w| !(w[0] < w[1])) {
                        continue;
                    }
                    let q = match kind {
                        0 | 1 => v,
                        2 => v.next_up(),
                        _ => v.next_down(),
                    };
                    jobs.push(Job {
                        name: format!("gr:n{n}:g{g}:r{r}:k{kind}"),
                        x,
                        q: vec![q],
                        through_interp: false,
                    });
                }
            }
        }
    }
    jobs
}

fn float_jobs_f64(quick: bool, deep: bool) -> Vec<Job<f64>> {
    let mut jobs = guess_rank_jobs(if quick { 16 } else if deep { 128 } else { 64 });
    for a in alpha::subsets_axes(&alpha::value_set(), "v", 2, if quick { 4 } else { 12 }) {
        let q = std_queries(&a.x);
        jobs.push(Job { name: a.name.clone(), q, x: a.x, through_interp: true });
    }
    let mixed = [-1e300, -1.0, -1e-300, 0.0, 1e-300, 1.0, 1e300];
    for a in alpha::subsets_axes(&mixed, "mixed", 2, 7) {
        let q = std_queries(&a.x);
        jobs.push(Job { name: a.name.clone(), q, x: a.x, through_interp: true });
    }
    // (c) spans for which fl((n-1)/s) * fl(q - x0) can reach n-1 for q < x_n
    for &s in &[3.0, 0.3, 7.0, 0.7, 1e-3, 1.0 / 3.0, 49.0, 0.1] {
        for &o in &[-1048576.0, -1e6, 1e6, -1e15, 0.0, -0.3] {
            for &n in &[2usize, 3, 4, 7, 11] {
                let x: Vec<f64> = (0..n).map(|i| o + s * i as f64 / (n - 1) as f64).collect();
                if x.windows(2).any(|w| !(w[0] < w[1])) {
                    continue;
                }
                let mut q = std_queries(&x);
                let mut e = x[n - 1];
                for _ in 0..6 {
                    e = e.next_down();
                    q.push(e);
                }
                let mut e = x[0];
                for _ in 0..6 {
                    e = e.next_up();
                    q.push(e);
                }
                jobs.push(Job { name: format!("span{s}@{o}:n{n}"), x, q, through_interp: false });
            }
        }
    }
    // (c') evenly spaced axes across zero, every length 2..=64: whether fl(fl((n-1)/s) * s) exceeds n-1
    // depends on the mantissas of the span and of the length; and axes behind a far-away sentinel knot
    for &(lo, hi) in &[(-100.0, 100.0), (-std::f64::consts::PI, std::f64::consts::PI), (-1e20, 1e20), (-0.7, 0.7), (-5.3, 5.3), (-100.0, 33.0), (-1.0, 1e-3)] {
        for n in 2usize..=64 {
            let x: Vec<f64> = (0..n).map(|i| if i == n - 1 { hi } else { lo + (hi - lo) * i as f64 / (n - 1) as f64 }).collect();
            if x.windows(2).any(|w| !(w[0] < w[1])) {
                continue;
            }
            let mut q = vec![x[0], x[n - 1], 0.0, x[n / 2]];
            let (mut e, mut f) = (x[n - 1], x[0]);
            for _ in 0..6 {
                e = e.next_down();
                f = f.next_up();
                q.push(e);
                q.push(f);
            }
            jobs.push(Job { name: format!("across-zero[{lo},{hi}]:n{n}"), x, q, through_interp: false });
        }
    }
    for far in [-1e20, -1e10, -4503599627370496.0] {
        for k in [2usize, 3, 4, 9] {
            let x: Vec<f64> = std::iter::once(far).chain((0..k).map(|i| i as f64)).collect();
            let q = std_queries(&x);
            jobs.push(Job { name: format!("sentinel{far}:k{k}"), x, q, through_interp: true });
        }
    }
    // clusters of knots a few denormals apart next to ordinary knots (differences and slopes inside
    // the cluster are extreme, the span and (len-1)/span of the whole axis are ordinary)
    let tiny = f64::from_bits(1);
    for c in [0.0f64, 1.0, -2.5] {
        for k in [2usize, 3, 4, 6] {
            for (pos, name) in [(0usize, "first"), (1, "middle"), (2, "last")] {
                // increasing neighbours of c: denormal steps at 0, one-ulp steps elsewhere (for negative c
                // the bit pattern decreases towards zero)
                let cluster: Vec<f64> = (0..k).map(|i| if c == 0.0 { tiny * i as f64 } else if c > 0.0 { f64::from_bits(c.to_bits() + i as u64) } else { f64::from_bits(c.to_bits() - i as u64) }).collect();
                let mut x: Vec<f64> = match pos {
                    0 => cluster.iter().cloned().chain([c + 1.0, c + 2.0, c + 5.0]).collect(),
                    1 => [c - 3.0, c - 1.0].into_iter().chain(cluster.iter().cloned()).chain([c + 1.5, c + 4.0]).collect(),
                    _ => [c - 7.0, c - 2.0, c - 1.0].into_iter().chain(cluster.iter().cloned()).collect(),
                };
                x.dedup();
                if x.windows(2).any(|w| !(w[0] < w[1])) {
                    continue;
                }
                let q = std_queries(&x);
                jobs.push(Job { name: format!("cluster{k}@{c}:{name}"), x, q, through_interp: true });
            }
        }
    }
    // long axes: uniform, geometric, logarithmic, clustered
    let longs: Vec<(String, Vec<f64>)> = vec![
        ("uniform1e4".into(), (0..10_000).map(|i| i as f64 * 0.37 - 5.0).collect()),
        ("geometric1000".into(), (0..1000).map(|i| 1.01f64.powi(i)).collect()),
        ("log1000".into(), (1..=1000).map(|i| (i as f64).ln()).collect()),
        ("ulps300".into(), {
            let mut v = vec![1.0f64];
            for _ in 0..299 {
                v.push(v.last().unwrap().next_up());
            }
            v
        }),
        ("twoscale".into(), {
            let mut v: Vec<f64> = (0..200).map(|i| i as f64 * 1e-9).collect();
            v.extend((1..200).map(|i| 1.0 + i as f64 * 1e3));
            v
        }),
    ];
    for (name, x) in longs {
        if quick && x.len() > 2000 {
            let x: Vec<f64> = x.into_iter().take(2000).collect();
            let q = std_queries(&x);
            jobs.push(Job { name: format!("{name}[..2000]"), x, q, through_interp: false });
        } else {
            let q = std_queries(&x);
            jobs.push(Job { name, x, q, through_interp: false });
        }
    }
    jobs
}

fn float_jobs_f32(quick: bool) -> Vec<Job<f32>> {
    let e = f32::EPSILON as f64;
    let vs = vec![-1048576.0, -7.0, -1.0, 0.0, 2.0f64.powi(-10), 1.0, 1.0 + e, 1.0 + 2.0 * e, 1.5, 2.0, 7.0];
    let mut jobs = vec![];
    for a in alpha::subsets_axes(&vs, "v", 2, if quick { 4 } else { 11 }) {
        let x: Vec<f32> = a.x.iter().map(|&v| v as f32).collect();
        let q = std_queries(&x);
        jobs.push(Job { name: a.name, x, q, through_interp: true });
    }
    for &s in &[3.0f32, 0.3, 7.0, 0.7, 0.1] {
        for &o in &[-1024.0f32, -1000.0, 1e6, 0.0] {
            for &n in &[2usize, 3, 4, 7] {
                let x: Vec<f32> = (0..n).map(|i| o + s * i as f32 / (n - 1) as f32).collect();
                if x.windows(2).any(|w| !(w[0] < w[1])) {
                    continue;
                }
                let mut q = std_queries(&x);
                let mut e = x[n - 1];
                for _ in 0..6 {
                    e = e.next_down();
                    q.push(e);
                }
                jobs.push(Job { name: format!("span{s}@{o}:n{n}"), x, q, through_interp: false });
            }
        }
    }
    jobs
}

fn int_jobs<T: Elem + TryFrom<i64>>(quick: bool, big: i64) -> Vec<Job<T>>
where
    <T as TryFrom<i64>>::Error: Debug,
{
    let vals: Vec<i64> = vec![-big, -big + 1, -7, -1, 0, 1, 2, 3, 10, 1000, big - 3, big - 2, big - 1];
    let mut jobs = vec![];
    let m = vals.len();
    for mask in 1u32..(1 << m) {
        let c = mask.count_ones();
        if c < 2 || (quick && c > 4) {
            continue;
        }
        let xi: Vec<i64> = (0..m).filter(|i| mask >> i & 1 == 1).map(|i| vals[i]).collect();
        // precondition: the span must be representable
        let span = xi[xi.len() - 1] as i128 - xi[0] as i128;
        if span >= big as i128 * 2 - 1 {
            continue;
        }
        let x: Vec<T> = xi.iter().map(|&v| T::try_from(v).unwrap()).collect();
        let q = std_queries(&x);
        jobs.push(Job { name: format!("int#{mask:#x}"), x, q, through_interp: false });
    }
    // long, wide integer axes
    for (n, step) in [(100usize, 1i64), (1000, 1000), (10_000, 1000), (10_000, 100_000), (3, big / 2 - 1)] {
        if (n as i128 - 1) * step as i128 >= big as i128 * 2 - 2 || (quick && n > 1000) {
            continue;
        }
        let x: Vec<T> = (0..n as i64).map(|i| T::try_from(i * step - 5).unwrap()).collect();
        let q = std_queries(&x);
        jobs.push(Job { name: format!("intlong:n{n}:step{step}"), x, q, through_interp: false });
    }
    jobs
}

fn body(ctx: &Ctx) -> (Summary, Meta) {
    // the former thorough bounds cost 2 s: they are the quick tier now; thorough doubles n
    let quick = false;
    let deep = !ctx.quick();
    let mut sum = Summary::default();
    let j64 = float_jobs_f64(quick, deep);
    sum.merge(run_jobs(ctx, "lookup-f64", &j64, |j| format!("f64:{}", j.name), |j| {
        let mut o = JobOut::default();
        lookup_job(j, &mut o);
        o
    }));
    let j32 = float_jobs_f32(quick);
    sum.merge(run_jobs(ctx, "lookup-f32", &j32, |j| format!("f32:{}", j.name), |j| {
        let mut o = JobOut::default();
        lookup_job(j, &mut o);
        o
    }));
    let ji32 = int_jobs::<i32>(quick, 1 << 30);
    sum.merge(run_jobs(ctx, "lookup-i32", &ji32, |j| format!("i32:{}", j.name), |j| {
        let mut o = JobOut::default();
        lookup_job(j, &mut o);
        o
    }));
    let ji64 = int_jobs::<i64>(quick, 1 << 62);
    sum.merge(run_jobs(ctx, "lookup-i64", &ji64, |j| format!("i64:{}", j.name), |j| {
        let mut o = JobOut::default();
        lookup_job(j, &mut o);
        o
    }));
    macro_rules! narrow {
        ($t:ty) => {{
            let j = narrow_jobs::<$t>(<$t>::MIN as i64, (<$t>::MAX as i128).min(i64::MAX as i128) as i64);
            sum.merge(run_jobs(ctx, concat!("lookup-", stringify!($t)), &j, |j| format!("{}:{}", stringify!($t), j.name), |j| {
                let mut o = JobOut::default();
                lookup_job(j, &mut o);
                o
            }));
        }};
    }
    narrow!(u8);
    narrow!(i8);
    narrow!(u16);
    narrow!(i16);
    let meta = Meta {
        rule: "(a) every (n, initial guess g, rank r of the query, query kind in {interior, at a knot, knot+1ulp, knot-1ulp}) with n up to the bound; (b) every subset axis of the value set, the mixed-magnitude set 1e-300..1e300 and integer sets incl. +-2^30 / +-2^62 with every knot, both neighbours, midpoints, +-0, +-MAX, +-inf as queries; (b') clusters of 2..6 knots one denormal / one ulp apart at the start, in the middle and at the end of an ordinary axis; (c) spans 3, 0.3, 7, ... at far offsets with the 6 floats below the last knot; (d) long uniform/geometric/logarithmic/ulp-spaced axes (up to 10^4 knots) and long wide i32/i64 axes; (e) u8 / i8 / u16 / i16 axes that use the whole range of the type (MAX+1 consecutive knots - e.g. 256 for u8, 128 for i8 at several offsets -, one fewer, every 2nd and 3rd value, two and three knots of maximal span; always with representable span and len - 1) with every value of the type as query; every axis as contiguous, strided and reversed view, and through Interp1D/Interp2D::get_index_left_of. Oracle: linear scan. The hook counters classify every lookup by exit x (guess - bracket); non-trivial = lookup that leaves through the bisection.".into(),
        bounds: format!("n <= {} for (a); {} f64 + {} f32 + {} i32 + {} i64 axis jobs; tier {}", if deep { 128 } else { 64 }, j64.len(), j32.len(), ji32.len(), ji64.len(), ctx.tier.name()),
        assumptions: vec!["precondition of the statement: finite span and finite (len-1)/span; integer axes with representable span".into()],
        extra: vec![],
    };
    (sum, meta)
}

fn main() {
    main_with("C11", body)
}
