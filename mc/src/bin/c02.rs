//! C02 - the cubic spline passes through the data and is a C2 piecewise cubic.
use nimc::spl::{bc_configs, run_spline_job, spline_axes, SplineJob, Want};
use nimc::{main_with, run_jobs, Ctx, JobOut, Meta, Summary};

fn body(ctx: &Ctx) -> (Summary, Meta) {
    let axes = spline_axes(ctx.quick(), 3);
    let mut jobs = vec![];
    for a in &axes {
        for spec in bc_configs(a.n() + 8, a.n()) {
            jobs.push(SplineJob {
                axis: a.clone(),
                spec,
                den: 8,
                f32_too: a.n() <= 7,
                xscale: 1.0,
                nearly_closed: false,
                lane_mix: false,
            });
        }
    }
    // very fine and very coarse axes: the same splines on an axis scaled by 2^-50 and 2^40
    // (spacing ~1e-15 resp. ~1e12); the reference is the unscaled exact spline
    for a in axes.iter().filter(|a| a.name.starts_with("w[") && a.name.ends_with("@0") && a.n() <= if ctx.quick() { 4 } else { 6 }) {
        for spec in bc_configs(a.n() + 8, a.n()) {
            for xscale in [2.0f64.powi(-50), 2.0f64.powi(40)] {
                jobs.push(SplineJob {
                    axis: a.clone(),
                    spec: spec.clone(),
                    den: 8,
                    f32_too: true,
                    xscale,
                    nearly_closed: false,
                lane_mix: false,
                });
            }
        }
    }
    // periodic data that almost closes (last = first + 2^-20 relative)
    for a in axes.iter().filter(|a| a.n() >= 3) {
        jobs.push(SplineJob { axis: a.clone(), spec: nimc::subj::BcSpec::Periodic, den: 8, f32_too: false, xscale: 1.0, nearly_closed: true, lane_mix: false });
    }
    // lanes of wildly different magnitude (2^900, 2^-900, 1) in one data set
    for a in axes.iter().filter(|a| a.name.starts_with("w[") && a.name.ends_with("@0") && a.n() <= if ctx.quick() { 4 } else { 6 }) {
        for spec in bc_configs(a.n() + 8, a.n()) {
            if matches!(spec, nimc::subj::BcSpec::Lanes(_) | nimc::subj::BcSpec::Rows(_)) {
                continue; // prescribed derivative values belong to a magnitude
            }
            jobs.push(SplineJob { axis: a.clone(), spec, den: 8, f32_too: false, xscale: 1.0, nearly_closed: false, lane_mix: true });
        }
    }
    // very long axes (600 / 1000 knots; f32: 100 / 200 knots) with one or two deviating intervals, and
    // nearly even axes (spacing 1/2 with jitter of 2^-32): solver shortcuts keyed on length or on
    // "the spacing looks even"
    for (n, f32_too) in [(100usize, true), (200, true), (600, false), (1000, false)] {
        for dev in [None, Some((n / 3, 0.5)), Some((n - 3, 2.0))] {
            let mut w = vec![1.0; n - 1];
            if let Some((p, h)) = dev {
                w[p] = h;
            }
            let a = nimc::alpha::axis_from_word("vlong", 0.0, &w);
            for spec in [nimc::subj::BcSpec::Periodic, nimc::subj::BcSpec::TopNotAKnot, nimc::subj::BcSpec::TopNatural] {
                jobs.push(SplineJob { axis: a.clone(), spec, den: 8, f32_too, xscale: 1.0, nearly_closed: false, lane_mix: false });
            }
        }
    }
    let j = 2.0f64.powi(-32);
    for w in [vec![0.5, 0.5 + j, 0.5, 0.5 - j / 2.0, 0.5], vec![0.5 + j, 0.5, 0.5, 0.5, 0.5 - j, 0.5, 0.5 + j / 4.0], vec![0.5, 0.5, 0.5 + j]] {
        let a = nimc::alpha::axis_from_word("nearly-even", 0.0, &w);
        for spec in bc_configs(a.n() + 8, a.n()) {
            jobs.push(SplineJob { axis: a.clone(), spec, den: 8, f32_too: false, xscale: 1.0, nearly_closed: false, lane_mix: false });
        }
    }
    // long graded axes (intervals growing / shrinking geometrically over 70 - 130 knots; knots are
    // the rounded partial sums): only the boundary-independent statements are judged
    for (r, n) in [(2.0f64, 70usize), (2.0, 100), (4.0, 70), (1.5, 130), (1.25, 100)] {
        for shrinking in [false, true] {
            let h: Vec<f64> = (0..n - 1).map(|i| r.powi(i as i32)).collect();
            let mut x = vec![0.0];
            for hi in &h {
                x.push(x[x.len() - 1] + hi);
            }
            if shrinking {
                // the mirror image: intervals shrink towards the right end (at 0)
                x = x.iter().rev().map(|v| -v).collect();
            }
            assert!(x.windows(2).all(|w| w[0] < w[1]));
            let a = nimc::alpha::Axis::new(format!("graded[r={r},n={n},{}]", if shrinking { "shrinking" } else { "growing" }), x);
            for spec in [nimc::subj::BcSpec::Periodic, nimc::subj::BcSpec::TopNotAKnot, nimc::subj::BcSpec::TopNatural] {
                jobs.push(SplineJob { axis: a.clone(), spec, den: 8, f32_too: false, xscale: 1.0, nearly_closed: false, lane_mix: false });
            }
        }
    }
    let want = Want {
        structural: true,
        ends: false,
        exact: false,
        exact_max_n: 0,
    };
    let sum = run_jobs(
        ctx,
        "spline-structure",
        &jobs,
        |j| j.key(),
        |j| {
            let mut out = JobOut::default();
            run_spline_job(j, want, &mut out);
            out
        },
    );
    let meta = Meta {
        rule: "every (axis word, boundary configuration) is one built spline (state); per lane the Hermite pair of every interval is recovered from the implementation's samples at t=1/4,3/4 and (i) S(x_i)=y_i, (ii) the 5 other eighth-samples lie on that cubic, (iii) S' and (iv) S'' agree from both sides at every interior knot. Deliberately independent of which boundary rows are right. Non-trivial = lane with non-constant data. Extra jobs: axes of 100 - 1000 knots with 0 - 1 deviating intervals (Periodic, NotAKnot, Natural), nearly even axes (1/2 +- 2^-32); data sets whose lanes are scaled by 2^900, 2^-900 and 1 (whole-data-set boundary conditions); Periodic on every axis with data whose last value misses the first by 2^-22 relative: rejected by build() (counted) or, if accepted, held to the same four statements.".into(),
        bounds: format!("{} axes (same alphabet as C03), 33 boundary configurations, 8 samples per interval, f64 and f32", axes.len()),
        assumptions: vec![
            "tolerances K*eps*scale (value), 64x /h (S'), 256x /h^2 (S''), scale = max(|y|,|a|,|b|) of the recovered pieces".into(),
        ],
        extra: vec![],
    };
    (sum, meta)
}

fn main() {
    main_with("C02", body)
}
