//! C02 - the cubic spline passes through the data and is a C2 piecewise cubic.
use nimc::spl::{bc_configs, run_spline_job, spline_axes, SplineJob, Want};
use nimc::{main_with, run_jobs, Ctx, JobOut, Meta, Summary};

fn body(ctx: &Ctx) -> (Summary, Meta) {
    let axes = spline_axes(ctx.quick(), 3);
    let mut jobs = vec![];
    for a in &axes {
        for spec in bc_configs(a.n() + 8, a.n()) {
            jobs.push(SplineJob {
                axis: a.clone(),
                spec,
                den: 8,
                f32_too: a.n() <= 7,
                xscale: 1.0,
                nearly_closed: false,
                lane_mix: false,
            });
        }
    }
    // very fine and very coarse axes: the same splines on an axis scaled by 2^-50 and 2^40
    // (spacing ~1e-15 resp. ~1e12); the reference is the unscaled exact spline
    for a in axes.iter().filter(|a| a.name.starts_with("w[") && a.name.ends_with("@0") && a.n() <= if ctx.quick() { 4 } else { 6 }) {
        for spec in bc_configs(a.n() + 8, a.n()) {
            for xscale in [2.0f64.powi(-50), 2.0f64.powi(40)] {
                jobs.push(SplineJob {
                    axis: a.clone(),
                    spec: spec.clone(),
                    den: 8,
                    f32_too: true,
                    xscale,
                    nearly_closed: false,
                lane_mix: false,
                });
            }
        }
    }
    // periodic data that almost closes (last = first + 2^-20 relative)
    for a in axes.iter().filter(|a| a.n() >= 3) {
        jobs.push(SplineJob { axis: a.clone(), spec: nimc::subj::BcSpec::Periodic, den: 8, f32_too: false, xscale: 1.0, nearly_closed: true, lane_mix: false });
    }
    // lanes of wildly different magnitude (2^900, 2^-900, 1) in one data set
    for a in axes.iter().filter(|a| a.name.starts_with("w[") && a.name.ends_with("@0") && a.n() <= if ctx.quick() { 4 } else { 6 }) {
        for spec in bc_configs(a.n() + 8, a.n()) {
            if matches!(spec, nimc::subj::BcSpec::Lanes(_) | nimc::subj::BcSpec::Rows(_)) {
                continue; // prescribed derivative values belong to a magnitude
            }
            jobs.push(SplineJob { axis: a.clone(), spec, den: 8, f32_too: false, xscale: 1.0, nearly_closed: false, lane_mix: true });
        }
    }
    // very long axes (600 / 1000 knots; f32: 100 / 200 knots) with one or two deviating intervals, and
    // nearly even axes (spacing 1/2 with jitter of 2^-32): solver shortcuts keyed on length or on
    // "the spacing looks even"
    for (n, f32_too) in [(100usize, true), (200, true), (600, false), (1000, false)] {
        for dev in [None, Some((n / 3, 0.5)), Some((n - 3, 2.0))] {
            let mut w = vec![1.0; n - 1];
            if let Some((p, h)) = dev {
                w[p] = h;
            }
            let a = nimc::alpha::axis_from_word("vlong", 0.0, &w);
            for spec in [nimc::subj::BcSpec::Periodic, nimc::subj::BcSpec::TopNotAKnot, nimc::subj::BcSpec::TopNatural] {
                jobs.push(SplineJob { axis: a.clone(), spec, den: 8, f32_too, xscale: 1.0, nearly_closed: false, lane_mix: false });
            }
        }
    }
    let j = 2.0f64.powi(-32);
    for w in [vec![0.5, 0.5 + j, 0.5, 0.5 - j / 2.0, 0.5], vec![0.5 + j, 0.5, 0.5, 0.5, 0.5 - j, 0.5, 0.5 + j / 4.0], vec![0.5, 0.5, 0.5 + j]] {
        let a = nimc::alpha::axis_from_word("nearly-even", 0.0, &w);
        for spec in bc_configs(a.n() + 8, a.n()) {
            jobs.push(SplineJob { axis: a.clone(), spec, den: 8, f32_too: false, xscale: 1.0, nearly_closed: false, lane_mix: false });
        }
    }
    // long graded axes (intervals growing / shrinking geometrically over 70 - 130 knots; knots are
    // the rounded partial sums): only the boundary-independent statements are judged
    for (r, n) in [(2.0f64, 70usize), (2.0, 100), (4.0, 70), (1.5, 130), (1.25, 100)] {
        for shrinking in [false, true] {
            let h: Vec<f64> = (0..n - 1).map(|i| r.powi(i as i32)).collect();
            let mut x = vec![0.0];
            for hi in &h {
                x.push(x[x.len() - 1] + hi);
            }
            if shrinking {
                // the mirror image: intervals shrink towards the right end (at 0)
                x = x.iter().rev().map(|v| -v).collect();
            }
            assert!(x.windows(2).all(|w| w[0] < w[1]));
            let a = nimc::alpha::Axis::new(format!("graded[r={r},n={n},{}]", if shrinking { "shrinking" } else { "growing" }), x);
            for spec in [nimc::subj::BcSpec::Periodic, nimc::subj::BcSpec::TopNotAKnot, nimc::subj::BcSpec::TopNatural] {
                jobs.push(SplineJob { axis: a.clone(), spec, den: 8, f32_too: false, xscale: 1.0, nearly_closed: false, lane_mix: false });
            }
        }
    }
    let want = Want {
        structural: true,
        ends: false,
        exact: false,
        exact_max_n: 0,
    };
    let sum = run_jobs(
        ctx,
        "spline-structure",
        &jobs,
        |j| j.key(),
        |j| {
            let mut out = JobOut::default();
            run_spline_job(j, want, &mut out);
            out
        },
    );
    let mut sum = sum;
    sum.merge(run_jobs(ctx, "periodic-extrapolating-in-range", &[false, true], |f| format!("{}:far-start", if *f { "f32" } else { "f64" }), |f| {
        let mut out = JobOut::default();
        if *f {
            run_far_start::<f32>(&mut out);
        } else {
            run_far_start::<f64>(&mut out);
        }
        out
    }));
    let meta = Meta {
        rule: "every (axis word, boundary configuration) is one built spline (state); per lane the Hermite pair of every interval is recovered from the implementation's samples at t=1/4,3/4 and (i) S(x_i)=y_i, (ii) the 5 other eighth-samples lie on that cubic, (iii) S' and (iv) S'' agree from both sides at every interior knot. Deliberately independent of which boundary rows are right. Non-trivial = lane with non-constant data. Extra jobs: axes of 100 - 1000 knots with 0 - 1 deviating intervals (Periodic, NotAKnot, Natural), nearly even axes (1/2 +- 2^-32); data sets whose lanes are scaled by 2^900, 2^-900 and 1 (whole-data-set boundary conditions); Periodic on every axis with data whose last value misses the first by 2^-22 relative: rejected by build() (counted) or, if accepted, held to the same four statements. Phase periodic-extrapolating-in-range: Periodic + extrapolate(true) on 18 axes per type that start 2^12 .. 2^30 away from cells of width 2^-30 .. 2^-48 (f32: 2^-14 .. 2^-22) around zero, and their mirror images: every knot returns its data value and every in-range query (quarter, mid, one ulp inside each knot) what the non-extrapolating spline over the same input returns.".into(),
        bounds: format!("{} axes (same alphabet as C03), 33 boundary configurations, 8 samples per interval, f64 and f32", axes.len()),
        assumptions: vec![
            "tolerances K*eps*scale (value), 64x /h (S'), 256x /h^2 (S''), scale = max(|y|,|a|,|b|) of the recovered pieces".into(),
        ],
        extra: vec![],
    };
    (sum, meta)
}

/// Pass-through of an *extrapolating periodic* spline on axes that start far from fine cells around
/// zero: inside the range the query must be used as it is (wrapping it "by zero periods" through
/// `x - x0` rounds it onto another position). Knots must return the data, other in-range queries
/// what the non-extrapolating spline over the same input returns.
fn run_far_start<T: nimc::fl::Fl>(out: &mut JobOut) {
    use nimc::fl::{vec_exact, Fl};
    use nimc::subj::{build_spline, BcSpec};
    use nimc::{catch, Json};
    let exps: [i32; 3] = if T::NAME == "f32" { [-14, -18, -22] } else { [-30, -40, -48] };
    for far in [1073741824.0f64, 1048576.0, 4096.0] {
        for e in exps {
            let f = 2.0f64.powi(e);
            for mirrored in [false, true] {
                let mut x64 = vec![-far, -1.0, -3.0 * f, -f, 0.0, f, 2.0 * f, 0.5, 3.0];
                if mirrored {
                    x64 = x64.iter().rev().map(|v| -v).collect();
                }
                let Some(xt) = vec_exact::<T>(&x64) else { continue };
                let n = xt.len();
                let mut y64: Vec<f64> = (0..n).map(|i| [0.75, -1.5, 2.0, 0.25, -0.5, 1.25, -2.0, 1.0, 0.0][i]).collect();
                y64[n - 1] = y64[0];
                let data = ndarray::Array2::from_shape_fn((n, 2), |(i, k)| T::from_f64_lossy(y64[i] * (1 + k) as f64));
                let key = format!("{}:far-start:{far}:2^{e}:{}", T::NAME, if mirrored { "mirrored" } else { "plain" });
                let (Ok(Ok(ext)), Ok(Ok(plain))) = (catch(|| build_spline::<T, _>(&xt, data.clone(), &BcSpec::Periodic, true)), catch(|| build_spline::<T, _>(&xt, data.clone(), &BcSpec::Periodic, false))) else {
                    out.violate(key, "valid periodic input not accepted by build()".to_string(), Json::f64s(&x64));
                    continue;
                };
                out.states += 1;
                let mut qs: Vec<(T, Option<usize>)> = (0..n).map(|i| (xt[i], Some(i))).collect();
                for w in xt.windows(2) {
                    qs.push((w[0] + (w[1] - w[0]) * T::from_f64_lossy(0.25), None));
                    qs.push((w[0] + (w[1] - w[0]) * T::from_f64_lossy(0.5), None));
                    qs.push((w[0].up(), None));
                    qs.push((w[1].down(), None));
                }
                for (q, knot) in qs {
                    let (a, b) = (catch(|| ext.interp(q)), catch(|| plain.interp(q)));
                    out.evals += 1;
                    out.nontrivial += 1;
                    out.transitions += 2;
                    let bad = match (&a, &b) {
                        (Ok(Ok(a)), Ok(Ok(b))) => {
                            let mut bad = None;
                            for k in 0..2 {
                                let (va, vb) = (Fl::to_f64(a[k]), Fl::to_f64(b[k]));
                                let scale = 16.0 * (1 + k) as f64;
                                if let Some(i) = knot {
                                    let want = y64[i] * (1 + k) as f64;
                                    if !((va - want).abs() <= 64.0 * T::EPS * scale) {
                                        bad = Some(format!("at knot {i} (x = {:e}) the extrapolating periodic spline returns {va:e}, the data value is {want:e}", x64[i]));
                                    }
                                }
                                if !((va - vb).abs() <= 4096.0 * T::EPS * scale.max(vb.abs())) {
                                    bad = bad.or(Some(format!("at the in-range query {:e} the extrapolating periodic spline returns {va:e}, the same spline without extrapolation {vb:e}", Fl::to_f64(q))));
                                }
                            }
                            bad
                        }
                        _ => Some(format!("in-range query {:e} not answered: {:?} / {:?}", Fl::to_f64(q), a.as_ref().map(|r| r.as_ref().map(|_| ()).map_err(|e| e.to_string())), b.as_ref().map(|r| r.as_ref().map(|_| ()).map_err(|e| e.to_string())))),
                    };
                    out.outcome(if bad.is_none() { "far-start:ok" } else { "far-start:bad" });
                    if let Some(w) = bad {
                        out.violate(key.clone(), format!("CubicSpline/Periodic with extrapolate(true) over x = {x64:?}: {w}"), Json::obj(vec![("type", Json::str(T::NAME)), ("x", Json::f64s(&x64)), ("query", Json::Num(Fl::to_f64(q)))]));
                        break;
                    }
                }
            }
        }
    }
    out.sample = Some(Json::str("axes [-far, -1, -3f, -f, 0, f, 2f, 1/2, 3] and mirrored; far = 2^30, 2^20, 2^12; f = 2^-30 .. 2^-48 (f32: 2^-14 .. 2^-22)"));
}

fn main() {
    main_with("C02", body)
}
