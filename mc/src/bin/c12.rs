//! C12 - monotonic_prop classifies every vector correctly and never calls NaN data rising.
use std::collections::BTreeSet;
use std::fmt::Debug;

use ndarray::{s, Array1, ArrayView1};
use ndarray_interp::vector_extensions::{Monotonic, VectorExtensions};
use nimc::refm::{mono_spec, MonoSpec};
use nimc::{catch, main_with, run_jobs, Ctx, JobOut, Json, Meta, Summary};
use num_traits::{Num, NumCast};

trait Elem: PartialOrd + Copy + Num + NumCast + Debug + Send + Sync + 'static {
    const NAME: &'static str;
    fn from_i(v: i64) -> Self;
    fn nan() -> Option<Self>;
    /// largest / smallest value of the type (+-inf for floats)
    fn top() -> Self;
    fn bottom() -> Self;
    /// third realisation: unit steps on a base so high that neighbouring values are not distinct
    /// as f64 (64-bit integers only)
    fn dense(_v: i64) -> Option<Self> {
        None
    }
}
impl Elem for u64 {
    const NAME: &'static str = "u64";
    fn from_i(v: i64) -> Self {
        ((v + 100_000).max(0) as u64) * 1_000_000_007
    }
    fn nan() -> Option<Self> {
        None
    }
    fn top() -> Self {
        u64::MAX
    }
    fn bottom() -> Self {
        0
    }
    fn dense(v: i64) -> Option<Self> {
        Some((1u64 << 63) + (v + 100_000) as u64)
    }
}
impl Elem for f64 {
    const NAME: &'static str = "f64";
    fn from_i(v: i64) -> Self {
        v as f64 * 0.5
    }
    fn nan() -> Option<Self> {
        Some(f64::NAN)
    }
    fn top() -> Self {
        f64::INFINITY
    }
    fn bottom() -> Self {
        f64::NEG_INFINITY
    }
}
impl Elem for f32 {
    const NAME: &'static str = "f32";
    fn from_i(v: i64) -> Self {
        v as f32 * 0.25
    }
    fn nan() -> Option<Self> {
        Some(f32::NAN)
    }
    fn top() -> Self {
        f32::INFINITY
    }
    fn bottom() -> Self {
        f32::NEG_INFINITY
    }
}
impl Elem for i32 {
    const NAME: &'static str = "i32";
    fn from_i(v: i64) -> Self {
        v as i32 * 3
    }
    fn nan() -> Option<Self> {
        None
    }
    fn top() -> Self {
        i32::MAX
    }
    fn bottom() -> Self {
        i32::MIN
    }
}
impl Elem for i64 {
    const NAME: &'static str = "i64";
    fn from_i(v: i64) -> Self {
        v * 1_000_000_007
    }
    fn nan() -> Option<Self> {
        None
    }
    fn top() -> Self {
        i64::MAX
    }
    fn bottom() -> Self {
        i64::MIN
    }
    fn dense(v: i64) -> Option<Self> {
        Some((1i64 << 60) + v)
    }
}

impl Elem for u32 {
    const NAME: &'static str = "u32";
    fn from_i(v: i64) -> Self {
        ((v + 100_000).clamp(0, 500_000_000) as u32).saturating_mul(7)
    }
    fn nan() -> Option<Self> {
        None
    }
    fn top() -> Self {
        u32::MAX
    }
    fn bottom() -> Self {
        0
    }
}
impl Elem for u8 {
    const NAME: &'static str = "u8";
    fn from_i(v: i64) -> Self {
        (v + 120).clamp(0, 255) as u8
    }
    fn nan() -> Option<Self> {
        None
    }
    fn top() -> Self {
        u8::MAX
    }
    fn bottom() -> Self {
        0
    }
}

fn classify(m: &Monotonic) -> MonoSpec {
    match m {
        Monotonic::Rising { strict: true } => MonoSpec::RisingStrict,
        Monotonic::Rising { strict: false } => MonoSpec::Rising,
        Monotonic::Falling { strict: true } => MonoSpec::FallingStrict,
        Monotonic::Falling { strict: false } => MonoSpec::Falling,
        Monotonic::NotMonotonic => MonoSpec::NotMonotonic,
    }
}

/// call the implementation on the three storage forms of the same logical vector
fn observe<T: Elem>(v: &[T]) -> Vec<(&'static str, Result<MonoSpec, String>)> {
    let n = v.len();
    let owned = Array1::from(v.to_vec());
    let mut res = vec![("contiguous", catch(|| classify(&owned.monotonic_prop())))];
    if n > 0 {
        let mut wide = Array1::from_elem(2 * n + 1, v[0]);
        for i in 0..n {
            wide[2 * i + 1] = v[i];
        }
        // poison the gaps so that a stride bug is visible
        for i in 0..=n {
            wide[2 * i] = T::from_i(if i % 2 == 0 { 1 << 20 } else { -(1 << 20) });
        }
        let strided: ArrayView1<T> = wide.slice(s![1..;2]);
        res.push(("strided", catch(|| classify(&strided.monotonic_prop()))));
        let mut rv = v.to_vec();
        rv.reverse();
        let store = Array1::from(rv);
        let reversed: ArrayView1<T> = store.slice(s![..;-1]);
        res.push(("reversed", catch(|| classify(&reversed.monotonic_prop()))));
    }
    res
}

fn word_to_vec<T: Elem>(rel: &[i8]) -> Vec<T> {
    let mut v = vec![T::from_i(0)];
    let mut acc = 0i64;
    for &r in rel {
        acc += match r {
            -1 => 1,
            0 => 0,
            _ => -1,
        };
        v.push(T::from_i(acc));
    }
    v
}

/// second realisation of the same relation word: every occurrence of the largest value becomes
/// the type's top (+inf / MAX), of the smallest the bottom (-inf / MIN); all relations are kept
fn word_to_vec_extreme<T: Elem>(rel: &[i8]) -> Vec<T> {
    let mut levels = vec![0i64];
    let mut acc = 0i64;
    for &r in rel {
        acc += match r {
            -1 => 1,
            0 => 0,
            _ => -1,
        };
        levels.push(acc);
    }
    let (mx, mn) = (*levels.iter().max().unwrap(), *levels.iter().min().unwrap());
    levels
        .iter()
        .map(|&l| if l == mx && mx != mn { T::top() } else if l == mn && mx != mn { T::bottom() } else if mx == mn { T::top() } else { T::from_i(l) })
        .collect()
}

fn show(rel: &[i8]) -> String {
    rel.iter()
        .map(|r| match r {
            -1 => '<',
            0 => '=',
            _ => '>',
        })
        .collect()
}

fn check_word<T: Elem>(rel: &[i8], out: &mut JobOut, states: &mut BTreeSet<(MonoSpec, MonoSpec, i8)>) {
    check_word_real::<T>(rel, 0, out, states);
    if !rel.is_empty() {
        check_word_real::<T>(rel, 1, out, states);
        if T::dense(0).is_some() {
            check_word_real::<T>(rel, 2, out, states);
        }
    }
}

/// unit steps on the type's high base
fn word_to_vec_dense<T: Elem>(rel: &[i8]) -> Vec<T> {
    let mut v = vec![T::dense(0).unwrap()];
    let mut acc = 0i64;
    for &r in rel {
        acc += match r {
            -1 => 1,
            0 => 0,
            _ => -1,
        };
        v.push(T::dense(acc).unwrap());
    }
    v
}

fn check_word_real<T: Elem>(rel: &[i8], mode: u8, out: &mut JobOut, states: &mut BTreeSet<(MonoSpec, MonoSpec, i8)>) {
    let extreme = mode == 1;
    let v: Vec<T> = match mode {
        1 => word_to_vec_extreme(rel),
        2 => word_to_vec_dense(rel),
        _ => word_to_vec(rel),
    };
    let want = mono_spec(rel);
    for (form, got) in observe(&v) {
        let form = if extreme { format!("{form}/extreme-values") } else if mode == 2 { format!("{form}/unit-steps-beyond-2^53") } else { form.to_string() };
        let form = form.as_str();
        out.evals += 1;
        out.transitions += rel.len() as u64;
        match got {
            Ok(g) => {
                states.insert((g, want, rel.last().copied().unwrap_or(9)));
                if g != want {
                    out.violate(
                        format!("{}:{form}:{}", T::NAME, show(rel)),
                        format!("relations '{}' ({} elements, {form}): classified {g:?}, specification says {want:?}", show(rel), v.len()),
                        Json::obj(vec![
                            ("type", Json::str(T::NAME)),
                            ("relations", Json::str(&show(rel))),
                            ("storage", Json::str(form)),
                            ("vector", Json::str(&format!("{:?}{}", &v[..v.len().min(40)], if v.len() > 40 { " .." } else { "" }))),
                            ("expected", Json::str(&format!("{want:?}"))),
                            ("observed", Json::str(&format!("{g:?}"))),
                        ]),
                    );
                }
            }
            Err(p) => out.violate(
                format!("{}:{form}:{}", T::NAME, show(rel)),
                format!("relations '{}': monotonic_prop panicked: {p}", show(rel)),
                Json::Null,
            ),
        }
    }
    if want != MonoSpec::NotMonotonic || rel.len() >= 2 {
        out.nontrivial += 1;
    }
}

/// all words of exactly length `len` with the given first two letters (a job = one prefix)
fn for_words(len: usize, prefix: &[i8], mut f: impl FnMut(&[i8])) {
    let free = len - prefix.len();
    let mut w: Vec<i8> = prefix.to_vec();
    w.extend(std::iter::repeat_n(-1i8, free));
    let mut idx = vec![0usize; free];
    loop {
        for (i, &d) in idx.iter().enumerate() {
            w[prefix.len() + i] = [-1, 0, 1][d];
        }
        f(&w);
        let mut p = free;
        loop {
            if p == 0 {
                return;
            }
            p -= 1;
            idx[p] += 1;
            if idx[p] < 3 {
                break;
            }
            idx[p] = 0;
        }
    }
}

#[derive(Clone)]
enum Job {
    /// all words of this length starting with this prefix
    Words { len: usize, prefix: Vec<i8> },
    /// words of length <= 7 with this prefix x every non-empty NaN mask
    Nan { len: usize, prefix: Vec<i8> },
    /// long words: base letter, length, <= 2 deviations, and NaN at every position
    Long { len: usize, base: i8 },
    /// run-structured words of this length: every word of two runs (boundary anywhere) and of three
    /// runs (all boundaries when `all3`, else first or last run <= 40 and the other boundary anywhere
    /// near a multiple of 32 or the ends)
    Runs { len: usize, all3: bool },
}

impl Job {
    fn key(&self) -> String {
        match self {
            Job::Words { len, prefix } => format!("words:len{len}:{}", show(prefix)),
            Job::Nan { len, prefix } => format!("nan:len{len}:{}", show(prefix)),
            Job::Long { len, base } => format!("long:len{len}:{}", show(&[*base])),
            Job::Runs { len, all3 } => format!("runs:len{len}:{}", if *all3 { "all" } else { "selected" }),
        }
    }
}

fn nan_check<T: Elem>(rel: &[i8], out: &mut JobOut) {
    let Some(nan) = T::nan() else { return };
    let base: Vec<T> = word_to_vec(rel);
    let n = base.len();
    for mask in 1u32..(1u32 << n) {
        let v: Vec<T> = (0..n).map(|i| if mask >> i & 1 == 1 { nan } else { base[i] }).collect();
        for (form, got) in observe(&v) {
            out.evals += 1;
            out.nontrivial += 1;
            let bad = match &got {
                Ok(MonoSpec::RisingStrict) | Ok(MonoSpec::Rising) => Some(format!("{:?}", got.as_ref().unwrap())),
                Ok(_) => None,
                Err(p) => Some(format!("panic: {p}")),
            };
            if let Ok(g) = &got {
                out.outcome(format!("nan:{g:?}"));
            }
            if let Some(b) = bad {
                out.violate(
                    format!("{}:{form}:nan:{}:{mask:#x}", T::NAME, show(rel)),
                    format!("a vector containing NaN was classified {b}: {v:?} ({form})"),
                    Json::obj(vec![("type", Json::str(T::NAME)), ("vector", Json::str(&format!("{v:?}"))), ("storage", Json::str(form))]),
                );
            }
        }
    }
}

fn long_check<T: Elem>(len: usize, base: i8, out: &mut JobOut, states: &mut BTreeSet<(MonoSpec, MonoSpec, i8)>) {
    let letters = [-1i8, 0, 1];
    let w0 = vec![base; len];
    check_word::<T>(&w0, out, states);
    for p in 0..len {
        for &a in &letters {
            if a == base {
                continue;
            }
            let mut w = w0.clone();
            w[p] = a;
            check_word::<T>(&w, out, states);
            // second deviation only next to block boundaries and neighbours, and at the ends
            for q in p + 1..len {
                let interesting = q == p + 1 || q == len - 1 || q % 8 == 0 || q % 8 == 7;
                if !interesting {
                    continue;
                }
                for &b in &letters {
                    if b == base {
                        continue;
                    }
                    let mut w2 = w.clone();
                    w2[q] = b;
                    check_word::<T>(&w2, out, states);
                }
            }
        }
    }
    // NaN at every single position of the long rising / falling vector
    if let Some(nan) = T::nan() {
        let basev: Vec<T> = word_to_vec(&w0);
        for p in 0..basev.len() {
            let mut v = basev.clone();
            v[p] = nan;
            for (form, got) in observe(&v) {
                out.evals += 1;
                out.nontrivial += 1;
                let bad = match &got {
                    Ok(MonoSpec::RisingStrict) | Ok(MonoSpec::Rising) => true,
                    Ok(_) => false,
                    Err(_) => true,
                };
                if bad {
                    out.violate(
                        format!("{}:{form}:longnan:len{len}:{}@{p}", T::NAME, show(&[base])),
                        format!("vector of {} elements with NaN at index {p} was classified {got:?} ({form})", basev.len()),
                        Json::obj(vec![("type", Json::str(T::NAME)), ("len", Json::Int(basev.len() as i128)), ("nan_index", Json::Int(p as i128)), ("base_relation", Json::str(&show(&[base])))]),
                    );
                }
            }
        }
    }
}

fn runs_check<T: Elem>(len: usize, all3: bool, out: &mut JobOut, states: &mut BTreeSet<(MonoSpec, MonoSpec, i8)>) {
    let letters = [-1i8, 0, 1];
    let mut w = vec![0i8; len];
    // two runs
    for &a in &letters {
        for &b in &letters {
            if a == b {
                continue;
            }
            for i in 1..len {
                w[..i].fill(a);
                w[i..].fill(b);
                check_word_real::<T>(&w, 0, out, states);
            }
        }
    }
    // three runs
    let near = |p: usize| p % 32 <= 1 || p % 32 == 31 || p <= 40 || p + 40 >= len;
    for &a in &letters {
        for &b in &letters {
            for &c in &letters {
                if a == b || b == c {
                    continue;
                }
                for i in 1..len {
                    for j in i + 1..len {
                        if !all3 {
                            let short_first = i <= 40;
                            let short_last = len - j <= 40;
                            if !((short_first && near(j)) || (short_last && near(i))) {
                                continue;
                            }
                        }
                        w[..i].fill(a);
                        w[i..j].fill(b);
                        w[j..].fill(c);
                        check_word_real::<T>(&w, 0, out, states);
                    }
                }
            }
        }
    }
}

fn body(ctx: &Ctx) -> (Summary, Meta) {
    let quick = ctx.quick();
    let maxlen = if quick { 12 } else { 14 };
    let mut jobs = vec![Job::Words { len: 0, prefix: vec![] }, Job::Words { len: 1, prefix: vec![] }];
    for len in 2..=maxlen {
        for a in [-1i8, 0, 1] {
            for b in [-1i8, 0, 1] {
                jobs.push(Job::Words { len, prefix: vec![a, b] });
            }
        }
    }
    let nanmax = if quick { 7 } else { 8 };
    for len in 0..=nanmax {
        if len < 2 {
            jobs.push(Job::Nan { len, prefix: vec![] });
        } else {
            for a in [-1i8, 0, 1] {
                for b in [-1i8, 0, 1] {
                    jobs.push(Job::Nan { len, prefix: vec![a, b] });
                }
            }
        }
    }
    let longs: Vec<usize> = if quick {
        vec![15, 16, 17, 31, 32, 33, 63, 64, 65, 100, 127, 128, 129, 200, 256, 257]
    } else {
        let mut v: Vec<usize> = (14..=130).collect();
        v.extend([191, 192, 193, 200, 255, 256, 257, 300, 511, 512, 513, 1023, 1024, 1025]);
        v
    };
    for &len in &longs {
        for base in [-1i8, 0, 1] {
            jobs.push(Job::Long { len, base });
        }
    }
    let runs_short: Vec<usize> = if quick { vec![20, 33, 64, 65] } else { (14..=80).collect() };
    for &len in &runs_short {
        jobs.push(Job::Runs { len, all3: true });
    }
    let runs_long: Vec<usize> = if quick { vec![129, 1023, 1039] } else { vec![129, 200, 257, 1022, 1023, 1024, 1039, 1055, 2047, 2080] };
    for &len in &runs_long {
        jobs.push(Job::Runs { len, all3: false });
    }
    let all_states = std::sync::Mutex::new(BTreeSet::new());
    let mut sum = run_jobs(ctx, "monotonic", &jobs, |j| j.key(), |j| {
        let mut out = JobOut::default();
        let mut st = BTreeSet::new();
        match j {
            Job::Words { len, prefix } => {
                for_words(*len, prefix, |w| {
                    check_word::<f64>(w, &mut out, &mut st);
                    check_word::<f32>(w, &mut out, &mut st);
                    check_word::<i32>(w, &mut out, &mut st);
                    check_word::<i64>(w, &mut out, &mut st);
                    check_word::<u32>(w, &mut out, &mut st);
                    check_word::<u8>(w, &mut out, &mut st);
                    check_word::<u64>(w, &mut out, &mut st);
                });
                if *len == 0 {
                    // the empty vector
                    for (form, got) in observe::<f64>(&[]) {
                        out.evals += 1;
                        if got != Ok(MonoSpec::NotMonotonic) {
                            out.violate(format!("f64:{form}:empty"), format!("empty vector classified {got:?}"), Json::Null);
                        }
                    }
                }
            }
            Job::Nan { len, prefix } => {
                for_words(*len, prefix, |w| {
                    nan_check::<f64>(w, &mut out);
                    nan_check::<f32>(w, &mut out);
                });
            }
            Job::Long { len, base } => {
                long_check::<f64>(*len, *base, &mut out, &mut st);
                long_check::<i32>(*len, *base, &mut out, &mut st);
                long_check::<u32>(*len, *base, &mut out, &mut st);
            }
            Job::Runs { len, all3 } => {
                runs_check::<f64>(*len, *all3, &mut out, &mut st);
                if *len <= 300 {
                    runs_check::<i64>(*len, *all3, &mut out, &mut st);
                }
            }
        }
        if out.sample.is_none() {
            out.sample = Some(Json::str(&j.key()));
        }
        all_states.lock().unwrap().extend(st);
        out
    });
    sum.merge(run_jobs(ctx, "float-progressions", &[()], |_| "progressions".to_string(), |_| {
        let mut out = JobOut::default();
        let mut st = BTreeSet::new();
        progressions_f32(&mut out, &mut st);
        progressions_f64(&mut out, &mut st);
        all_states.lock().unwrap().extend(st);
        out.sample = Some(Json::str("f32: 2^24 - k + i * step; f64: 2^53 - k + i * step"));
        out
    }));
    sum.merge(run_jobs(ctx, "builder-validation", &[2usize, 3, 4, 5][..if quick { 3 } else { 4 }], |l| format!("builder:len{l}"), |&l| {
        let mut out = JobOut::default();
        builder_phase(l, &mut out);
        if out.sample.is_none() {
            out.sample = Some(Json::str(&format!("builder-validation, relation words of length {l} x every NaN mask")));
        }
        out
    }));
    let st = all_states.into_inner().unwrap();
    sum.total.states = st.len() as u64;
    for (g, w, _) in &st {
        sum.total.outcome(format!("impl={g:?},spec={w:?}"));
    }
    let meta = Meta {
        rule: "every relation word over {<,=,>} up to the length bound, realised as prefix sums for f64/f32/i32/i64/u32/u8/u64 (i64, u64 also with unit steps on a base beyond 2^53), each as contiguous array, every-2nd-element view of a poisoned array and reversed view; every non-empty NaN mask on every word up to the NaN bound (f64, f32); long words (one base relation + <= 2 deviations; NaN at every position); run-structured words (every word of 2 runs, and of 3 runs with all / selected boundaries) up to length 2080; every word also realised with the type's extreme values (+-inf, MIN/MAX) in place of its largest and smallest level. Oracle: classifier written from the statement (counts of <,=,>); NaN: never Rising. states = distinct (implementation result, spec class, last relation) triples reached = reachable states of the product of the implementation automaton and the spec automaton. Non-trivial = word of length >= 2 or NaN vector. Phase float-progressions: x_i = fl(b + i*step) for b = 2^24 - k (f32) / 2^53 - k (f64), k < 8, step in {1/2,1,2,3}, 3..12 members, both signs - progressions that cross the power of two where the float spacing doubles; relations read off the actual values. Phase builder-validation: every relation word of length 2..4 (5) x every NaN mask handed to Interp1DBuilder.x (with Linear, Linear+extrapolate and four CubicSpline configurations incl. Periodic), Interp2DBuilder.x / .y on square grids and on non-square grids whose other (valid, explicit) axis has 2 or len+3 knots, and as the y (x) axis of a grid whose other axis is a valid view into the same allocation starting at the same element (row / column of one table, stride-0 broadcast): accepted iff strictly rising.".into(),
        bounds: format!("relation words of length 0..{maxlen} (exhaustive: {} words); NaN masks on words of length <= {nanmax}; long words of lengths {:?}{}", (0..=maxlen).map(|l| 3u64.pow(l as u32)).sum::<u64>(), if quick { longs.clone() } else { vec![14, 130] }, if quick { "" } else { " (every length in the closed interval)" }),
        assumptions: vec![],
        extra: vec![("product_states".into(), Json::Arr(st.iter().map(|(g, w, l)| Json::str(&format!("{g:?}/{w:?}/{l}"))).collect()))],
    };
    (sum, meta)
}

/// Arithmetic progressions computed in floating point, x_i = fl(b + i * step), across a power of two
/// where the spacing of the type doubles: neighbouring members round onto the same value or keep
/// their order depending on the exact position. The relation word is read off the actual values.
macro_rules! progressions {
    ($name:ident, $t:ty, $p:expr) => {
        fn $name(out: &mut JobOut, states: &mut BTreeSet<(MonoSpec, MonoSpec, i8)>) {
            let top = (2.0 as $t).powi($p);
            for k in 0..8 {
                for step in [1.0 as $t, 2.0, 3.0, 0.5] {
                    for n in 3..=12usize {
                        for sign in [1.0 as $t, -1.0] {
                            let b = top - k as $t;
                            let v: Vec<$t> = (0..n).map(|i| sign * (b + i as $t * step)).collect();
                            let rel: Vec<i8> = v.windows(2).map(|w| if w[0] < w[1] { -1 } else if w[0] == w[1] { 0 } else { 1 }).collect();
                            let want = mono_spec(&rel);
                            for (form, got) in observe(&v) {
                                out.evals += 1;
                                out.transitions += rel.len() as u64;
                                out.nontrivial += 1;
                                match got {
                                    Ok(g) => {
                                        states.insert((g, want, rel.last().copied().unwrap_or(9)));
                                        if g != want {
                                            out.violate(
                                                format!("{}:progression:2^{}-{k}:step{step}:n{n}:{sign}:{form}", stringify!($t), $p),
                                                format!("{} progression {sign} * (2^{} - {k} + i * {step}), i < {n} = {v:?} (relations '{}', {form}): classified {g:?}, specification says {want:?}", stringify!($t), $p, show(&rel)),
                                                Json::str(&format!("{v:?}")),
                                            );
                                        }
                                    }
                                    Err(p) => out.violate(format!("{}:progression:2^{}-{k}:step{step}:n{n}:{sign}:{form}", stringify!($t), $p), format!("monotonic_prop panicked: {p}"), Json::Null),
                                }
                            }
                        }
                    }
                }
            }
        }
    };
}
progressions!(progressions_f32, f32, 24);
progressions!(progressions_f64, f64, 53);

/// "such an axis can never pass builder validation": every short vector (relation words x NaN masks)
/// handed to the builders as an axis - directly, and as the y axis of a grid whose x axis is a valid
/// view into the same allocation starting at the same element (row / column of one table; a
/// stride-0 broadcast) - is accepted iff it is strictly rising.
fn builder_phase(len: usize, out: &mut JobOut) {
    use ndarray::Array2;
    use ndarray_interp::interp1d::Interp1DBuilder;
    use ndarray_interp::interp2d::Interp2DBuilder;
    let m = len + 1;
    let mut words: Vec<Vec<i8>> = vec![vec![]];
    for _ in 0..len {
        words = words.iter().flat_map(|w| [-1i8, 0, 1].iter().map(move |r| { let mut v = w.clone(); v.push(*r); v })).collect();
    }
    for w in &words {
        let mut base = vec![0.0f64];
        for r in w {
            base.push(base[base.len() - 1] + *r as f64);
        }
        for mask in 0u32..(1 << m) {
            let v: Vec<f64> = base.iter().enumerate().map(|(i, &b)| if mask >> i & 1 == 1 { f64::NAN } else { b }).collect();
            let rising = v.windows(2).all(|p| p[0] < p[1]);
            let name = format!("{w:?}/nan{mask:b}").replace(' ', "");
            let mut judge = |form: &str, r: Result<Result<(), ndarray_interp::BuilderError>, String>, want_ok: bool, out: &mut JobOut| {
                out.evals += 1;
                out.transitions += 1;
                if !rising {
                    out.nontrivial += 1;
                }
                let got_ok = matches!(r, Ok(Ok(())));
                out.outcome(format!("builder:{}", if got_ok { "accepted" } else { "rejected" }));
                if got_ok != want_ok || r.is_err() {
                    out.violate(
                        format!("builder:{form}:{name}"),
                        format!("{form}: axis {v:?} (strictly rising: {rising}) was {}", match &r { Ok(Ok(())) => "accepted".to_string(), Ok(Err(e)) => format!("rejected: {e}"), Err(p) => format!("answered with a panic: {p}") }),
                        Json::f64s(&v),
                    );
                }
            };
            let va = Array1::from(v.clone());
            let d1 = Array1::<f64>::zeros(m);
            judge("Interp1D.x", catch(|| Interp1DBuilder::new(d1.view()).x(va.view()).build().map(|_| ())), rising, out);
            if m >= 3 {
                use ndarray_interp::interp1d::cubic_spline::{BoundaryCondition, CubicSpline};
                judge("Interp1D.x/CubicSpline", catch(|| Interp1DBuilder::new(d1.view()).x(va.view()).strategy(CubicSpline::new()).build().map(|_| ())), rising && m >= 3, out);
                judge("Interp1D.x/CubicSpline/Natural+extrapolate", catch(|| Interp1DBuilder::new(d1.view()).x(va.view()).strategy(CubicSpline::new().extrapolate(true).boundary(BoundaryCondition::Natural)).build().map(|_| ())), rising, out);
                judge("Interp1D.x/CubicSpline/Periodic", catch(|| Interp1DBuilder::new(d1.view()).x(va.view()).strategy(CubicSpline::new().boundary(BoundaryCondition::Periodic)).build().map(|_| ())), rising, out);
                judge("Interp1D.x/CubicSpline/Periodic+extrapolate", catch(|| Interp1DBuilder::new(d1.view()).x(va.view()).strategy(CubicSpline::new().extrapolate(true).boundary(BoundaryCondition::Periodic)).build().map(|_| ())), rising, out);
            }
            judge("Interp1D.x/Linear+extrapolate", catch(|| Interp1DBuilder::new(d1.view()).x(va.view()).strategy(ndarray_interp::interp1d::Linear::new().extrapolate(true)).build().map(|_| ())), rising, out);
            let d2 = Array2::<f64>::zeros((m, m));
            judge("Interp2D.x", catch(|| Interp2DBuilder::new(d2.view()).x(va.view()).build().map(|_| ())), rising, out);
            judge("Interp2D.y", catch(|| Interp2DBuilder::new(d2.view()).y(va.view()).build().map(|_| ())), rising, out);
            // non-square grids: the other axis (explicit, valid) is shorter / longer than v
            for other in [2usize, m + 3] {
                let o = Array1::from((0..other).map(|i| i as f64 * 0.5 - 1.0).collect::<Vec<_>>());
                let (dxo, dox) = (Array2::<f64>::zeros((m, other)), Array2::<f64>::zeros((other, m)));
                judge(if other == 2 { "Interp2D(x = v, y of 2 knots)" } else { "Interp2D(x = v, y of len+3 knots)" }, catch(|| Interp2DBuilder::new(dxo.view()).x(va.view()).y(o.view()).build().map(|_| ())), rising, out);
                judge(if other == 2 { "Interp2D(x of 2 knots, y = v)" } else { "Interp2D(x of len+3 knots, y = v)" }, catch(|| Interp2DBuilder::new(dox.view()).x(o.view()).y(va.view()).build().map(|_| ())), rising, out);
            }
            // x = column 0 (valid unless v[0] is NaN), y = row 0 = v of one table
            let mut table = Array2::<f64>::from_elem((m, m), 9.0);
            for i in 0..m {
                table[[i, 0]] = v[0] + i as f64;
                table[[0, i]] = v[i];
            }
            let x_ok = !v[0].is_nan();
            judge("Interp2D(x = table.column(0), y = table.row(0))", catch(|| Interp2DBuilder::new(d2.view()).x(table.column(0)).y(table.row(0)).build().map(|_| ())), rising && x_ok, out);
            judge("Interp2D(x = table.row(0), y = table.column(0))", catch(|| Interp2DBuilder::new(d2.view()).x(table.row(0)).y(table.column(0)).build().map(|_| ())), rising && x_ok, out);
        }
    }
    // y is a stride-0 broadcast of the first element of a valid x
    let x = Array1::from((0..m).map(|i| i as f64).collect::<Vec<_>>());
    let d2 = ndarray::Array2::<f64>::zeros((m, m));
    let y = x.slice(s![..1]);
    let y = y.broadcast(m).unwrap();
    let r = catch(|| ndarray_interp::interp2d::Interp2DBuilder::new(d2.view()).x(x.view()).y(y).build().map(|_| ()));
    out.evals += 1;
    out.nontrivial += 1;
    if matches!(r, Ok(Ok(()))) || r.is_err() {
        out.violate(format!("builder:broadcast:m{m}"), format!("Interp2D(x = 0..{m}, y = stride-0 broadcast of x[0]): a constant y axis was {r:?}"), Json::Null);
    }
}

fn main() {
    main_with("C12", body)
}
