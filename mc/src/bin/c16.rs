//! C16 - polynomials of the strategy's degree are reproduced exactly.
use ndarray::{Array2, Array3};
use nimc::alpha::{self, Axis};
use nimc::fl::{vec_exact, Fl};
use nimc::rat::Rat;
use nimc::refm::{err_dd, rat_to_dd, End};
use nimc::spl::k_for;
use nimc::subj::{build_bilinear, build_linear, build_spline, call1d, call2d, BcSpec};
use nimc::{catch, main_with, run_jobs, try_exact, Ctx, JobOut, Json, Meta, Summary};

const COEF: [f64; 4] = [-1.0, 0.0, 0.5, 2.0];

#[derive(Clone, Copy, Debug)]
struct Poly([f64; 4]); // c0 + c1 x + c2 x^2 + c3 x^3

thread_local! {
    /// the polynomials of the current job are polynomials in (x - CENTER): on an axis far from the
    /// origin the data stay small and exact (a job runs on one thread from start to end)
    static CENTER: std::cell::Cell<f64> = const { std::cell::Cell::new(0.0) };
}

impl Poly {
    fn all(max_deg: usize) -> Vec<Poly> {
        let mut v = vec![];
        for a in COEF {
            for b in COEF {
                for c in COEF {
                    for d in COEF {
                        let p = Poly([a, b, c, d]);
                        if p.degree() <= max_deg {
                            v.push(p);
                        }
                    }
                }
            }
        }
        v
    }
    fn degree(&self) -> usize {
        (0..4).rev().find(|&i| self.0[i] != 0.0).unwrap_or(0)
    }
    fn at(&self, x: Rat) -> Rat {
        let x = x - Rat::from_f64(CENTER.with(|c| c.get()));
        let c: Vec<Rat> = self.0.iter().map(|&v| Rat::from_f64(v)).collect();
        c[0] + x * (c[1] + x * (c[2] + x * c[3]))
    }
    fn d1(&self, x: Rat) -> Rat {
        let x = x - Rat::from_f64(CENTER.with(|c| c.get()));
        let c: Vec<Rat> = self.0.iter().map(|&v| Rat::from_f64(v)).collect();
        c[1] + x * (Rat::int(2) * c[2] + x * Rat::int(3) * c[3])
    }
    fn d2(&self, x: Rat) -> Rat {
        let x = x - Rat::from_f64(CENTER.with(|c| c.get()));
        let c: Vec<Rat> = self.0.iter().map(|&v| Rat::from_f64(v)).collect();
        Rat::int(2) * c[2] + x * Rat::int(6) * c[3]
    }
    fn name(&self) -> String {
        format!("{:?}", self.0).replace(' ', "")
    }
}

fn exact_f64(r: Rat) -> Option<f64> {
    let f = r.to_f64();
    if f.is_finite() && Rat::try_from_f64(f) == Some(r) {
        Some(f)
    } else {
        None
    }
}

#[derive(Clone)]
enum Kind {
    Spline,
    Linear,
    Bilinear(Axis),
}

#[derive(Clone)]
struct Job {
    ax: Axis,
    kind: Kind,
    f32: bool,
    /// the polynomials are polynomials in (x - center)
    center: f64,
}
impl Job {
    fn key(&self) -> String {
        let t = if self.f32 { "f32" } else { "f64" };
        match &self.kind {
            Kind::Spline => format!("{t}:Spline:{}", self.ax.name),
            Kind::Linear => format!("{t}:Linear:{}", self.ax.name),
            Kind::Bilinear(ay) => format!("{t}:Bilinear:{}x{}", self.ax.name, ay.name),
        }
    }
}

/// in-range grid + outside queries (as f64, exact)
fn queries(x: &[f64]) -> (Vec<f64>, usize) {
    let mut q = alpha::grid_queries(x, 4);
    let nin = q.len();
    let p = x[x.len() - 1] - x[0];
    q.extend([x[0] - p * 0.25, x[0] - p, x[x.len() - 1] + p * 0.25, x[x.len() - 1] + 3.0 * p]);
    (q, nin)
}

struct LaneSpec {
    p: Poly,
    l: End,
    r: End,
}

fn spline_lanes<T: Fl>(x: &[f64]) -> Vec<LaneSpec> {
    let n = x.len();
    let (x0, xn) = (Rat::from_f64(x[0]), Rat::from_f64(x[n - 1]));
    let mut v = vec![];
    // the very first lane holds values near 2^41 (if representable): the other lanes must not notice
    let big = Poly([2.0f64.powi(41), -1.0, 0.5, 2.0]);
    // ... nor may two small, fine-grained signals (bits far below the ulp of 2^41)
    let fine = [Poly([1.0 / 1024.0, 0.5 / 1024.0, -0.125 / 1024.0, 1.0 / 65536.0]), Poly([-2.0 / 8192.0, 0.75 / 8192.0, 0.0, 0.0])];
    // per interval [u, v]: the cubic (x-m)^3 - a^2 (x-m) (m the midpoint, a the half width) has equal
    // values *and* equal slopes at u and v although it is not flat in between
    let c = CENTER.with(|c| c.get());
    let sym: Vec<Poly> = x
        .windows(2)
        .map(|w| {
            let (m, a) = ((w[0] + w[1]) / 2.0 - c, (w[1] - w[0]) / 2.0);
            Poly([-m * m * m + a * a * m, 3.0 * m * m - a * a, -3.0 * m, 1.0])
        })
        .collect();
    for p in std::iter::once(big).chain(fine).chain(sym).chain(Poly::all(3)) {
        // the data must be exactly representable
        let ys: Option<Vec<T>> = x
            .iter()
            .map(|&xi| try_exact(|| p.at(Rat::from_f64(xi))).and_then(exact_f64).and_then(T::from_f64_exact))
            .collect();
        if ys.is_none() {
            continue;
        }
        let opts = |e: Rat| -> Vec<End> {
            let mut o = vec![];
            // NotAKnot: a cubic is reproduced when n >= 4 (n = 3: both ends -> parabola, handled below)
            if n >= 4 {
                o.push(End::NotAKnot);
            }
            if let Some(v) = exact_f64(p.d1(e)).filter(|v| T::from_f64_exact(*v).is_some()) {
                o.push(End::First(v));
                if v == 0.0 {
                    o.push(End::Clamped);
                }
            }
            if let Some(v) = exact_f64(p.d2(e)).filter(|v| T::from_f64_exact(*v).is_some()) {
                o.push(End::Second(v));
                if v == 0.0 {
                    o.push(End::Natural);
                }
            }
            o
        };
        let (lo, ro) = (opts(x0), opts(xn));
        for &l in &lo {
            for &r in &ro {
                v.push(LaneSpec { p, l, r });
            }
        }
        if n == 3 {
            // one not-a-knot end + one derivative end determines the cubic as well
            for &r in &ro {
                v.push(LaneSpec { p, l: End::NotAKnot, r });
            }
            for &l in &lo {
                v.push(LaneSpec { p, l, r: End::NotAKnot });
            }
            if p.degree() <= 2 {
                v.push(LaneSpec { p, l: End::NotAKnot, r: End::NotAKnot });
            }
        }
    }
    v
}

fn poly_ref(p: &Poly, q: f64) -> nimc::dd::DD {
    let r = try_exact(|| p.at(Rat::from_f64(q))).expect("polynomial value in range");
    rat_to_dd(r)
}

fn run_spline<T: Fl>(job: &Job, out: &mut JobOut) {
    let x = &job.ax.x;
    let n = x.len();
    let Some(xt) = vec_exact::<T>(x) else {
        return;
    };
    let key = job.key();
    let lanes = spline_lanes::<T>(x);
    if lanes.is_empty() {
        return;
    }
    let (q64, nin) = queries(x);
    let Some(qt) = vec_exact::<T>(&q64) else {
        return;
    };
    let kk = k_for(&job.ax);
    let case = |extra: Vec<(&str, Json)>| {
        let mut v = vec![("type", Json::str(T::NAME)), ("x", Json::f64s(x))];
        v.extend(extra);
        Json::obj(v)
    };
    // three builds: (1) Individual with one valid pair per lane (all valid pairs of all polynomials),
    // (2) whole-data-set NotAKnot, (3) row-level NotAKnot; (2),(3) on one lane per polynomial
    let mut builds: Vec<(String, BcSpec, Vec<usize>)> = vec![(
        "individual".into(),
        BcSpec::Lanes(lanes.iter().map(|l| (l.l, l.r)).collect()),
        (0..lanes.len()).collect(),
    )];
    let mut firsts: Vec<usize> = vec![];
    for (i, l) in lanes.iter().enumerate() {
        let ok = if n >= 4 { true } else { l.p.degree() <= 2 };
        if ok && (i == 0 || lanes[i - 1].p.name() != l.p.name()) {
            firsts.push(i);
        }
    }
    if !firsts.is_empty() {
        builds.push(("top-NotAKnot(default)".into(), BcSpec::TopNotAKnot, firsts.clone()));
        builds.push(("row-NotAKnot".into(), BcSpec::RowAll(End::NotAKnot), firsts.clone()));
    }
    // straight lines with Natural (whole data set)
    let lines: Vec<usize> = firsts.iter().cloned().filter(|&i| lanes[i].p.degree() <= 1).collect();
    if !lines.is_empty() {
        builds.push(("top-Natural(lines)".into(), BcSpec::TopNatural, lines));
    }
    for (bname, spec, sel) in builds {
        let data = Array2::from_shape_fn((n, sel.len()), |(i, j)| {
            T::from_f64_exact(exact_f64(lanes[sel[j]].p.at(Rat::from_f64(x[i]))).unwrap()).unwrap()
        });
        let ip = match catch(|| build_spline::<T, _>(&xt, data, &spec, true)) {
            Ok(Ok(i)) => i,
            other => {
                out.violate(format!("{key}:{bname}:build"), format!("build failed: {:?}", other.map(|r| r.map(|_| ()))), case(vec![]));
                continue;
            }
        };
        out.states += 1;
        for (call, sh) in [("interp_array/static", vec![qt.len()]), ("interp_array/dyn", vec![qt.len() / 2, 2])] {
            if sh.iter().product::<usize>() != qt.len() {
                continue;
            }
            out.transitions += 1;
            let res = match call1d(&ip, &qt, &sh, sel.len(), call) {
                Ok(r) => r,
                Err(f) => {
                    out.violate(format!("{key}:{bname}:{call}"), format!("evaluation failed: {}", f.text()), case(vec![]));
                    continue;
                }
            };
            let viol_before = out.viol.len();
            let mut reported = false;
            for (j, &li) in sel.iter().enumerate() {
                let l = &lanes[li];
                // scale: max |y_i|, |h_i p'(x_i)|
                let mut scale = 0.0f64;
                for i in 0..n {
                    let xi = Rat::from_f64(x[i]);
                    scale = scale.max(l.p.at(xi).to_f64().abs());
                    let h = if i + 1 < n { x[i + 1] - x[i] } else { x[i] - x[i - 1] };
                    scale = scale.max((l.p.d1(xi).to_f64() * h).abs());
                }
                for (qi, &q) in q64.iter().enumerate() {
                    let exact = poly_ref(&l.p, q);
                    let outside = qi >= nin;
                    let t = if outside {
                        let i = nimc::refm::bracket_scan(x, q);
                        ((q - x[i]) / (x[i + 1] - x[i])).abs().max(1.0)
                    } else {
                        1.0
                    };
                    // outside the range the end cubic's coefficient errors are amplified by t^3 and by the
                    // conditioning of the end condition: 16x head-room (measured worst: 0.59 K)
                    let tol = if outside { 16.0 } else { 1.0 } * kk * T::EPS * scale.max(exact.to_f64().abs()) * t * t * t;
                    let got = Fl::to_f64(res[[qi, j]]);
                    let err = err_dd(got, exact);
                    out.evals += 1;
                    if l.p.degree() >= 2 {
                        out.nontrivial += 1;
                    }
                    if tol > 0.0 {
                        out.maximum(
                            &format!("err_over_tol({},K={kk},{})", T::NAME, if outside { "outside" } else { "inside" }),
                            err / tol,
                        );
                    }
                    if !(err <= tol) && !reported {
                        reported = true;
                        let bcname = if bname == "individual" { format!("{}|{}", l.l.name(), l.r.name()) } else { bname.clone() };
                        out.violate(
                            format!("{key}:{bname}:{call}:{}:{}", l.p.name(), bcname),
                            format!(
                                "polynomial {} with boundary {bcname} is not reproduced at q={q}: got {got:e}, exact {:e} (err {err:e}, tol {tol:e})",
                                l.p.name(),
                                exact.to_f64()
                            ),
                            case(vec![
                                ("coefficients_c0_c3", Json::f64s(&l.p.0)),
                                ("boundary", Json::str(&bcname)),
                                ("build", Json::str(&bname)),
                                ("lane_index", Json::Int(j as i128)),
                                ("lanes_in_build", Json::Int(sel.len() as i128)),
                                ("query", Json::Num(q)),
                                ("expected", Json::Num(exact.to_f64())),
                                ("observed", Json::Num(got)),
                            ]),
                        );
                    }
                }
            }
            out.outcome(format!("spline/{}:{}", bname.split('(').next().unwrap_or(""), if out.viol.len() == viol_before { "every polynomial reproduced" } else { "a polynomial not reproduced" }));
        }
    }
    if out.sample.is_none() {
        out.sample = Some(case(vec![
            ("lanes_polynomial_x_valid_boundary_pair", Json::Int(lanes.len() as i128)),
            ("example_lane", Json::str(&format!("{} {}|{}", lanes[lanes.len() / 2].p.name(), lanes[lanes.len() / 2].l.name(), lanes[lanes.len() / 2].r.name()))),
            ("queries", Json::f64s(&q64)),
        ]));
    }
}

fn run_linear<T: Fl>(job: &Job, out: &mut JobOut) {
    let x = &job.ax.x;
    let n = x.len();
    let Some(xt) = vec_exact::<T>(x) else {
        return;
    };
    let key = job.key();
    let polys: Vec<Poly> = Poly::all(1)
        .into_iter()
        .filter(|p| x.iter().all(|&xi| exact_f64(p.at(Rat::from_f64(xi))).and_then(T::from_f64_exact).is_some()))
        .collect();
    if polys.is_empty() {
        return;
    }
    let (q64, nin) = queries(x);
    let Some(qt) = vec_exact::<T>(&q64) else {
        return;
    };
    let data = Array2::from_shape_fn((n, polys.len()), |(i, j)| T::from_f64_exact(polys[j].at(Rat::from_f64(x[i])).to_f64()).unwrap());
    let Ok(Ok(ip)) = catch(|| build_linear::<T, _>(Some(&xt), data, true)) else {
        out.violate(format!("{key}:build"), "build failed", Json::Null);
        return;
    };
    out.states += 1;
    let Ok(res) = call1d(&ip, &qt, &[qt.len()], polys.len(), "interp_array/static") else {
        out.violate(format!("{key}:eval"), "evaluation failed", Json::Null);
        return;
    };
    out.transitions += 1;
    for (j, p) in polys.iter().enumerate() {
        for (qi, &q) in q64.iter().enumerate() {
            let exact = poly_ref(p, q);
            let i = nimc::refm::bracket_scan(x, q);
            let t = if qi >= nin { ((q - x[i]) / (x[i + 1] - x[i])).abs().max(1.0) } else { 1.0 };
            let m = x.iter().map(|&xi| p.at(Rat::from_f64(xi)).to_f64().abs()).fold(0.0, f64::max);
            let tol = 8.0 * T::EPS * m.max(exact.to_f64().abs()) * t;
            let got = Fl::to_f64(res[[qi, j]]);
            let err = err_dd(got, exact);
            out.evals += 1;
            if p.degree() == 1 {
                out.nontrivial += 1;
            }
            if !(err <= tol) {
                out.violate(
                    format!("{key}:{}", p.name()),
                    format!("affine function {} not reproduced by Linear at q={q}: got {got:e}, exact {:e}", p.name(), exact.to_f64()),
                    Json::obj(vec![("x", Json::f64s(x)), ("query", Json::Num(q))]),
                );
                break;
            }
        }
    }
}

fn run_bilinear<T: Fl>(job: &Job, out: &mut JobOut) {
    let Kind::Bilinear(ay) = &job.kind else { unreachable!() };
    let (x, y) = (&job.ax.x, &ay.x);
    let (Some(xt), Some(yt)) = (vec_exact::<T>(x), vec_exact::<T>(y)) else {
        return;
    };
    let key = job.key();
    // a + b x + c y + d x y
    let mut forms: Vec<[f64; 4]> = vec![];
    for a in COEF {
        for b in COEF {
            for c in COEF {
                for d in COEF {
                    forms.push([a, b, c, d]);
                }
            }
        }
    }
    let val = |f: &[f64; 4], xv: Rat, yv: Rat| -> Rat {
        let c: Vec<Rat> = f.iter().map(|&v| Rat::from_f64(v)).collect();
        c[0] + c[1] * xv + c[2] * yv + c[3] * xv * yv
    };
    let forms: Vec<[f64; 4]> = forms
        .into_iter()
        .filter(|f| {
            x.iter().all(|&xi| y.iter().all(|&yj| exact_f64(val(f, Rat::from_f64(xi), Rat::from_f64(yj))).and_then(T::from_f64_exact).is_some()))
        })
        .collect();
    if forms.is_empty() {
        return;
    }
    let data = Array3::from_shape_fn((x.len(), y.len(), forms.len()), |(i, j, k)| {
        T::from_f64_exact(val(&forms[k], Rat::from_f64(x[i]), Rat::from_f64(y[j])).to_f64()).unwrap()
    });
    let (qx1, _) = queries(x);
    let (qy1, _) = queries(y);
    let mut qx = vec![];
    let mut qy = vec![];
    for &a in &qx1 {
        for &b in &qy1 {
            qx.push(a);
            qy.push(b);
        }
    }
    let (Some(qxt), Some(qyt)) = (vec_exact::<T>(&qx), vec_exact::<T>(&qy)) else {
        return;
    };
    let Ok(Ok(ip)) = catch(|| build_bilinear::<T, _>(Some(&xt), Some(&yt), data, true)) else {
        out.violate(format!("{key}:build"), "build failed", Json::Null);
        return;
    };
    out.states += 1;
    let Ok(res) = call2d(&ip, &qxt, &qyt, &[qxt.len()], forms.len(), "interp_array/static") else {
        out.violate(format!("{key}:eval"), "evaluation failed", Json::Null);
        return;
    };
    out.transitions += 1;
    for (k, f) in forms.iter().enumerate() {
        let m = x
            .iter()
            .flat_map(|&xi| y.iter().map(move |&yj| (xi, yj)))
            .map(|(xi, yj)| val(f, Rat::from_f64(xi), Rat::from_f64(yj)).to_f64().abs())
            .fold(0.0, f64::max);
        for qi in 0..qx.len() {
            let exact = rat_to_dd(val(f, Rat::from_f64(qx[qi]), Rat::from_f64(qy[qi])));
            let (i, j) = (nimc::refm::bracket_scan(x, qx[qi]), nimc::refm::bracket_scan(y, qy[qi]));
            let tx = ((qx[qi] - x[i]) / (x[i + 1] - x[i])).abs();
            let ty = ((qy[qi] - y[j]) / (y[j + 1] - y[j])).abs();
            let tol = 24.0 * T::EPS * m.max(exact.to_f64().abs()) * (1.0 + tx) * (1.0 + ty);
            let got = Fl::to_f64(res[[qi, k]]);
            let err = err_dd(got, exact);
            out.evals += 1;
            if f[3] != 0.0 {
                out.nontrivial += 1;
            }
            if !(err <= tol) {
                out.violate(
                    format!("{key}:{f:?}").replace(' ', ""),
                    format!("bilinear function a+bx+cy+dxy with {f:?} not reproduced at ({},{}): got {got:e}, exact {:e}", qx[qi], qy[qi], exact.to_f64()),
                    Json::obj(vec![("x", Json::f64s(x)), ("y", Json::f64s(y)), ("qx", Json::Num(qx[qi])), ("qy", Json::Num(qy[qi]))]),
                );
                break;
            }
        }
    }
}

/// Integer element types: affine / bilinear functions with integer coefficients on integer axes,
/// queried at every integer point inside the range and a few outside. Every division the method
/// needs is exact there, so the polynomial is reproduced exactly (one unit of slack is granted for
/// a formulation that truncates once).
macro_rules! int_phase {
    ($name:ident, $t:ty, $big:expr) => {
        fn $name(wx: &[i64], out: &mut JobOut) {
            use ndarray::{Array1, Array2};
            use ndarray_interp::interp1d::{Interp1DBuilder, Linear};
            use ndarray_interp::interp2d::{Bilinear, Interp2DBuilder};
            let tn = stringify!($t);
            let knots = |w: &[i64], off: i64| -> Vec<i64> {
                let mut x = vec![off];
                for h in w {
                    x.push(x[x.len() - 1] + h);
                }
                x
            };
            // (the last constant term is so large that the values are not representable as f64)
            let coef = [-2i64, -1, 0, 1, 3];
            let consts = [-2i64, -1, 0, 1, 3, $big];
            for off in [0i64, -4] {
                let x = knots(wx, off);
                let n = x.len();
                let xa = Array1::from(x.iter().map(|&v| v as $t).collect::<Vec<$t>>());
                let qs: Vec<i64> = (x[0] - 3..=x[n - 1] + 3).collect();
                // Linear
                for &a in &consts {
                    for &b in &coef {
                        let y = Array1::from(x.iter().map(|&v| (a + b * v) as $t).collect::<Vec<$t>>());
                        let ip = match catch(|| Interp1DBuilder::new(y.clone()).x(xa.clone()).strategy(Linear::new().extrapolate(true)).build()) {
                            Ok(Ok(ip)) => ip,
                            other => {
                                out.violate(format!("{tn}:linear:{x:?}:build").replace(' ', ""), format!("valid integer input not accepted: {:?}", other.map(|r| r.map(|_| ()))), Json::Null);
                                continue;
                            }
                        };
                        out.states += 1;
                        for &q in &qs {
                            let want = a + b * q;
                            let got = catch(|| ip.interp_scalar(q as $t));
                            out.evals += 1;
                            if b != 0 {
                                out.nontrivial += 1;
                            }
                            let ok = matches!(&got, Ok(Ok(v)) if ((*v as i64) - want).abs() <= 1);
                            if !ok {
                                out.violate(
                                    format!("{tn}:linear:{x:?}:{a},{b}").replace(' ', ""),
                                    format!("Linear<{tn}> over x = {x:?}, y = {a} + {b} x at q = {q}: got {got:?}, the function has {want}"),
                                    Json::obj(vec![("type", Json::str(tn)), ("x", Json::Arr(x.iter().map(|&v| Json::Int(v as i128)).collect())), ("a", Json::Int(a as i128)), ("b", Json::Int(b as i128)), ("query", Json::Int(q as i128))]),
                                );
                                break;
                            }
                        }
                    }
                }
                // Bilinear: x axis from the word, y axis from the reversed word with another offset
                let wy: Vec<i64> = wx.iter().rev().cloned().chain([2]).collect();
                let yk = knots(&wy, off + 1);
                let ya = Array1::from(yk.iter().map(|&v| v as $t).collect::<Vec<$t>>());
                let c4 = [-1i64, 0, 1, 2];
                for &a in &[-1i64, 0, 1, 2, $big] {
                    for &b in &c4 {
                        for &c in &c4 {
                            for &d in &c4 {
                                let f = |u: i64, v: i64| a + b * u + c * v + d * u * v;
                                let z = Array2::from_shape_fn((n, yk.len()), |(i, j)| f(x[i], yk[j]) as $t);
                                let ip = match catch(|| Interp2DBuilder::new(z.clone()).x(xa.clone()).y(ya.clone()).strategy(Bilinear::new().extrapolate(true)).build()) {
                                    Ok(Ok(ip)) => ip,
                                    other => {
                                        out.violate(format!("{tn}:bilinear:{x:?}:build").replace(' ', ""), format!("valid integer grid not accepted: {:?}", other.map(|r| r.map(|_| ()))), Json::Null);
                                        continue;
                                    }
                                };
                                out.states += 1;
                                'q: for qx in x[0] - 2..=x[n - 1] + 2 {
                                    for qy in yk[0] - 2..=yk[yk.len() - 1] + 2 {
                                        let want = f(qx, qy);
                                        let got = catch(|| ip.interp_scalar(qx as $t, qy as $t));
                                        out.evals += 1;
                                        if d != 0 {
                                            out.nontrivial += 1;
                                        }
                                        let ok = matches!(&got, Ok(Ok(v)) if ((*v as i64) - want).abs() <= 1);
                                        if !ok {
                                            out.violate(
                                                format!("{tn}:bilinear:{x:?}x{yk:?}:{a},{b},{c},{d}").replace(' ', ""),
                                                format!("Bilinear<{tn}> over x = {x:?}, y = {yk:?}, z = {a} + {b} x + {c} y + {d} xy at ({qx}, {qy}): got {got:?}, the function has {want}"),
                                                Json::obj(vec![("type", Json::str(tn)), ("x", Json::Arr(x.iter().map(|&v| Json::Int(v as i128)).collect())), ("y", Json::Arr(yk.iter().map(|&v| Json::Int(v as i128)).collect())), ("coefficients", Json::Arr([a, b, c, d].iter().map(|&v| Json::Int(v as i128)).collect())), ("query", Json::Arr(vec![Json::Int(qx as i128), Json::Int(qy as i128)]))]),
                                            );
                                            break 'q;
                                        }
                                    }
                                }
                            }
                        }
                    }
                }
            }
            if out.sample.is_none() {
                out.sample = Some(Json::str(&format!("{tn}: interval word {wx:?}")));
            }
        }
    };
}
int_phase!(int_i32, i32, (1i64 << 30) + 1);
int_phase!(int_i64, i64, (1i64 << 60) + 1);

/// Unsigned element types: the same, restricted to what unsigned arithmetic can express - data
/// that is non-negative and rising along both axes, queries inside the range.
macro_rules! uint_phase {
    ($name:ident, $t:ty) => {
        fn $name(wx: &[i64], out: &mut JobOut) {
            use ndarray::{Array1, Array2};
            use ndarray_interp::interp1d::{Interp1DBuilder, Linear};
            use ndarray_interp::interp2d::{Bilinear, Interp2DBuilder};
            let tn = stringify!($t);
            let knots = |w: &[i64], off: i64| -> Vec<i64> {
                let mut x = vec![off];
                for h in w {
                    x.push(x[x.len() - 1] + h);
                }
                x
            };
            for off in [0i64, 3] {
                let x = knots(wx, off);
                let n = x.len();
                let xa = Array1::from(x.iter().map(|&v| v as $t).collect::<Vec<$t>>());
                for &a in &[0i64, 7, 1000] {
                    for &b in &[0i64, 1, 3] {
                        let y = Array1::from(x.iter().map(|&v| (a + b * v) as $t).collect::<Vec<$t>>());
                        let Ok(Ok(ip)) = catch(|| Interp1DBuilder::new(y.clone()).x(xa.clone()).strategy(Linear::new()).build()) else {
                            out.violate(format!("{tn}:linear:{x:?}:build").replace(' ', ""), "valid unsigned input not accepted", Json::Null);
                            continue;
                        };
                        out.states += 1;
                        for q in x[0]..=x[n - 1] {
                            let want = a + b * q;
                            let got = catch(|| ip.interp_scalar(q as $t));
                            out.evals += 1;
                            out.nontrivial += (b != 0) as u64;
                            if !matches!(&got, Ok(Ok(v)) if ((*v as i64) - want).abs() <= 1) {
                                out.violate(format!("{tn}:linear:{x:?}:{a},{b}").replace(' ', ""), format!("Linear<{tn}> over x = {x:?}, y = {a} + {b} x at q = {q}: got {got:?}, the function has {want}"), Json::Null);
                                break;
                            }
                        }
                    }
                }
                let wy: Vec<i64> = wx.iter().rev().cloned().chain([2]).collect();
                let yk = knots(&wy, off + 1);
                let ya = Array1::from(yk.iter().map(|&v| v as $t).collect::<Vec<$t>>());
                for &a in &[0i64, 500] {
                    for &b in &[0i64, 20, 40] {
                        for &c in &[0i64, 20, 40] {
                            for &d in &[-1i64, 0, 1, 2] {
                                let f = |u: i64, v: i64| a + b * u + c * v + d * u * v;
                                // expressible in unsigned arithmetic: non-negative, rising in x and in y
                                let ok = x.iter().all(|&u| yk.iter().all(|&v| f(u, v) >= 0)) && x.windows(2).all(|p| yk.iter().all(|&v| f(p[1], v) >= f(p[0], v))) && yk.windows(2).all(|p| x.iter().all(|&u| f(u, p[1]) >= f(u, p[0])));
                                if !ok {
                                    continue;
                                }
                                let z = Array2::from_shape_fn((n, yk.len()), |(i, j)| f(x[i], yk[j]) as $t);
                                let Ok(Ok(ip)) = catch(|| Interp2DBuilder::new(z.clone()).x(xa.clone()).y(ya.clone()).strategy(Bilinear::new()).build()) else {
                                    out.violate(format!("{tn}:bilinear:{x:?}:build").replace(' ', ""), "valid unsigned grid not accepted", Json::Null);
                                    continue;
                                };
                                out.states += 1;
                                'q: for qx in x[0]..=x[n - 1] {
                                    for qy in yk[0]..=yk[yk.len() - 1] {
                                        let want = f(qx, qy);
                                        let got = catch(|| ip.interp_scalar(qx as $t, qy as $t));
                                        out.evals += 1;
                                        out.nontrivial += (d != 0) as u64;
                                        if !matches!(&got, Ok(Ok(v)) if ((*v as i64) - want).abs() <= 1) {
                                            out.violate(
                                                format!("{tn}:bilinear:{x:?}x{yk:?}:{a},{b},{c},{d}").replace(' ', ""),
                                                format!("Bilinear<{tn}> over x = {x:?}, y = {yk:?}, z = {a} + {b} x + {c} y + {d} xy (non-negative, rising along both axes) at ({qx}, {qy}): got {got:?}, the function has {want}"),
                                                Json::Null,
                                            );
                                            break 'q;
                                        }
                                    }
                                }
                            }
                        }
                    }
                }
            }
        }
    };
}
uint_phase!(int_u32, u32);
uint_phase!(int_u64, u64);

fn body(ctx: &Ctx) -> (Summary, Meta) {
    let quick = ctx.quick();
    let mut jobs = vec![];
    for f32 in [false, true] {
        let mut sp = if quick {
            let mut v = alpha::full_word_axes(&alpha::h3(), "w", 3, 5, &[0.0, -3.0]);
            v.extend(alpha::long_word_axes(&alpha::h4(), "L", &[8, 12, 24, 32], 1, &[0.0]));
            v
        } else {
            let mut v = alpha::full_word_axes(&alpha::h4(), "w", 3, 6, &alpha::OFFSETS);
            v.extend(alpha::full_word_axes(&alpha::h3(), "w", 7, 7, &[0.0]));
            v.extend(alpha::long_word_axes(&alpha::h4(), "L", &[8, 12, 16, 24, 40], 2, &[0.0]));
            v
        };
        if !f32 {
            sp.extend(alpha::full_word_axes(&alpha::hw(), "W", 3, if quick { 4 } else { 5 }, &[0.0]));
        }
        for a in &sp {
            jobs.push(Job { ax: a.clone(), kind: Kind::Spline, f32, center: 0.0 });
        }
        // long axes with a fine spacing (the product of the solver's pivots leaves the float range):
        // 200 / 400 knots 2^-8 apart (f64), 64 / 100 knots 2^-5 apart (f32 too)
        for (n, h, both) in [(200usize, 2.0f64.powi(-8), false), (400, 2.0f64.powi(-8), false), (64, 2.0f64.powi(-5), true), (100, 2.0f64.powi(-5), true)] {
            if f32 && !both {
                continue;
            }
            let mut w = vec![h; n - 1];
            w[n / 2] = 2.0 * h;
            jobs.push(Job { ax: alpha::axis_from_word("fine", -0.25, &w), kind: Kind::Spline, f32, center: 0.0 });
        }
        // nearly even axes: spacing 1/2 with a jitter of 2^-32 (only polynomials whose samples are exact
        // take part: straight lines)
        let jit = 2.0f64.powi(-32);
        for w in [vec![0.5, 0.5 + jit, 0.5, 0.5 - jit / 2.0, 0.5], vec![0.5 + jit, 0.5, 0.5, 0.5, 0.5 - jit, 0.5, 0.5 + jit / 4.0]] {
            if !f32 {
                jobs.push(Job { ax: alpha::axis_from_word("nearly-even", 0.0, &w), kind: Kind::Spline, f32, center: 0.0 });
            }
        }
        // axes far from the origin (|x| / h about 2^21) with spacings that are not powers of two; the
        // polynomials are taken in (x - first knot)
        for w in [vec![3.0, 6.0, 1.5, 3.0], vec![1.5, 1.5, 3.0, 6.0, 3.0], vec![6.0, 3.0, 3.0], vec![3.0, 3.0, 3.0, 3.0, 3.0, 1.5]] {
            for c in [3145729.0, -3145727.0] {
                let a = alpha::axis_from_word("far", c, &w);
                jobs.push(Job { ax: a, kind: Kind::Spline, f32, center: c });
            }
        }
        let lin = alpha::full_word_axes(&alpha::h3(), "w", 2, if quick { 4 } else { 6 }, &alpha::OFFSETS);
        for a in &lin {
            jobs.push(Job { ax: a.clone(), kind: Kind::Linear, f32, center: 0.0 });
        }
        let a2 = alpha::full_word_axes(&alpha::h3(), "w", 2, if quick { 3 } else { 4 }, &[0.0, -3.0]);
        for ax in &a2 {
            for ay in &a2 {
                jobs.push(Job { ax: ax.clone(), kind: Kind::Bilinear(ay.clone()), f32, center: 0.0 });
            }
        }
    }
    let njobs = jobs.len();
    // integer element types: interval words over {1, 2, 3}
    let mut int_words: Vec<Vec<i64>> = vec![];
    for len in 1..=if quick { 3 } else { 4 } {
        let mut ws: Vec<Vec<i64>> = vec![vec![]];
        for _ in 0..len {
            ws = ws.iter().flat_map(|w| [1i64, 2, 3].iter().map(move |h| { let mut v = w.clone(); v.push(*h); v })).collect();
        }
        int_words.extend(ws);
    }
    let mut sum = run_jobs(ctx, "polynomial-reproduction", &jobs, |j| j.key(), |j| {
        let mut out = JobOut::default();
        CENTER.with(|c| c.set(j.center));
        match (&j.kind, j.f32) {
            (Kind::Spline, false) => run_spline::<f64>(j, &mut out),
            (Kind::Spline, true) => run_spline::<f32>(j, &mut out),
            (Kind::Linear, false) => run_linear::<f64>(j, &mut out),
            (Kind::Linear, true) => run_linear::<f32>(j, &mut out),
            (Kind::Bilinear(_), false) => run_bilinear::<f64>(j, &mut out),
            (Kind::Bilinear(_), true) => run_bilinear::<f32>(j, &mut out),
        }
        out
    });
    sum.merge(run_jobs(ctx, "integer-element-types", &int_words, |w| format!("int:{w:?}").replace(' ', ""), |w| {
        let mut out = JobOut::default();
        int_i32(w, &mut out);
        int_i64(w, &mut out);
        int_u32(w, &mut out);
        int_u64(w, &mut out);
        out
    }));
    let meta = Meta {
        rule: "all 256 polynomials with coefficients in {-1,0,1/2,2} of degree <= 3; per axis ONE Individual build whose lanes are every (polynomial, left condition, right condition) with conditions the polynomial satisfies (NotAKnot for n>=4, FirstDeriv(p'), SecondDeriv(p''), Natural iff p''=0, Clamped iff p'=0; n=3: one NotAKnot end + a derivative end, both NotAKnot for degree<=2) - so every lane has its own boundary pair and values - plus the whole-data-set NotAKnot default, row-level NotAKnot and Natural-for-lines builds; affine functions for Linear; all 256 forms a+bx+cy+dxy for Bilinear; queries: in-range grid (4 per interval) and 4 extrapolated ones. Per interval one cubic with equal values and equal slopes at both ends of that interval; nearly even axes (1/2 +- 2^-32, straight lines); long fine axes (64 .. 400 knots, spacing 2^-5 / 2^-8). Spline jobs also on axes 3*2^20 away from the origin with spacings 1.5 / 3 / 6 (polynomials in x - x0), and with a first lane whose values are near 2^41. Oracle: exact polynomial value. Non-trivial = degree >= 2 (spline), degree 1 (Linear), d != 0 (Bilinear). Phase integer-element-types (i32, i64 incl. constant terms 2^30+1 / 2^60+1; u32, u64 on non-negative data rising along both axes, in-range queries): every interval word over {1,2,3} (1..3 (4) intervals, 2 offsets), Linear on a + b x (25 coefficient pairs) and Bilinear on all 256 forms with coefficients in {-1,0,1,2}, extrapolation on, every integer query from 3 (2) below to 3 (2) above the range; all divisions are exact there, slack 1 unit.".into(),
        bounds: format!("{njobs} (type, axis/grid, strategy) jobs; tier {}", ctx.tier.name()),
        assumptions: vec!["tolerance K eps scale inside, 16 K eps scale |t|^3 outside, with scale = max(|y_i|, |h_i p'(x_i)|, |p(q)|)".into()],
        extra: vec![],
    };
    (sum, meta)
}

fn main() {
    main_with("C16", body)
}
