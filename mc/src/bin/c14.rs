//! C14 - *_into calls fill exactly the caller's buffer or reject a wrongly shaped one.
use ndarray::{
    ArrayD, ArrayViewMutD, Dimension, Ix1, Ix2, Ix3, Ix4, IxDyn, Slice,
};
use ndarray_interp::interp1d::cubic_spline::CubicSpline;
use ndarray_interp::interp1d::{Interp1DBuilder, Linear};
use ndarray_interp::interp2d::{Bilinear, Interp2DBuilder};
use ndarray_interp::InterpolateError;
use nimc::{catch, main_with, run_jobs, Ctx, JobOut, Json, Meta, Summary};

const POISON: f64 = -777.25;

/// shape variants of an expected buffer shape `e`; `nq` = number of leading (query) axes
fn variants(e: &[usize], nq: usize) -> Vec<(String, Vec<usize>)> {
    let mut v = vec![("correct".to_string(), e.to_vec())];
    for i in 0..e.len() {
        if e[i] > 0 {
            let mut s = e.to_vec();
            s[i] -= 1;
            v.push((format!("axis{i}-1"), s));
        }
        let mut s = e.to_vec();
        s[i] += 1;
        v.push((format!("axis{i}+1"), s));
    }
    // permutations of two axes with different lengths
    for i in 0..e.len() {
        for j in i + 1..e.len() {
            if e[i] != e[j] {
                let mut s = e.to_vec();
                s.swap(i, j);
                let kind = if j < nq { "query-axes" } else if i >= nq { "trailing-axes" } else { "query/trailing" };
                v.push((format!("swap{i},{j}({kind})"), s));
            }
        }
    }
    // rank +-1
    let mut s = e.to_vec();
    s.push(1);
    v.push(("rank+1(trailing 1)".into(), s));
    let mut s = vec![1];
    s.extend_from_slice(e);
    v.push(("rank+1(leading 1)".into(), s));
    // shapes the required shape can be broadcast to
    let mut s = vec![2];
    s.extend_from_slice(e);
    v.push(("rank+1(leading 2)".into(), s));
    if e.len() >= 2 {
        // merge two neighbouring axes: same element count, rank - 1
        for i in 0..e.len() - 1 {
            let mut s = e.to_vec();
            let m = s[i] * s[i + 1];
            s[i] = m;
            s.remove(i + 1);
            v.push((format!("merge{i},{}", i + 1), s));
        }
    }
    // same element count, different factorisation, same rank
    for i in 0..e.len() {
        for j in 0..e.len() {
            if i != j && e[i] % 2 == 0 && e[i] > 0 {
                let mut s = e.to_vec();
                s[i] /= 2;
                s[j] *= 2;
                if s != e {
                    v.push((format!("refactor{i}->{j}"), s));
                }
            }
        }
    }
    v.sort_by(|a, b| a.1.cmp(&b.1).then(a.0.cmp(&b.0)));
    v.dedup_by(|a, b| a.1 == b.1);
    // keep "correct" first
    v.sort_by_key(|x| x.0 != "correct");
    v
}

type CallRes = Option<Result<Result<(), InterpolateError>, String>>;

/// run one buffer shape as a window into a larger poisoned array
fn probe(
    out: &mut JobOut,
    key: &str,
    expected: &[usize],
    nq: usize,
    reference: Option<&ArrayD<f64>>,
    call: &dyn Fn(ArrayViewMutD<f64>) -> CallRes,
    case: &dyn Fn(Vec<(&str, Json)>) -> Json,
) {
    let vs = variants(expected, nq);
    // every variant is tried twice in a row on the same interpolator: the answer to a wrongly shaped
    // buffer must not depend on the call having been made (and rejected) before
    let vs: Vec<(String, Vec<usize>)> = vs.iter().flat_map(|(n, s)| [(n.clone(), s.clone()), (if n == "correct" { n.clone() } else { format!("{n}(repeated)") }, s.clone())]).collect();
    for (vname, shape) in vs {
        let big_shape: Vec<usize> = shape.iter().map(|s| s + 2).collect();
        let mut big = ArrayD::from_elem(IxDyn(&big_shape), POISON);
        let res = {
            let mut win = big.view_mut();
            for (ax, &s) in shape.iter().enumerate() {
                win.slice_axis_inplace(ndarray::Axis(ax), Slice::from(1..1 + s));
            }
            call(win)
        };
        let Some(res) = res else {
            continue; // not expressible with these static dimension types
        };
        out.evals += 1;
        out.transitions += 1;
        // memory outside the window must be untouched in every case
        let mut outside_ok = true;
        let mut inside: Vec<f64> = vec![];
        for (ix, &v) in big.indexed_iter() {
            let inside_win = ix.slice().iter().zip(&shape).all(|(&i, &s)| i >= 1 && i < 1 + s);
            if inside_win {
                inside.push(v);
            } else if v.to_bits() != POISON.to_bits() {
                outside_ok = false;
            }
        }
        let class = match &res {
            Ok(Ok(())) => "Ok",
            Ok(Err(_)) => "Err",
            Err(_) => "panic",
        };
        out.outcome(format!("{}:{class}", if vname == "correct" { "correct" } else { "wrong" }));
        let vkey = format!("{key}:{vname}").replace(' ', "");
        let cj = || case(vec![("buffer_variant", Json::str(&vname)), ("buffer_shape", Json::usizes(&shape)), ("required_shape", Json::usizes(expected))]);
        if !outside_ok {
            out.violate(format!("{vkey}:outside"), format!("memory outside the buffer view was written (buffer shape {shape:?}, required {expected:?}, call returned {class})"), cj());
        }
        if vname == "correct" {
            match res {
                // the allocating variant itself panics / fails for this query (NaN): nothing to compare
                Ok(Ok(())) if reference.is_none() => out.count("correct_shape_ok_but_allocating_variant_is_not", 1),
                Ok(Ok(())) => {
                    let want: Vec<f64> = reference.unwrap().iter().cloned().collect();
                    let same = want.len() == inside.len() && want.iter().zip(&inside).all(|(a, b)| a.to_bits() == b.to_bits() || (a.is_nan() && b.is_nan()));
                    if !same {
                        let left = inside.iter().filter(|v| v.to_bits() == POISON.to_bits()).count();
                        out.violate(
                            vkey,
                            format!("correctly shaped buffer {shape:?}: contents differ from the allocating variant ({left} elements never written)"),
                            cj(),
                        );
                    }
                }
                // whether a correctly shaped strided buffer is *accepted* is C13's statement
                // ("accepted whatever its strides"), not C14's: only counted here
                _ => out.count("correct_shape_window_not_accepted(C13 matter)", 1),
            }
        } else {
            out.nontrivial += 1;
            if let Ok(Ok(())) = res {
                let left = inside.iter().filter(|v| v.to_bits() == POISON.to_bits()).count();
                out.violate(
                    vkey,
                    format!("buffer of shape {shape:?} was accepted (Ok) although {expected:?} is required ({left} of {} elements left unwritten)", inside.len()),
                    cj(),
                );
            }
        }
    }
}

/// A batch with an out-of-range element that is not the last one: the allocating variant returns
/// Err, so Ok from the *_into variant means the buffer does not hold what the allocating variant
/// returns (and some of it was never written).
fn probe_failing_batch(
    out: &mut JobOut,
    key: &str,
    expected: &[usize],
    alloc_is_err: bool,
    bad: &str,
    call: &dyn Fn(ArrayViewMutD<f64>) -> CallRes,
    case: &dyn Fn(Vec<(&str, Json)>) -> Json,
) {
    let mut buf = ArrayD::from_elem(IxDyn(expected), POISON);
    let Some(res) = call(buf.view_mut()) else { return };
    out.evals += 1;
    out.transitions += 1;
    out.nontrivial += 1;
    out.outcome(format!("failing-batch:{}", match &res { Ok(Ok(())) => "Ok", Ok(Err(_)) => "Err", Err(_) => "panic" }));
    if let Ok(Ok(())) = res {
        let left = buf.iter().filter(|v| v.to_bits() == POISON.to_bits()).count();
        // Ok => every element overwritten, and the same verdict as the allocating variant
        if left > 0 || alloc_is_err {
            out.violate(
                format!("{key}:failing-batch({bad})"),
                format!(
                    "the *_into call returned Ok for a batch whose first element is {bad}: {left} of {} buffer elements were never written{}",
                    buf.len(),
                    if alloc_is_err { "; the allocating variant does not return Ok" } else { "" }
                ),
                case(vec![("batch", Json::str(&format!("first element {bad}, the rest in range")))]),
            );
        }
    }
}

fn data_nd(shape: &[usize]) -> ArrayD<f64> {
    let mut c = 0.0f64;
    let mut d = ArrayD::from_shape_fn(IxDyn(shape), |_| {
        c += 1.0;
        (c * 0.37).sin() * 3.0 + c * 0.125
    });
    // the first two rows are exactly zero: the first interval (the cells along the first x interval)
    // interpolates to zero, which a *_into call still has to write into the caller's buffer
    if !shape.is_empty() && shape[0] >= 3 {
        d.slice_axis_mut(ndarray::Axis(0), Slice::from(0..2)).fill(0.0);
    }
    d
}

fn query_nd(shape: &[usize], hi: f64) -> ArrayD<f64> {
    let mut c = 0.0f64;
    ArrayD::from_shape_fn(IxDyn(shape), |_| {
        c += 1.0;
        (c * 0.61) % hi
    })
}

#[derive(Clone, Debug)]
struct Job {
    two_d: bool,
    data_shape: Vec<usize>,
    query_shape: Vec<usize>,
    strat: &'static str,
    /// the query is exactly the knot vector of the (default index) axis
    knot_query: bool,
    /// every element of the query is the same in-range value
    const_query: bool,
}
impl Job {
    fn extrapolate(&self) -> bool {
        self.strat.ends_with("+extrapolate")
    }
    fn key(&self) -> String {
        format!("{}:{}:data{:?}:query{:?}{}", if self.two_d { "Interp2D" } else { "Interp1D" }, self.strat, self.data_shape, self.query_shape, if self.knot_query { "=knots" } else if self.const_query { "=constant" } else { "" }).replace(' ', "")
    }
}

/// 1-D: every (static data dim, static query dim) pair that matches the runtime ranks, plus
/// the all-dynamic instantiation
macro_rules! with_1d {
    ($job:expr, $out:expr, $strat:expr, [$(($d:ty, $dq:ty, $dn:expr, $qn:expr)),*]) => {{
        let job: &Job = $job;
        let data = data_nd(&job.data_shape);
        let mut xs = query_nd(&job.query_shape, (job.data_shape[0] - 1) as f64);
        if job.knot_query {
            for (i, v) in xs.iter_mut().enumerate() {
                *v = i as f64;
            }
        }
        if job.const_query {
            xs.fill(1.25);
        }
        let nq = job.query_shape.len();
        let mut expected = job.query_shape.clone();
        expected.extend_from_slice(&job.data_shape[1..]);
        $(
            if job.data_shape.len() == $dn && (job.query_shape.len() == $qn) {
                let d = data.clone().into_dimensionality::<$d>().unwrap();
                let q = xs.clone().into_dimensionality::<$dq>().unwrap();
                let ip = nimc::valid_build!($out, Interp1DBuilder::new(d).strategy($strat).build(), return);
                let reference = match catch(|| ip.interp_array(&q)) { Ok(Ok(r)) => Some(r.into_dyn()), _ => None };
                let reference = reference.as_ref();
                let key = format!("{}:{}x{}", job.key(), stringify!($d), stringify!($dq));
                let case = |extra: Vec<(&str, Json)>| {
                    let mut v = vec![("call", Json::str("Interp1D::interp_array_into")), ("data_dim", Json::str(stringify!($d))), ("query_dim", Json::str(stringify!($dq))), ("data_shape", Json::usizes(&job.data_shape)), ("query_shape", Json::usizes(&job.query_shape)), ("strategy", Json::str(job.strat))];
                    v.extend(extra);
                    Json::obj(v)
                };
                probe($out, &key, &expected, nq, reference, &|win: ArrayViewMutD<f64>| -> CallRes {
                    let w = win.into_dimensionality().ok()?;
                    Some(catch(|| ip.interp_array_into(&q, w)))
                }, &case);
                if q.len() >= 2 {
                    for (bad, name) in [(-5.0, "out of range"), (f64::NAN, "NaN")] {
                        if job.extrapolate() && !bad.is_nan() {
                            continue; // not a failing batch when extrapolating
                        }
                        let mut qbad = q.clone();
                        *qbad.iter_mut().next().unwrap() = bad;
                        let alloc_is_err = !matches!(catch(|| ip.interp_array(&qbad)), Ok(Ok(_)));
                        probe_failing_batch($out, &key, &expected, alloc_is_err, name, &|win: ArrayViewMutD<f64>| -> CallRes {
                            let w = win.into_dimensionality().ok()?;
                            Some(catch(|| ip.interp_array_into(&qbad, w)))
                        }, &case);
                    }
                }
                $out.states += 1;
            }
        )*
        // interp_into: buffer = data shape without the first axis; queries inside an interval
        // and exactly at the last / first knot
        for x in [1.25, (job.data_shape[0] - 1) as f64, 0.0, -3.5, (job.data_shape[0] - 1) as f64 + 2.5, f64::INFINITY, f64::NAN] {
            if !job.extrapolate() && !(x >= 0.0 && x <= (job.data_shape[0] - 1) as f64) {
                continue;
            }
            let ip = nimc::valid_build!($out, Interp1DBuilder::new(data.clone()).strategy($strat).build(), return);
            // a NaN query makes the allocating variant panic (extrapolating lookup): no reference then
            let reference = match catch(|| ip.interp(x)) {
                Ok(Ok(r)) => Some(r),
                _ => None,
            };
            let reference = reference.as_ref();
            let key = format!("{}:interp_into(dyn,x={x})", job.key());
            let case = |extra: Vec<(&str, Json)>| {
                let mut v = vec![("call", Json::str("Interp1D::interp_into")), ("query", Json::Num(x)), ("data_shape", Json::usizes(&job.data_shape)), ("strategy", Json::str(job.strat))];
                v.extend(extra);
                Json::obj(v)
            };
            probe($out, &key, &job.data_shape[1..], 0, reference, &|win: ArrayViewMutD<f64>| -> CallRes {
                Some(catch(|| ip.interp_into(x, win)))
            }, &case);
            $out.states += 1;
        }
    }};
}

fn run_1d_static_interp_into(job: &Job, out: &mut JobOut) {
    // static instantiations of interp_into (the buffer rank is fixed by the type)
    macro_rules! go {
        ($d:ty, $n:expr) => {
            if job.data_shape.len() == $n {
                let d = data_nd(&job.data_shape).into_dimensionality::<$d>().unwrap();
              for x in [1.25, (job.data_shape[0] - 1) as f64, 0.0] {
                let ip = nimc::valid_build!(out, Interp1DBuilder::new(d.clone()).build(), return);
                let reference = match catch(|| ip.interp(x)) { Ok(Ok(r)) => Some(r.into_dyn()), _ => None };
                let reference = reference.as_ref();
                let key = format!("{}:interp_into({},x={x})", job.key(), stringify!($d));
                let case = |extra: Vec<(&str, Json)>| {
                    let mut v = vec![("call", Json::str("Interp1D::interp_into")), ("data_dim", Json::str(stringify!($d))), ("data_shape", Json::usizes(&job.data_shape))];
                    v.extend(extra);
                    Json::obj(v)
                };
                probe(out, &key, &job.data_shape[1..], 0, reference, &|win: ArrayViewMutD<f64>| -> CallRes {
                    let w = win.into_dimensionality().ok()?;
                    Some(catch(|| ip.interp_into(x, w)))
                }, &case);
              }
            }
        };
    }
    go!(Ix1, 1);
    go!(Ix2, 2);
    go!(Ix3, 3);
    go!(Ix4, 4);
}

fn run_1d(job: &Job, out: &mut JobOut) {
    macro_rules! all {
        ($strat:expr) => {
            with_1d!(job, out, $strat, [
                (Ix1, Ix1, 1, 1), (Ix2, Ix1, 2, 1), (Ix3, Ix1, 3, 1), (Ix4, Ix1, 4, 1),
                (Ix1, Ix2, 1, 2), (Ix2, Ix2, 2, 2), (Ix3, Ix2, 3, 2), (Ix4, Ix2, 4, 2),
                (Ix1, Ix3, 1, 3), (Ix2, Ix3, 2, 3), (Ix3, Ix3, 3, 3),
                (IxDyn, IxDyn, job.data_shape.len(), job.query_shape.len()),
                (IxDyn, Ix1, job.data_shape.len(), 1),
                (Ix2, IxDyn, 2, job.query_shape.len()),
                (Ix3, IxDyn, 3, job.query_shape.len())
            ])
        };
    }
    match job.strat {
        "Linear" => all!(Linear::new()),
        "Linear+extrapolate" => all!(Linear::new().extrapolate(true)),
        "CubicSpline+extrapolate" => all!(CubicSpline::new().extrapolate(true)),
        _ => all!(CubicSpline::new()),
    }
    if job.strat == "Linear" && job.query_shape.len() == 1 {
        run_1d_static_interp_into(job, out);
    }
}

fn run_2d(job: &Job, out: &mut JobOut) {
    let data = data_nd(&job.data_shape);
    let mut xs = query_nd(&job.query_shape, (job.data_shape[0] - 1) as f64);
    let mut ys = query_nd(&job.query_shape, (job.data_shape[1] - 1) as f64).mapv(|v| (v * 1.3) % ((job.data_shape[1] - 1) as f64));
    if job.knot_query {
        for (i, (a, b)) in xs.iter_mut().zip(ys.iter_mut()).enumerate() {
            *a = i as f64;
            *b = i as f64;
        }
    }
    if job.const_query {
        xs.fill(1.25);
        ys.fill(0.75);
    }
    let nq = job.query_shape.len();
    let mut expected = job.query_shape.clone();
    expected.extend_from_slice(&job.data_shape[2..]);
    macro_rules! go {
        ($d:ty, $dq:ty, $dn:expr, $qn:expr) => {
            if job.data_shape.len() == $dn && job.query_shape.len() == $qn {
                let d = data.clone().into_dimensionality::<$d>().unwrap();
                let qx = xs.clone().into_dimensionality::<$dq>().unwrap();
                let qy = ys.clone().into_dimensionality::<$dq>().unwrap();
                let ip = nimc::valid_build!(out, Interp2DBuilder::new(d).strategy(Bilinear::new()).build(), return);
                let reference = match catch(|| ip.interp_array(&qx, &qy)) { Ok(Ok(r)) => Some(r.into_dyn()), _ => None };
                let reference = reference.as_ref();
                let key = format!("{}:{}x{}", job.key(), stringify!($d), stringify!($dq));
                let case = |extra: Vec<(&str, Json)>| {
                    let mut v = vec![("call", Json::str("Interp2D::interp_array_into")), ("data_dim", Json::str(stringify!($d))), ("query_dim", Json::str(stringify!($dq))), ("data_shape", Json::usizes(&job.data_shape)), ("query_shape", Json::usizes(&job.query_shape))];
                    v.extend(extra);
                    Json::obj(v)
                };
                probe(out, &key, &expected, nq, reference, &|win: ArrayViewMutD<f64>| -> CallRes {
                    let w = win.into_dimensionality().ok()?;
                    Some(catch(|| ip.interp_array_into(&qx, &qy, w)))
                }, &case);
                if qx.len() >= 2 {
                    for which in 0..4 {
                        let (mut bx, mut by) = (qx.clone(), qy.clone());
                        let name = match which {
                            0 => { *bx.iter_mut().next().unwrap() = -5.0; "out of range in x" }
                            1 => { *by.iter_mut().next().unwrap() = 1e9; "out of range in y" }
                            2 => { *bx.iter_mut().next().unwrap() = f64::NAN; "NaN in x" }
                            _ => { *by.iter_mut().next().unwrap() = f64::NAN; "NaN in y" }
                        };
                        let alloc_is_err = !matches!(catch(|| ip.interp_array(&bx, &by)), Ok(Ok(_)));
                        probe_failing_batch(out, &key, &expected, alloc_is_err, name, &|win: ArrayViewMutD<f64>| -> CallRes {
                            let w = win.into_dimensionality().ok()?;
                            Some(catch(|| ip.interp_array_into(&bx, &by, w)))
                        }, &case);
                    }
                }
                out.states += 1;
            }
        };
    }
    go!(Ix2, Ix1, 2, 1);
    go!(Ix3, Ix1, 3, 1);
    go!(Ix4, Ix1, 4, 1);
    go!(Ix2, Ix2, 2, 2);
    go!(Ix3, Ix2, 3, 2);
    go!(Ix4, Ix2, 4, 2);
    go!(Ix2, Ix3, 2, 3);
    go!(Ix3, Ix3, 3, 3);
    go!(IxDyn, IxDyn, job.data_shape.len(), job.query_shape.len());
    go!(IxDyn, Ix1, job.data_shape.len(), 1);
    go!(Ix3, IxDyn, 3, job.query_shape.len());
    // xs / ys of different shapes: every single-axis difference, and a permutation
    {
        let ip = nimc::valid_build!(out, Interp2DBuilder::new(data.clone()).build(), return);
        let mut alts: Vec<Vec<usize>> = vec![];
        for i in 0..nq {
            let mut s = job.query_shape.clone();
            s[i] += 1;
            alts.push(s);
            if job.query_shape[i] > 0 {
                let mut s = job.query_shape.clone();
                s[i] -= 1;
                alts.push(s);
            }
            for j in i + 1..nq {
                if job.query_shape[i] != job.query_shape[j] {
                    let mut s = job.query_shape.clone();
                    s.swap(i, j);
                    alts.push(s);
                }
            }
        }
        if nq >= 2 {
            // same element count, different rank
            let total: usize = job.query_shape.iter().product();
            alts.push(vec![total]);
        }
        for ys_shape in alts {
            let ys2 = query_nd(&ys_shape, (job.data_shape[1] - 1) as f64);
            for into in [false, true] {
                let mut buf = ArrayD::from_elem(IxDyn(&expected), POISON);
                let r = if into {
                    catch(|| ip.interp_array_into(&xs, &ys2, buf.view_mut()).map(|_| ()))
                } else {
                    catch(|| ip.interp_array(&xs, &ys2).map(|_| ()))
                };
                out.evals += 1;
                out.transitions += 1;
                out.nontrivial += 1;
                out.outcome(format!("xs/ys-mismatch:{}", match &r { Ok(Ok(())) => "Ok", Ok(Err(_)) => "Err", Err(_) => "panic" }));
                if let Ok(Ok(())) = r {
                    out.violate(
                        format!("{}:xs{:?}/ys{:?}:{}", job.key(), job.query_shape, ys_shape, if into { "into" } else { "alloc" }).replace(' ', ""),
                        format!("Interp2D::interp_array{} returned Ok for xs of shape {:?} and ys of shape {:?}", if into { "_into" } else { "" }, job.query_shape, ys_shape),
                        Json::obj(vec![("data_shape", Json::usizes(&job.data_shape)), ("xs_shape", Json::usizes(&job.query_shape)), ("ys_shape", Json::usizes(&ys_shape))]),
                    );
                }
            }
        }
    }
    // interp_into
    {
      for (qx0, qy0) in [(1.25, 0.75), ((job.data_shape[0] - 1) as f64, (job.data_shape[1] - 1) as f64), (0.0, (job.data_shape[1] - 1) as f64)] {
        let ip = nimc::valid_build!(out, Interp2DBuilder::new(data.clone()).build(), return);
        let reference = match catch(|| ip.interp(qx0, qy0)) { Ok(Ok(r)) => Some(r), _ => None };
        let reference = reference.as_ref();
        let key = format!("{}:interp_into(dyn,{qx0},{qy0})", job.key());
        let case = |extra: Vec<(&str, Json)>| {
            let mut v = vec![("call", Json::str("Interp2D::interp_into")), ("data_shape", Json::usizes(&job.data_shape))];
            v.extend(extra);
            Json::obj(v)
        };
        probe(out, &key, &job.data_shape[2..], 0, reference, &|win: ArrayViewMutD<f64>| -> CallRes { Some(catch(|| ip.interp_into(qx0, qy0, win))) }, &case);
      }
    }
}

// A user strategy that writes its target without looking at the data (so nothing inside the
// strategy would notice a target of the wrong shape): the batch entry points have to reject a wrongly
// shaped buffer themselves.
#[derive(Debug)]
struct Fill;
impl<Sd, Sx, D> ndarray_interp::interp1d::Interp1DStrategyBuilder<Sd, Sx, D> for Fill
where
    Sd: ndarray::Data<Elem = f64>,
    Sx: ndarray::Data<Elem = f64>,
    D: Dimension + ndarray::RemoveAxis,
{
    const MINIMUM_DATA_LENGHT: usize = 2;
    type FinishedStrat = Fill;
    fn build<Sx2>(self, _x: &ndarray::ArrayBase<Sx2, Ix1>, _data: &ndarray::ArrayBase<Sd, D>) -> Result<Fill, ndarray_interp::BuilderError>
    where
        Sx2: ndarray::Data<Elem = f64>,
    {
        Ok(Fill)
    }
}
impl<Sd, Sx, D> ndarray_interp::interp1d::Interp1DStrategy<Sd, Sx, D> for Fill
where
    Sd: ndarray::Data<Elem = f64>,
    Sx: ndarray::Data<Elem = f64>,
    D: Dimension + ndarray::RemoveAxis,
{
    fn interp_into(&self, _ip: &ndarray_interp::interp1d::Interp1D<Sd, Sx, D, Self>, mut target: ndarray::ArrayViewMut<f64, D::Smaller>, x: f64) -> Result<(), InterpolateError> {
        target.fill(x);
        Ok(())
    }
}
impl<Sd, Sx, Sy, D> ndarray_interp::interp2d::Interp2DStrategyBuilder<Sd, Sx, Sy, D> for Fill
where
    Sd: ndarray::Data<Elem = f64>,
    Sx: ndarray::Data<Elem = f64>,
    Sy: ndarray::Data<Elem = f64>,
    D: Dimension + ndarray::RemoveAxis,
    D::Smaller: ndarray::RemoveAxis,
{
    const MINIMUM_DATA_LENGHT: usize = 2;
    type FinishedStrat = Fill;
    fn build(self, _x: &ndarray::ArrayBase<Sx, Ix1>, _y: &ndarray::ArrayBase<Sy, Ix1>, _data: &ndarray::ArrayBase<Sd, D>) -> Result<Fill, ndarray_interp::BuilderError> {
        Ok(Fill)
    }
}
impl<Sd, Sx, Sy, D> ndarray_interp::interp2d::Interp2DStrategy<Sd, Sx, Sy, D> for Fill
where
    Sd: ndarray::Data<Elem = f64>,
    Sx: ndarray::Data<Elem = f64>,
    Sy: ndarray::Data<Elem = f64>,
    D: Dimension + ndarray::RemoveAxis,
    D::Smaller: ndarray::RemoveAxis,
{
    fn interp_into(&self, _ip: &ndarray_interp::interp2d::Interp2D<Sd, Sx, Sy, D, Self>, mut target: ndarray::ArrayViewMut<'_, f64, <D::Smaller as Dimension>::Smaller>, x: f64, y: f64) -> Result<(), InterpolateError> {
        target.fill(x + y);
        Ok(())
    }
}

/// batch entry points with the user strategy `Fill`
fn run_user_strategy(two_d: bool, data_shape: &[usize], query_shape: &[usize], out: &mut JobOut) {
    let data = data_nd(data_shape);
    let nq = query_shape.len();
    let key = format!("{}:user-strategy:data{data_shape:?}:query{query_shape:?}", if two_d { "Interp2D" } else { "Interp1D" }).replace(' ', "");
    let mut expected = query_shape.to_vec();
    expected.extend_from_slice(&data_shape[if two_d { 2 } else { 1 }..]);
    let case = |extra: Vec<(&str, Json)>| {
        let mut v = vec![("call", Json::str("interp_array_into with a user-defined strategy")), ("data_shape", Json::usizes(data_shape)), ("query_shape", Json::usizes(query_shape))];
        v.extend(extra);
        Json::obj(v)
    };
    if two_d {
        let xs = query_nd(query_shape, (data_shape[0] - 1) as f64);
        let ys = query_nd(query_shape, (data_shape[1] - 1) as f64);
        let ip = nimc::valid_build!(out, Interp2DBuilder::new(data.clone()).strategy(Fill).build(), return);
        macro_rules! go {
            ($dq:ty) => {
                if let (Ok(qx), Ok(qy)) = (xs.clone().into_dimensionality::<$dq>(), ys.clone().into_dimensionality::<$dq>()) {
                    let reference = match catch(|| ip.interp_array(&qx, &qy)) { Ok(Ok(r)) => Some(r.into_dyn()), _ => None };
                    probe(out, &format!("{key}:{}", stringify!($dq)), &expected, nq, reference.as_ref(), &|win: ArrayViewMutD<f64>| -> CallRes { Some(catch(|| ip.interp_array_into(&qx, &qy, win))) }, &case);
                }
            };
        }
        go!(Ix1);
        go!(Ix2);
        go!(IxDyn);
    } else {
        let xs = query_nd(query_shape, (data_shape[0] - 1) as f64);
        let ip = nimc::valid_build!(out, Interp1DBuilder::new(data.clone()).strategy(Fill).build(), return);
        macro_rules! go {
            ($dq:ty) => {
                if let Ok(q) = xs.clone().into_dimensionality::<$dq>() {
                    let reference = match catch(|| ip.interp_array(&q)) { Ok(Ok(r)) => Some(r.into_dyn()), _ => None };
                    probe(out, &format!("{key}:{}", stringify!($dq)), &expected, nq, reference.as_ref(), &|win: ArrayViewMutD<f64>| -> CallRes { Some(catch(|| ip.interp_array_into(&q, win))) }, &case);
                }
            };
        }
        go!(Ix1);
        go!(Ix2);
        go!(IxDyn);
    }
    out.states += 1;
}

fn body(ctx: &Ctx) -> (Summary, Meta) {
    let quick = ctx.quick();
    let mut jobs = vec![];
    let _ = quick;
    let qshapes: Vec<Vec<usize>> = vec![vec![3], vec![1], vec![2, 3], vec![3, 2], vec![2, 2], vec![2, 1, 3], vec![2, 3, 2], vec![], vec![4], vec![0], vec![2, 0]];
    for strat in ["Linear", "CubicSpline", "Linear+extrapolate", "CubicSpline+extrapolate"] {
        for ds in [vec![4], vec![4, 3], vec![4, 3, 2], vec![4, 2, 3, 2], vec![4, 2, 2], vec![4, 1], vec![4, 1, 3], vec![4, 3, 1]] {
            for qs in &qshapes {
                jobs.push(Job { two_d: false, data_shape: ds.clone(), query_shape: qs.clone(), strat, knot_query: false, const_query: false });
                if qs.iter().product::<usize>() >= 2 {
                    jobs.push(Job { two_d: false, data_shape: ds.clone(), query_shape: qs.clone(), strat, knot_query: false, const_query: true });
                }
                if qs.len() == 1 && qs[0] == ds[0] {
                    jobs.push(Job { two_d: false, data_shape: ds.clone(), query_shape: qs.clone(), strat, knot_query: true, const_query: false });
                }
            }
        }
    }
    for ds in [vec![3, 4], vec![3, 4, 3], vec![3, 4, 3, 2], vec![4, 3, 2, 2], vec![3, 4, 1], vec![3, 4, 1, 2], vec![4, 4], vec![4, 4, 2]] {
        for qs in &qshapes {
            jobs.push(Job { two_d: true, data_shape: ds.clone(), query_shape: qs.clone(), strat: "Bilinear", knot_query: false, const_query: false });
            if qs.iter().product::<usize>() >= 2 {
                jobs.push(Job { two_d: true, data_shape: ds.clone(), query_shape: qs.clone(), strat: "Bilinear", knot_query: false, const_query: true });
            }
            if qs.len() == 1 && qs[0] == ds[0] && ds[0] == ds[1] {
                jobs.push(Job { two_d: true, data_shape: ds.clone(), query_shape: qs.clone(), strat: "Bilinear", knot_query: true, const_query: false });
            }
        }
    }
    let njobs = jobs.len();
    let sum = run_jobs(ctx, "buffers", &jobs, |j| j.key(), |j| {
        let mut out = JobOut::default();
        if j.two_d {
            run_2d(j, &mut out);
        } else {
            run_1d(j, &mut out);
        }
        if out.sample.is_none() {
            let mut e = j.query_shape.clone();
            e.extend_from_slice(&j.data_shape[if j.two_d { 2 } else { 1 }..]);
            out.sample = Some(Json::obj(vec![("job", Json::str(&j.key())), ("buffer_variants", Json::Arr(variants(&e, j.query_shape.len()).iter().map(|v| Json::str(&format!("{}={:?}", v.0, v.1))).collect()))]));
        }
        out
    });
    let mut user_jobs: Vec<(bool, Vec<usize>, Vec<usize>)> = vec![];
    for qs in [vec![3], vec![1], vec![2, 3], vec![0], vec![2, 0]] {
        for ds in [vec![4], vec![4, 3], vec![4, 3, 2], vec![4, 1]] {
            user_jobs.push((false, ds, qs.clone()));
        }
        for ds in [vec![3, 4], vec![3, 4, 3], vec![3, 4, 3, 2], vec![3, 4, 1]] {
            user_jobs.push((true, ds, qs.clone()));
        }
    }
    let mut sum = sum;
    sum.merge(run_jobs(ctx, "user-strategy", &user_jobs, |j| format!("{}:user-strategy:data{:?}:query{:?}", if j.0 { "Interp2D" } else { "Interp1D" }, j.1, j.2).replace(' ', ""), |j| {
        let mut out = JobOut::default();
        run_user_strategy(j.0, &j.1, &j.2, &mut out);
        out
    }));
    let meta = Meta {
        rule: "every *_into entry point of Interp1D (Linear, CubicSpline) and Interp2D (Bilinear) x data shapes of rank 1..4 x query shapes of rank 0..3 x every static (data dim, query dim) instantiation matching those ranks plus the dynamic ones x buffer shape variants {correct, each axis -1/+1, every swap of two unequal axes (query axes, trailing axes, across), rank+1, two axes merged (same element count), refactored element count}, each buffer being a window into a larger array filled with poison; 2-D: xs/ys of different shapes (each axis +-1, permuted, flattened). Oracle: correct shape => Ok, bitwise equal to the allocating variant, no poison left inside; any other shape => never Ok; poison outside the window intact in every case. Every wrong shape is offered twice in a row to the same interpolator. The batch entry points are also driven with a user-defined strategy that writes its target without looking at the data (the entry point itself has to reject the buffer). The data holds an interval (row of cells) of exact zeros, with queries inside it. Also with the query being exactly the knot vector of the axis (both axes in 2-D). Non-trivial = a wrongly shaped buffer or mismatched xs/ys. Every query shape with at least two elements is also run with a constant query (all elements the same in-range value).".into(),
        bounds: format!("{njobs} (interpolator, data shape, query shape) jobs; tier {}", ctx.tier.name()),
        assumptions: vec!["a panic (caught) is the documented rejection; a returned Err would also count as 'not Ok'".into()],
        extra: vec![],
    };
    (sum, meta)
}

fn main() {
    main_with("C14", body)
}
