//! A small stateless explorer of thread interleavings that runs every simulated thread on its own
//! OS thread (so `thread_local!` state, thread ids and destructors at thread exit are the real
//! ones) and hands a baton from thread to thread at scheduling points: exactly one thread runs at
//! any time, the others wait on a condition variable. Depth-first over the choices, bounded by
//! the number of preemptions (a switch away from a thread that could have continued).
//!
//! The C17 check uses it to confirm a failure found by shuttle, whose simulated threads are
//! coroutines on one OS thread and therefore *share* thread-local state: a program that only
//! fails because of that sharing is not a violation of the property.

use std::cell::RefCell;
use std::sync::{Arc, Condvar, Mutex};
use std::time::Duration;

struct St {
    current: Option<usize>,
    finished: Vec<bool>,
    prefix: Vec<usize>,
    step: usize,
    /// per decision: (number of enabled threads, choice taken, the running thread could have continued)
    trace: Vec<(usize, usize, bool)>,
    bad_prefix: bool,
}

struct Shared {
    m: Mutex<St>,
    cv: Condvar,
}

thread_local! {
    static ME: RefCell<Option<(Arc<Shared>, usize)>> = const { RefCell::new(None) };
}

/// canonical order: the running thread first if it can continue, then ascending ids
fn decide(st: &mut St, me: usize, me_enabled: bool) {
    let mut enabled: Vec<usize> = vec![];
    if me_enabled {
        enabled.push(me);
    }
    enabled.extend((0..st.finished.len()).filter(|&t| !st.finished[t] && !(me_enabled && t == me)));
    if enabled.is_empty() {
        st.current = None;
        return;
    }
    if enabled.len() == 1 {
        st.current = Some(enabled[0]);
        return;
    }
    let choice = if st.step < st.prefix.len() { st.prefix[st.step] } else { 0 };
    let choice = if choice < enabled.len() {
        choice
    } else {
        // the program did not reach the same decision as in the run this prefix comes from
        st.bad_prefix = true;
        0
    };
    st.trace.push((enabled.len(), choice, me_enabled));
    st.step += 1;
    st.current = Some(enabled[choice]);
}

const STALL: Duration = Duration::from_secs(20);

/// wait until it is `id`'s turn; `false` when nothing moved for a long time
fn wait_turn(sh: &Shared, mut g: std::sync::MutexGuard<'_, St>, id: usize) -> bool {
    while g.current != Some(id) {
        let (ng, to) = sh.cv.wait_timeout(g, STALL).expect("baton state");
        g = ng;
        if to.timed_out() && g.current != Some(id) {
            return false;
        }
    }
    true
}

/// A scheduling point: called by the hook inside the code under test. Does nothing on a thread
/// that does not belong to an exploration.
pub fn point() {
    // (try_with: the hook may be reached from a destructor that runs after this thread-local is gone)
    let me = ME.try_with(|m| m.borrow().clone()).ok().flatten();
    if let Some((sh, id)) = me {
        let mut g = sh.m.lock().expect("baton state");
        decide(&mut g, id, true);
        if g.current != Some(id) {
            sh.cv.notify_all();
            let _ = wait_turn(&sh, g, id);
        }
    }
}

pub struct Explored {
    pub executions: u64,
    /// first failure: (schedule prefix, message)
    pub failure: Option<(Vec<usize>, String)>,
    /// the search ended because of the cap on executions, a stalled execution or a diverging replay
    pub incomplete: Option<String>,
}

/// One execution under the schedule `prefix` (choice 0 afterwards).
fn run_once<R: Send + 'static>(prefix: &[usize], bodies: Vec<Box<dyn FnOnce() -> R + Send>>) -> Result<(Vec<(usize, usize, bool)>, Vec<std::thread::Result<R>>), String> {
    let n = bodies.len();
    let sh = Arc::new(Shared { m: Mutex::new(St { current: None, finished: vec![false; n], prefix: prefix.to_vec(), step: 0, trace: vec![], bad_prefix: false }), cv: Condvar::new() });
    let mut handles = vec![];
    for (id, body) in bodies.into_iter().enumerate() {
        let sh = sh.clone();
        handles.push(std::thread::spawn(move || {
            ME.with(|m| *m.borrow_mut() = Some((sh.clone(), id)));
            let started = {
                let g = sh.m.lock().expect("baton state");
                wait_turn(&sh, g, id)
            };
            let r = if started { std::panic::catch_unwind(std::panic::AssertUnwindSafe(body)) } else { Err(Box::new("stalled before its first step") as Box<dyn std::any::Any + Send>) };
            let mut g = sh.m.lock().expect("baton state");
            g.finished[id] = true;
            decide(&mut g, id, false);
            sh.cv.notify_all();
            drop(g);
            ME.with(|m| *m.borrow_mut() = None);
            r
        }));
    }
    {
        // the first decision: which thread starts
        let mut g = sh.m.lock().expect("baton state");
        decide(&mut g, usize::MAX, false);
        sh.cv.notify_all();
    }
    // wait for the end of the execution (all finished) or a stall
    {
        let mut g = sh.m.lock().expect("baton state");
        loop {
            if g.finished.iter().all(|&f| f) {
                break;
            }
            let before = (g.step, g.finished.iter().filter(|&&f| f).count());
            let (ng, to) = sh.cv.wait_timeout(g, STALL).expect("baton state");
            g = ng;
            if to.timed_out() && (g.step, g.finished.iter().filter(|&&f| f).count()) == before && !g.finished.iter().all(|&f| f) {
                return Err("an execution made no progress for 20 s (a thread waits for something a descheduled thread holds); its threads are abandoned".into());
            }
        }
    }
    let results: Vec<std::thread::Result<R>> = handles.into_iter().map(|h| h.join().unwrap_or_else(Err)).collect();
    let g = sh.m.lock().expect("baton state");
    if g.bad_prefix {
        return Err("the program did not repeat the decisions of the schedule prefix it was replayed with (nondeterminism outside the scheduler)".into());
    }
    Ok((g.trace.clone(), results))
}

/// Depth-first exploration of every schedule with at most `bound` preemptions.
/// `make` builds the bodies of one execution, `check` judges the results of one execution.
pub fn explore<R: Send + 'static>(bound: usize, max_executions: u64, make: &dyn Fn() -> Vec<Box<dyn FnOnce() -> R + Send>>, check: &dyn Fn(Vec<std::thread::Result<R>>) -> Result<(), String>) -> Explored {
    let mut out = Explored { executions: 0, failure: None, incomplete: None };
    let mut stack: Vec<Vec<usize>> = vec![vec![]];
    while let Some(prefix) = stack.pop() {
        if out.executions >= max_executions {
            out.incomplete = Some(format!("cap of {max_executions} executions"));
            return out;
        }
        out.executions += 1;
        let (trace, results) = match run_once(&prefix, make()) {
            Ok(x) => x,
            Err(e) => {
                out.incomplete = Some(e);
                return out;
            }
        };
        if let Err(m) = check(results) {
            out.failure = Some((trace.iter().map(|t| t.1).collect(), m));
            return out;
        }
        // alternatives at every decision after the prefix, deepest first on the stack
        let mut pre = 0usize;
        let mut costs = vec![];
        for (i, &(_, choice, could_continue)) in trace.iter().enumerate() {
            costs.push(pre);
            if could_continue && choice != 0 {
                pre += 1;
            }
            let _ = i;
        }
        for i in (prefix.len()..trace.len()).rev() {
            let (n, _, could_continue) = trace[i];
            for alt in (1..n).rev() {
                let cost = costs[i] + usize::from(could_continue);
                if cost > bound {
                    continue;
                }
                let mut p: Vec<usize> = trace[..i].iter().map(|t| t.1).collect();
                p.push(alt);
                stack.push(p);
            }
        }
    }
    out
}

#[cfg(test)]
mod tests {
    use super::*;
    use std::sync::atomic::{AtomicUsize, Ordering};

    #[test]
    fn finds_the_lost_update_and_counts_interleavings() {
        // two threads: load, point, store(load + 1): the lost update needs one preemption
        let make = || -> Vec<Box<dyn FnOnce() -> usize + Send>> {
            let c = Arc::new(AtomicUsize::new(0));
            (0..2)
                .map(|_| {
                    let c = c.clone();
                    Box::new(move || {
                        let v = c.load(Ordering::SeqCst);
                        point();
                        c.store(v + 1, Ordering::SeqCst);
                        c.load(Ordering::SeqCst)
                    }) as Box<dyn FnOnce() -> usize + Send>
                })
                .collect()
        };
        let check = |r: Vec<std::thread::Result<usize>>| -> Result<(), String> {
            let m = r.into_iter().map(|x| x.unwrap()).max().unwrap();
            if m == 2 { Ok(()) } else { Err(format!("final value {m}")) }
        };
        let e0 = explore(0, 1000, &make, &check);
        assert!(e0.failure.is_none() && e0.incomplete.is_none(), "no preemption, no lost update");
        assert_eq!(e0.executions, 2, "thread 0 first or thread 1 first");
        let e1 = explore(1, 1000, &make, &check);
        assert!(e1.failure.is_some());
        // without the oracle: all interleavings of two threads with one point each = C(4,2) = 6
        let all = explore(usize::MAX, 1000, &make, &|_| Ok(()));
        assert_eq!(all.executions, 6);
    }
}
