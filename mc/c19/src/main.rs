//! C19 - the unchecked type cast of the 1-D fast path only ever relabels identical types.
//!
//! Every instantiation of the finite table is executed; the hook inside `cast_unchecked`
//! (cfg ndarray_interp_verif) asserts that source and destination type are identical and counts
//! the casts. The fast path must be taken iff the static query type is `Ix1`, and its output
//! must be bit-identical to the general per-element path.

use std::fmt::Debug;

use ndarray::{Array, Array1, ArrayD, Dimension, Ix0, Ix1, Ix2, Ix3, Ix4, Ix5, Ix6, IxDyn};
use ndarray_interp::interp1d::Interp1DBuilder;
use ndarray_interp::interp2d::Interp2DBuilder;
use ndarray_interp::verif_hooks;
use nimc::{catch, main_with, run_jobs, Ctx, JobOut, Json, Meta, Summary};
use num_traits::{Num, NumCast, ToPrimitive};

/// Heap accounting per thread: bytes allocated minus bytes released by the current thread. The fast
/// path may differ from the general path in speed only, so neither may keep memory after a call.
struct Counting;
thread_local! {
    static LIVE: std::cell::Cell<i64> = const { std::cell::Cell::new(0) };
}
unsafe impl std::alloc::GlobalAlloc for Counting {
    unsafe fn alloc(&self, l: std::alloc::Layout) -> *mut u8 {
        let p = unsafe { std::alloc::System.alloc(l) };
        if !p.is_null() {
            let _ = LIVE.try_with(|c| c.set(c.get() + l.size() as i64));
        }
        p
    }
    unsafe fn dealloc(&self, p: *mut u8, l: std::alloc::Layout) {
        unsafe { std::alloc::System.dealloc(p, l) };
        let _ = LIVE.try_with(|c| c.set(c.get() - l.size() as i64));
    }
}
#[global_allocator]
static ALLOC: Counting = Counting;

fn live_bytes() -> i64 {
    LIVE.try_with(|c| c.get()).unwrap_or(0)
}

/// bytes still held after `calls` repetitions of `f` (whose results are dropped); None if it panics
fn retained(calls: usize, mut f: impl FnMut()) -> Option<i64> {
    let before = live_bytes();
    let r = std::panic::catch_unwind(std::panic::AssertUnwindSafe(|| {
        for _ in 0..calls {
            f();
        }
    }));
    let after = live_bytes();
    r.ok().map(|_| after - before)
}

/// what one instantiation observed
pub struct Rec {
    /// heap bytes still held after 4 more calls of interp_array + interp_array_into each (results
    /// dropped): static query type / dynamic rank-1 query with the same contents
    pub retained: Option<i64>,
    pub retained_general: Option<i64>,
    /// number of executed casts during interp_array
    pub casts: u64,
    /// number of executed casts during interp_array_into (separate call)
    pub casts_into: u64,
    /// outcome of the batch call: Ok(bits) / Err / panic message
    pub batch: Result<Vec<u64>, String>,
    pub batch_into: Result<Vec<u64>, String>,
    /// the same logical query answered element by element through `interp`
    pub singles: Result<Vec<u64>, String>,
    /// the same logical query through a query array whose static type is NOT Ix1 (general path)
    pub general: Result<Vec<u64>, String>,
    /// interp_array_into through the general path (dynamic rank-1 query) into a buffer of the same
    /// (possibly wrong) shape: Ok / Err(message) / panic
    pub general_into: Result<Vec<u64>, String>,
    pub shape: Vec<usize>,
}

pub trait El: Num + NumCast + PartialOrd + Copy + Debug + Send + ToPrimitive + 'static {
    /// the next representable value above
    fn just_above(self) -> Self;
    /// the negative zero of the type, if it has one
    fn neg_zero() -> Option<Self>;
    /// spacing of the knots in the variant with fold-colliding queries (wide enough for the
    /// upper half of the bit pattern to differ between in-range values)
    fn wide_step() -> f64;
    /// values next to `t` whose bit pattern collides with that of `self` under xor / sum of the two
    /// halves of the pattern, or has the same lower half
    fn fold_companions(self, t: Self) -> Vec<Self>;
}
fn comp64(a: u64, t: u64) -> [u64; 3] {
    let (ha, la, ht) = ((a >> 32) as u32, a as u32, (t >> 32) as u32);
    [ha ^ la ^ ht, ha.wrapping_add(la).wrapping_sub(ht), la].map(|lo| ((ht as u64) << 32) | lo as u64)
}
fn comp32(a: u32, t: u32) -> [u32; 3] {
    let (ha, la, ht) = (a >> 16, a & 0xffff, t >> 16);
    [(ha ^ la ^ ht) & 0xffff, ha.wrapping_add(la).wrapping_sub(ht) & 0xffff, la].map(|lo| (ht << 16) | lo)
}
impl El for f64 {
    fn just_above(self) -> Self {
        self.next_up()
    }
    fn neg_zero() -> Option<Self> {
        Some(-0.0)
    }
    fn wide_step() -> f64 {
        1.0
    }
    fn fold_companions(self, t: Self) -> Vec<Self> {
        comp64(self.to_bits(), t.to_bits()).iter().map(|&b| f64::from_bits(b)).collect()
    }
}
impl El for f32 {
    fn just_above(self) -> Self {
        self.next_up()
    }
    fn neg_zero() -> Option<Self> {
        Some(-0.0)
    }
    fn wide_step() -> f64 {
        1.0
    }
    fn fold_companions(self, t: Self) -> Vec<Self> {
        comp32(self.to_bits(), t.to_bits()).iter().map(|&b| f32::from_bits(b)).collect()
    }
}
impl El for i32 {
    fn just_above(self) -> Self {
        self + 1
    }
    fn neg_zero() -> Option<Self> {
        None
    }
    fn wide_step() -> f64 {
        131072.0
    }
    fn fold_companions(self, t: Self) -> Vec<Self> {
        comp32(self as u32, t as u32).iter().map(|&b| b as i32).collect()
    }
}
impl El for i64 {
    fn just_above(self) -> Self {
        self + 1
    }
    fn neg_zero() -> Option<Self> {
        None
    }
    fn wide_step() -> f64 {
        8589934592.0
    }
    fn fold_companions(self, t: Self) -> Vec<Self> {
        comp64(self as u64, t as u64).iter().map(|&b| b as i64).collect()
    }
}

fn el<T: El>(v: f64) -> T {
    NumCast::from(v).expect("alphabet value representable")
}

/// data shape for a data dimension type: 4 knots (x), 3 (y for 2-D), then trailing axes
fn data_shape(nd: usize, two_d: bool, variant: u8) -> Vec<usize> {
    let base: [usize; 7] = if two_d { [4, 3, 2, 1, 2, 1, 2] } else { [4, 2, 1, 2, 1, 2, 1] };
    let mut s = base[..nd].to_vec();
    // variant 2: a zero-length last trailing axis (no lane at all)
    if variant == 2 && nd > if two_d { 2 } else { 1 } {
        s[nd - 1] = 0;
    }
    s
}

fn mk_data<T: El>(shape: &[usize], variant: u8) -> ArrayD<T> {
    let mut c = 0.0;
    let mut d = ArrayD::from_shape_fn(IxDyn(shape), |_| {
        c += 1.0;
        // integers: multiples of 4 so that halves and quarters stay integral
        el::<T>(((c * 7.0) % 13.0) * 4.0 - 8.0)
    });
    // variant 3: the samples at the first knot (which lies at 0) are negative zeros
    if variant == 3 {
        if let Some(nz) = T::neg_zero() {
            d.index_axis_mut(ndarray::Axis(0), 0).fill(nz);
        }
    }
    d
}

/// query values (exactly representable in every element type) in the runtime shape that
/// belongs to the static query type; `m` logical elements
fn query_shape(dq: &str, m: usize) -> Vec<usize> {
    match dq {
        "Ix0" => vec![],
        "Ix1" => vec![m],
        "Ix2" => vec![m, 1],
        "Ix3" => vec![1, m, 1],
        _ => vec![m], // IxDyn with runtime rank 1
    }
}

fn query_vals<T: El>(dq: &str, hi: f64, salt: usize, variant: u8) -> Vec<T> {
    let all = [0.0, 1.0, hi, 2.0, 1.0, 0.0];
    let m = if dq == "Ix0" { 1 } else { 5 };
    let mut v: Vec<T> = (0..m).map(|i| el::<T>(all[(i + salt) % all.len()].min(hi))).collect();
    // variants 1, 2: one element (not the last one of a batch) is out of range
    if (variant == 1 || variant == 2 || variant == 5) && salt == 0 {
        let p = if m > 1 { 1 } else { 0 };
        v[p] = el::<T>(-5.0);
    }
    // variant 6: two different out-of-range elements (the query is stored back to front)
    if variant == 6 && salt == 0 && m > 3 {
        v[1] = el::<T>(-5.0);
        v[3] = el::<T>(99.0);
    }
    // variant 3: both zeros next to each other (they compare equal but are different queries)
    if variant == 3 {
        if let Some(nz) = T::neg_zero() {
            let pat = [el::<T>(0.0), nz, el::<T>(0.0), nz, el::<T>(1.0)];
            for (i, e) in v.iter_mut().enumerate() {
                *e = pat[(i + salt) % 5];
            }
        }
    }
    // variant 4: one element misses the upper end of the range by the smallest possible amount
    if variant == 4 && salt == 0 {
        let p = if m > 1 { 1 } else { 0 };
        v[p] = el::<T>(hi).just_above();
    }
    v
}

/// variant 7: a batch of 70 in-range values over knots `i * step`: pairs (A, B) next to each other
/// where B lies in another interval than A and collides with it under a fold of the bit pattern,
/// then knots and interior points in turn
fn query_vals_colliding<T: El>(knots: usize, step: f64) -> Vec<T> {
    let float = T::neg_zero().is_some();
    let hi = (knots - 1) as f64 * step;
    let anchors: Vec<f64> = if float { vec![1.0, 0.3, 2.0, 1.7] } else { vec![1.0, 5.0, step + 1.0] };
    let mut v: Vec<T> = vec![];
    for &a in &anchors {
        let a: T = el(a);
        for seg in 0..knots - 1 {
            for off in if float { [0.5, 0.3] } else { [5.0, 77.0] } {
                let t: T = el(seg as f64 * step + off);
                for b in a.fold_companions(t) {
                    let bf = b.to_f64().unwrap_or(f64::NAN);
                    let seg_of = |x: f64| ((x / step).floor() as usize).min(knots - 2);
                    if bf > 0.0 && bf < hi && seg_of(bf) != seg_of(a.to_f64().unwrap()) && b != a && v.len() < 60 {
                        v.push(a);
                        v.push(b);
                    }
                }
            }
        }
    }
    let mut k = 0usize;
    while v.len() < 70 {
        v.push(el::<T>(((k % knots) as f64 * step + if float && k % 2 == 1 { 0.25 } else { 0.0 }).min(hi)));
        k += 1;
    }
    v
}

fn to_bits<T: El, D: Dimension>(a: &Array<T, D>) -> Vec<u64> {
    a.iter().map(|v| v.to_f64().unwrap().to_bits()).collect()
}

macro_rules! st {
    (own, $a:expr) => {
        $a.clone()
    };
    (view, $a:expr) => {
        $a.view()
    };
    (shared, $a:expr) => {
        $a.clone().into_shared()
    };
}
// a different storage kind for the second query array (ys) than for the first
macro_rules! st2 {
    (own, $a:expr) => {
        $a.view()
    };
    (view, $a:expr) => {
        $a.clone().into_shared()
    };
    (shared, $a:expr) => {
        $a.clone()
    };
}

macro_rules! inst1 {
    ($name:ident, $d:ident, $dq:ident, $s:ident, $t:ty) => {
        pub fn $name(variant: u8) -> Option<Rec> {
            let nd = nd_of(stringify!($d), false);
            let shape = data_shape(nd, false, variant);
            let data = mk_data::<$t>(&shape, variant).into_dimensionality::<$d>().expect("data rank");
            let step = if variant == 7 { <$t as El>::wide_step() } else { 1.0 };
            let x: Array1<$t> = (0..shape[0]).map(|i| el::<$t>(i as f64 * step)).collect();
            let qv = if variant == 7 { query_vals_colliding::<$t>(shape[0], step) } else { query_vals::<$t>(stringify!($dq), (shape[0] - 1) as f64, 0, variant) };
            let qs = query_shape(stringify!($dq), qv.len());
            let q = stored::<$t, $dq>(&qs, &qv, variant);
            let Ok(ip) = Interp1DBuilder::new(st!($s, data)).x(st!($s, x)).build() else { return None };
            let qa = st!($s, q);
            verif_hooks::reset_counters();
            let batch = catch(|| ip.interp_array(&qa));
            let casts = verif_hooks::counters().casts;
            let mut expected = qs.clone();
            expected.extend_from_slice(&shape[1..]);
            if variant == 5 && !qs.is_empty() {
                let ax = qs.iter().position(|&l| l > 1).unwrap_or(0);
                expected[ax] += 1; // one row too many
            }
            let mut buf = ArrayD::from_elem(IxDyn(&expected), el::<$t>(0.0));
            verif_hooks::reset_counters();
            let batch_into = catch(|| ip.interp_array_into(&qa, buf.view_mut().into_dimensionality().expect("buffer rank")));
            let casts_into = verif_hooks::counters().casts;
            let singles: Result<Vec<u64>, String> = catch(|| {
                let mut v = vec![];
                for &xq in &qv {
                    v.extend(to_bits(&ip.interp(xq).map_err(|e| e.to_string())?));
                }
                Ok::<_, String>(v)
            })
            .and_then(|r| r);
            // general path with the same logical query: a dynamic-rank query array
            let qd = ArrayD::from_shape_vec(IxDyn(&[qv.len()]), qv.clone()).unwrap();
            let general = catch(|| ip.interp_array(&qd)).and_then(|r| r.map(|a| to_bits(&a)).map_err(|e| e.to_string()));
            let mut gshape = vec![qv.len() + (variant == 5) as usize];
            gshape.extend_from_slice(&shape[1..]);
            let mut gbuf = ArrayD::from_elem(IxDyn(&gshape), el::<$t>(0.0));
            let general_into = catch(|| ip.interp_array_into(&qd, gbuf.view_mut())).and_then(|r| r.map(|_| to_bits(&gbuf)).map_err(|e| e.to_string()));
            let (retained, retained_general) = if variant == 5 {
                (None, None)
            } else {
                (
                    retained(4, || {
                        drop(ip.interp_array(&qa));
                        drop(ip.interp_array_into(&qa, buf.view_mut().into_dimensionality().expect("buffer rank")));
                    }),
                    retained(4, || {
                        drop(ip.interp_array(&qd));
                        drop(ip.interp_array_into(&qd, gbuf.view_mut()));
                    }),
                )
            };
            Some(Rec {
                retained,
                retained_general,
                casts,
                casts_into,
                shape: batch.as_ref().ok().and_then(|r| r.as_ref().ok()).map(|a| a.shape().to_vec()).unwrap_or_default(),
                batch: batch.and_then(|r| r.map(|a| to_bits(&a)).map_err(|e| e.to_string())),
                batch_into: batch_into.and_then(|r| r.map(|_| to_bits(&buf)).map_err(|e| e.to_string())),
                singles,
                general,
                general_into,
            })
        }
    };
}

macro_rules! inst2 {
    ($name:ident, $d:ident, $dq:ident, $s:ident, $t:ty) => {
        pub fn $name(variant: u8) -> Option<Rec> {
            let nd = nd_of(stringify!($d), true);
            let shape = data_shape(nd, true, variant);
            let data = mk_data::<$t>(&shape, variant).into_dimensionality::<$d>().expect("data rank");
            let step = if variant == 7 { <$t as El>::wide_step() } else { 1.0 };
            let x: Array1<$t> = (0..shape[0]).map(|i| el::<$t>(i as f64 * step)).collect();
            let y: Array1<$t> = (0..shape[1]).map(|i| el::<$t>(i as f64 * 2.0)).collect();
            let qxv = if variant == 7 { query_vals_colliding::<$t>(shape[0], step) } else { query_vals::<$t>(stringify!($dq), (shape[0] - 1) as f64, 0, variant) };
            let qyv = if variant == 7 { (0..qxv.len()).map(|k| el::<$t>(((k % shape[1]) as f64 * 2.0).min((shape[1] - 1) as f64 * 2.0))).collect() } else { query_vals::<$t>(stringify!($dq), (shape[1] - 1) as f64 * 2.0, 1, variant) };
            let qs = query_shape(stringify!($dq), qxv.len());
            let qx = stored::<$t, $dq>(&qs, &qxv, variant);
            let qy = stored::<$t, $dq>(&qs, &qyv, variant);
            let Ok(ip) = Interp2DBuilder::new(st!($s, data)).x(st!($s, x)).y(st2!($s, y)).build() else { return None };
            let (qxa, qya) = (st!($s, qx), st2!($s, qy));
            verif_hooks::reset_counters();
            let batch = catch(|| ip.interp_array(&qxa, &qya));
            let casts = verif_hooks::counters().casts;
            let mut expected = qs.clone();
            expected.extend_from_slice(&shape[2..]);
            if variant == 5 && !qs.is_empty() {
                let ax = qs.iter().position(|&l| l > 1).unwrap_or(0);
                expected[ax] += 1; // one row too many
            }
            let mut buf = ArrayD::from_elem(IxDyn(&expected), el::<$t>(0.0));
            verif_hooks::reset_counters();
            let batch_into = catch(|| ip.interp_array_into(&qxa, &qya, buf.view_mut().into_dimensionality().expect("buffer rank")));
            let casts_into = verif_hooks::counters().casts;
            let singles: Result<Vec<u64>, String> = catch(|| {
                let mut v = vec![];
                for (&a, &b) in qxv.iter().zip(&qyv) {
                    v.extend(to_bits(&ip.interp(a, b).map_err(|e| e.to_string())?));
                }
                Ok::<_, String>(v)
            })
            .and_then(|r| r);
            let qxd = ArrayD::from_shape_vec(IxDyn(&[qxv.len()]), qxv.clone()).unwrap();
            let qyd = ArrayD::from_shape_vec(IxDyn(&[qyv.len()]), qyv.clone()).unwrap();
            let general = catch(|| ip.interp_array(&qxd, &qyd)).and_then(|r| r.map(|a| to_bits(&a)).map_err(|e| e.to_string()));
            let mut gshape = vec![qxv.len() + (variant == 5) as usize];
            gshape.extend_from_slice(&shape[2..]);
            let mut gbuf = ArrayD::from_elem(IxDyn(&gshape), el::<$t>(0.0));
            let general_into = catch(|| ip.interp_array_into(&qxd, &qyd, gbuf.view_mut())).and_then(|r| r.map(|_| to_bits(&gbuf)).map_err(|e| e.to_string()));
            let (retained, retained_general) = if variant == 5 {
                (None, None)
            } else {
                (
                    retained(4, || {
                        drop(ip.interp_array(&qxa, &qya));
                        drop(ip.interp_array_into(&qxa, &qya, buf.view_mut().into_dimensionality().expect("buffer rank")));
                    }),
                    retained(4, || {
                        drop(ip.interp_array(&qxd, &qyd));
                        drop(ip.interp_array_into(&qxd, &qyd, gbuf.view_mut()));
                    }),
                )
            };
            Some(Rec {
                retained,
                retained_general,
                casts,
                casts_into,
                shape: batch.as_ref().ok().and_then(|r| r.as_ref().ok()).map(|a| a.shape().to_vec()).unwrap_or_default(),
                batch: batch.and_then(|r| r.map(|a| to_bits(&a)).map_err(|e| e.to_string())),
                batch_into: batch_into.and_then(|r| r.map(|_| to_bits(&buf)).map_err(|e| e.to_string())),
                singles,
                general,
                general_into,
            })
        }
    };
}

/// the query array of a static dimension type; variant 6 stores it back to front (negative stride
/// along the first axis, same logical contents)
fn stored<T: El, D: Dimension>(shape: &[usize], vals: &[T], variant: u8) -> Array<T, D> {
    let mut q = ArrayD::from_shape_vec(IxDyn(shape), vals.to_vec()).unwrap().into_dimensionality::<D>().expect("query rank");
    if variant == 6 && q.ndim() >= 1 {
        for ax in 0..q.ndim() {
            let flipped = q.clone();
            let mut rev = flipped.clone();
            rev.invert_axis(ndarray::Axis(ax));
            // rev holds the elements in reverse logical order (standard layout after to_owned)
            let mut back = rev.as_standard_layout().to_owned();
            back.invert_axis(ndarray::Axis(ax));
            debug_assert!(back == q);
            q = back;
        }
    }
    q
}

fn nd_of(d: &str, two_d: bool) -> usize {
    match d {
        "Ix1" => 1,
        "Ix2" => 2,
        "Ix3" => 3,
        "Ix4" => 4,
        "Ix5" => 5,
        "Ix6" => 6,
        // dynamic: a rank that no static type covers (7) for 1-D, 4 for 2-D
        _ => {
            if two_d {
                4
            } else {
                7
            }
        }
    }
}

#[allow(unused_imports)]
use {Ix0 as _Ix0, Ix1 as _Ix1, Ix2 as _Ix2, Ix3 as _Ix3, Ix4 as _Ix4, Ix5 as _Ix5, Ix6 as _Ix6};

include!("table.rs");

fn body(ctx: &Ctx) -> (Summary, Meta) {
    let jobs: Vec<usize> = (0..TABLE.len()).collect();
    let sum = run_jobs(ctx, "instantiations", &jobs, |&i| TABLE[i].0.to_string(), |&i| {
        let (name0, kind, d, dq, s, t, f) = TABLE[i];
        let mut out = JobOut::default();
      for variant in 0u8..8 {
        if variant == 3 && (t == "i32" || t == "i64") {
            continue; // no signed zero
        }
        if (variant == 5 || variant == 7) && dq == "Ix0" {
            continue; // a single query has no leading buffer axis / is no batch
        }
        let name = format!("{name0}{}", ["", ":one-element-out-of-range", ":zero-lane-data+out-of-range", ":signed-zeros", ":one-element-just-above-the-range", ":buffer-one-row-too-long+out-of-range", ":query-stored-back-to-front+two-out-of-range", ":70-element-batch-with-fold-colliding-values"][variant as usize]);
        let name = name.as_str();
        // (a valid build that fails is C10's finding, not this property's)
        let Some(r) = f(variant) else {
            out.count("skipped:build_of_valid_input_failed", 1);
            continue;
        };
        out.evals += 1;
        out.states += 1;
        out.transitions += 4;
        let want_casts: u64 = if dq == "Ix1" {
            if kind == "1" {
                2
            } else {
                3
            }
        } else {
            0
        };
        if want_casts > 0 {
            out.nontrivial += 1;
        }
        out.outcome(format!("Interp{kind}D:query={dq}:casts={}", r.casts));
        let case = || {
            Json::obj(vec![
                ("instantiation", Json::str(name)),
                ("interpolator", Json::str(&format!("Interp{kind}D"))),
                ("data_dim", Json::str(d)),
                ("query_dim", Json::str(dq)),
                ("storage", Json::str(s)),
                ("element", Json::str(t)),
                ("casts_executed", Json::Int(r.casts as i128)),
                ("casts_expected", Json::Int(want_casts as i128)),
            ])
        };
        // a failed type-identity assertion inside cast_unchecked surfaces as a panic
        for (what, res) in [("interp_array", &r.batch), ("interp_array_into", &r.batch_into)] {
            if variant == 5 && what == "interp_array_into" {
                continue; // judged below: same class as the general path
            }
            if let Err(p) = res {
                if variant >= 1 && variant != 3 && variant != 7 && !p.contains("cast_unchecked") && !p.contains("panicked") && p.contains("not in range") {
                    continue; // the expected OutOfBounds error
                }
                let is_cast = p.contains("cast_unchecked between different types");
                out.violate(
                    format!("{name}:{what}:{}", if is_cast { "cast" } else { "fail" }),
                    if is_cast { format!("{what}: the unchecked cast was executed between different types: {p}") } else { format!("{what} did not succeed: {p}") },
                    case(),
                );
            }
        }
        // The number of executed casts is an observation (is the fast path taken, and only for
        // Ix1?), not a verdict: a cast between different types is reported by the monitor itself.
        if r.casts != want_casts || r.casts_into != want_casts {
            out.count("instantiations_with_an_unexpected_number_of_casts", 1);
        }
        // fast path == per-element path == general batch path, bit for bit
        if let (Ok(b), Ok(sg)) = (&r.batch, &r.singles) {
            if b != sg {
                out.violate(format!("{name}:vs-singles"), "interp_array differs from element-wise interp".to_string(), case());
            }
        }
        if let (Ok(b), Ok(g)) = (&r.batch, &r.general) {
            if b != g {
                out.violate(format!("{name}:vs-general"), "the result differs from the general path (dynamic rank-1 query with the same contents)".to_string(), case());
            }
        }
        if let (Ok(b), Ok(bi)) = (&r.batch, &r.batch_into) {
            if b != bi {
                out.violate(format!("{name}:vs-into"), "interp_array differs from interp_array_into".to_string(), case());
            }
        }
        // the *_into form of the fast path against the *_into form of the general path: same class
        // (Ok / Err / panic), same bits when Ok
        {
            let class = |x: &Result<Vec<u64>, String>| match x {
                Ok(_) => "Ok",
                Err(e) if e.contains("not in range") && !e.contains("panicked") && !e.contains(" @ ") => "Err(OutOfBounds)",
                Err(_) => "panic",
            };
            if class(&r.batch_into) != class(&r.general_into) || (variant != 5 && r.batch_into.is_ok() && r.batch_into != r.general_into) {
                out.violate(
                    format!("{name}:into-vs-general-into"),
                    format!("interp_array_into: {} for the static query type, {} for a dynamic rank-1 query with the same contents and the same buffer shape", class(&r.batch_into), class(&r.general_into)),
                    case(),
                );
            }
        }
        // unobservable except in speed: what the calls leave behind on the heap is the same
        if let (Some(a), Some(g)) = (r.retained, r.retained_general) {
            out.evals += 1;
            out.outcome(format!("retained-heap:{}", if a == g { "same" } else { "differs" }));
            if a != g {
                out.violate(
                    format!("{name}:retained-heap"),
                    format!("8 calls with the static query type leave {a} bytes of heap allocated, the same calls with a dynamic rank-1 query {g} bytes"),
                    case(),
                );
            }
        }
        if variant >= 1 && variant != 3 && variant != 5 && variant != 7 {
            // with an out-of-range element all paths must agree on the verdict (message included)
            let v = |x: &Result<Vec<u64>, String>| x.as_ref().map(|_| ()).map_err(|e| e.clone());
            if v(&r.batch) != v(&r.singles) || v(&r.batch) != v(&r.general) || v(&r.batch) != v(&r.batch_into) {
                out.violate(
                    format!("{name}:verdicts"),
                    format!("fast path / general path / element-wise path disagree: interp_array {:?}, interp_array_into {:?}, dynamic-rank query {:?}, element-wise {:?}", v(&r.batch), v(&r.batch_into), v(&r.general), v(&r.singles)),
                    case(),
                );
            }
        } else if (variant == 0 || variant == 3 || variant == 7) && (r.singles.is_err() || r.general.is_err()) {
            out.violate(format!("{name}:reference"), format!("reference paths failed: {:?} / {:?}", r.singles.as_ref().err(), r.general.as_ref().err()), case());
        }
        if out.sample.is_none() {
            out.sample = Some(case());
        }
      }
        out
    });
    let mut sum = sum;
    sum.merge(run_jobs(ctx, "edge-knot-batches", &[0usize, 1, 2, 3], |f| format!("edge-knots:family{f}"), |f| {
        let mut out = JobOut::default();
        nimc::subj::edge_knot_batches(&mut out, *f);
        out.sample = Some(Json::str(&format!("knot family {f}: subsets of 4..6 of 10 round knots")));
        out
    }));
    let meta = Meta {
        rule: "every instantiation of {data Ix1..Ix6, IxDyn} x {query Ix0, Ix1, Ix2 (m,1), Ix3 (1,m,1), IxDyn of runtime rank 1} x {owned, view, shared storage of data, axes and queries; in 2-D xs and ys (and x, y) get different storage kinds} x {f64, f32, i32, i64} x {Interp1D, Interp2D} is executed with Linear / Bilinear. The hook inside cast_unchecked asserts type_name / size / align equality on every executed cast and counts them: 2 (Interp1D) / 3 (Interp2D) casts iff the static query type is Ix1, 0 otherwise, for interp_array and interp_array_into alike; outputs of the fast path, of element-wise interp and of the general path (dynamic rank-1 query) are bit-identical. Each instantiation is run eight times (the eighth: a batch of 70 in-range values in which pairs of neighbours lie in different intervals but collide under xor / sum of the halves of their bit pattern or share the lower half; integer axes are spaced 2^17 / 2^33 apart for that): all queries in range; one (not the last) element out of range; data with a zero-length last trailing axis plus an out-of-range element; +0.0 and -0.0 queries next to each other on data whose first-knot samples are -0.0 (float types); one element one ulp (one unit) above the last knot; a buffer with one row too many plus an out-of-range element (fast and general *_into must fail in the same way); the query stored back to front (negative stride) with two different out-of-range elements - the verdicts (Ok / the OutOfBounds message) of all paths must agree. A counting allocator (per thread) compares the heap bytes still held after 8 further calls with the static query type and with the dynamic query (results dropped): they must be equal. Phase edge-knot-batches (shared with C09): on 2688 axes with knots at round positions the fast path (static rank-1 batch), the general path (dynamic rank-1 batch) and single queries before and after the batches agree bit for bit. Non-trivial = instantiation whose static query type is Ix1 (the cast is executed).".into(),
        bounds: format!("{} instantiations (the whole finite table)", TABLE.len()),
        assumptions: vec!["type_name equality is a monitor for type identity, not a UB detector".into()],
        extra: vec![],
    };
    (sum, meta)
}

fn main() {
    main_with("C19", body)
}
