//! A facade over `std` for the *instrumented build* of ndarray-interp (C17 schedules).
//!
//! The instrumented copy of the crate starts with `extern crate verif_std as std;`, so every
//! `std::...` path of the crate resolves here. Everything is the real `std`, except the
//! synchronisation primitives, which are shuttle's: each atomic access and each lock operation is
//! a scheduling point of the controlled scheduler. Code that uses none of them is unchanged.
//!
//! `std::cell::{Cell, RefCell, UnsafeCell}` are wrapped as well (module `cell`): each access calls a
//! function the harness installs, which makes it a scheduling point - cells that the crate shares
//! between threads behind an `unsafe impl Sync` are interleaved like atomics.
//!
//! Not intercepted: the `thread_local!` macro (it comes from the macro prelude, not from a `std::`
//! path), `core::` / `alloc::` paths, and accesses through raw pointers.

pub use ::std::*;

/// `thread_local!` with one instance per simulated thread (tools/instrument.sh rewrites the
/// crate's `thread_local!` invocations to this)
pub use ::shuttle::thread_local as task_local;

pub mod sync {
    pub use ::std::sync::*;

    pub use ::shuttle::sync::{
        Barrier, BarrierWaitResult, Condvar, Mutex, MutexGuard, Once, OnceState, RwLock, RwLockReadGuard, RwLockWriteGuard,
    };

    pub mod atomic {
        pub use ::shuttle::sync::atomic::*;
    }

    /// `OnceLock` on top of shuttle's `Once` (std's would block the single OS thread)
    pub struct OnceLock<T> {
        once: Once,
        value: ::std::cell::UnsafeCell<Option<T>>,
    }
    unsafe impl<T: Send + Sync> Sync for OnceLock<T> {}
    unsafe impl<T: Send> Send for OnceLock<T> {}
    impl<T> OnceLock<T> {
        pub const fn new() -> Self {
            OnceLock { once: Once::new(), value: ::std::cell::UnsafeCell::new(None) }
        }
        pub fn get(&self) -> Option<&T> {
            if self.once.is_completed() {
                unsafe { (*self.value.get()).as_ref() }
            } else {
                None
            }
        }
        pub fn get_or_init<F: FnOnce() -> T>(&self, f: F) -> &T {
            self.once.call_once(|| unsafe { *self.value.get() = Some(f()) });
            unsafe { (*self.value.get()).as_ref().unwrap() }
        }
        pub fn set(&self, value: T) -> Result<(), T> {
            let mut v = Some(value);
            self.once.call_once(|| unsafe { *self.value.get() = v.take() });
            match v {
                None => Ok(()),
                Some(v) => Err(v),
            }
        }
        pub fn into_inner(self) -> Option<T> {
            self.value.into_inner()
        }
    }
    impl<T> Default for OnceLock<T> {
        fn default() -> Self {
            Self::new()
        }
    }
    impl<T: ::std::fmt::Debug> ::std::fmt::Debug for OnceLock<T> {
        fn fmt(&self, f: &mut ::std::fmt::Formatter<'_>) -> ::std::fmt::Result {
            f.debug_tuple("OnceLock").field(&self.get()).finish()
        }
    }

    /// `LazyLock` on top of [`OnceLock`]
    pub struct LazyLock<T, F = fn() -> T> {
        cell: OnceLock<T>,
        init: F,
    }
    impl<T, F: Fn() -> T> LazyLock<T, F> {
        pub const fn new(f: F) -> Self {
            LazyLock { cell: OnceLock::new(), init: f }
        }
        pub fn force(this: &Self) -> &T {
            this.cell.get_or_init(|| (this.init)())
        }
    }
    impl<T, F: Fn() -> T> ::std::ops::Deref for LazyLock<T, F> {
        type Target = T;
        fn deref(&self) -> &T {
            Self::force(self)
        }
    }
}

pub mod thread {
    pub use ::std::thread::*;

    pub use ::shuttle::thread::{current, park, sleep, spawn, yield_now, JoinHandle, Thread, ThreadId};

    // ---- scoped threads on top of shuttle's threads ----------------------------------------------
    // (std's `scope` would start OS threads outside the scheduler; the lifetimes are erased the way
    // scoped-thread libraries do it: every thread is joined before `scope` returns)

    type Slot<T> = ::std::sync::Arc<::std::sync::Mutex<Option<::std::thread::Result<T>>>>;
    type Handle = ::std::sync::Arc<::std::sync::Mutex<Option<JoinHandle<()>>>>;

    pub struct Scope<'scope, 'env: 'scope> {
        handles: ::std::sync::Mutex<Vec<(Handle, Box<dyn Fn() -> bool + Send + 'static>)>>,
        _scope: ::std::marker::PhantomData<&'scope mut &'scope ()>,
        _env: ::std::marker::PhantomData<&'env mut &'env ()>,
    }

    pub struct ScopedJoinHandle<'scope, T> {
        slot: Slot<T>,
        handle: Handle,
        _scope: ::std::marker::PhantomData<&'scope ()>,
    }

    impl<'scope, T> ScopedJoinHandle<'scope, T> {
        pub fn join(self) -> ::std::thread::Result<T> {
            let h = self.handle.lock().unwrap().take();
            if let Some(h) = h {
                let _ = h.join();
            }
            let r = self.slot.lock().unwrap().take();
            r.expect("scoped thread finished without a result")
        }
        pub fn is_finished(&self) -> bool {
            self.slot.lock().unwrap().is_some()
        }
    }

    impl<'scope, 'env> Scope<'scope, 'env> {
        pub fn spawn<F, T>(&'scope self, f: F) -> ScopedJoinHandle<'scope, T>
        where
            F: FnOnce() -> T + Send + 'scope,
            T: Send + 'scope,
        {
            let slot: Slot<T> = ::std::sync::Arc::new(::std::sync::Mutex::new(None));
            let (slot2, slot3) = (slot.clone(), slot.clone());
            let body: Box<dyn FnOnce() + Send + 'scope> = Box::new(move || {
                let r = ::std::panic::catch_unwind(::std::panic::AssertUnwindSafe(f));
                *slot2.lock().unwrap() = Some(r);
            });
            // a panic whose result nobody fetched with `join` makes `scope` panic
            let unfetched_panic: Box<dyn Fn() -> bool + Send + 'scope> = Box::new(move || matches!(&*slot3.lock().unwrap(), Some(Err(_))));
            let unfetched_panic: Box<dyn Fn() -> bool + Send + 'static> = unsafe { ::std::mem::transmute(unfetched_panic) };
            // Safety: `scope` joins every thread it has spawned before it returns, so nothing
            // borrowed for 'scope is used after the end of 'scope.
            let body: Box<dyn FnOnce() + Send + 'static> = unsafe { ::std::mem::transmute(body) };
            let handle: Handle = ::std::sync::Arc::new(::std::sync::Mutex::new(Some(spawn(body))));
            self.handles.lock().unwrap().push((handle.clone(), unfetched_panic));
            ScopedJoinHandle { slot, handle, _scope: ::std::marker::PhantomData }
        }
    }

    pub fn scope<'env, F, T>(f: F) -> T
    where
        F: for<'scope> FnOnce(&'scope Scope<'scope, 'env>) -> T,
    {
        let s = Scope {
            handles: ::std::sync::Mutex::new(vec![]),
            _scope: ::std::marker::PhantomData,
            _env: ::std::marker::PhantomData,
        };
        let r = ::std::panic::catch_unwind(::std::panic::AssertUnwindSafe(|| f(&s)));
        let mut unjoined_panic = false;
        loop {
            let next = s.handles.lock().unwrap().pop();
            let Some((h, unfetched_panic)) = next else { break };
            let h = h.lock().unwrap().take();
            if let Some(h) = h {
                let _ = h.join();
            }
            unjoined_panic |= unfetched_panic();
        }
        match r {
            Err(e) => ::std::panic::resume_unwind(e),
            Ok(_) if unjoined_panic => panic!("a scoped thread panicked"),
            Ok(v) => v,
        }
    }
}


/// `std::cell` with the interior-mutability types wrapped: every access is announced to a function
/// the harness installs (a scheduling point), so that cells which the crate shares between threads
/// behind an `unsafe impl Sync` are interleaved like atomics. Without an installed function the
/// types behave exactly like std's. Feature `plain_cells` switches the wrapping off (std's types,
/// no points): the fallback when a source tree does not compile against the wrappers, e.g. because it
/// uses the `LocalKey<Cell<T>>::get / set` shorthands that only exist for std's own `Cell`.
#[cfg(feature = "plain_cells")]
pub mod cell {
    pub use ::std::cell::*;
    pub const WRAPPED: bool = false;
    pub fn install_point(_f: fn(&'static str)) -> bool {
        true
    }
}

#[cfg(not(feature = "plain_cells"))]
pub mod cell {
    pub const WRAPPED: bool = true;
    pub use ::std::cell::{BorrowError, BorrowMutError, LazyCell, OnceCell, Ref, RefMut};
    use ::std::sync::atomic::{AtomicUsize, Ordering};

    static POINT: AtomicUsize = AtomicUsize::new(0);

    /// install the function called before every cell access; `false` if one was installed already
    pub fn install_point(f: fn(&'static str)) -> bool {
        POINT.compare_exchange(0, f as usize, Ordering::SeqCst, Ordering::SeqCst).is_ok()
    }

    #[inline]
    fn point(label: &'static str) {
        let p = POINT.load(Ordering::SeqCst);
        if p != 0 {
            let f: fn(&'static str) = unsafe { ::std::mem::transmute::<usize, fn(&'static str)>(p) };
            f(label)
        }
    }

    #[derive(Default)]
    #[repr(transparent)]
    pub struct Cell<T: ?Sized>(::std::cell::Cell<T>);
    impl<T> Cell<T> {
        pub const fn new(v: T) -> Self {
            Cell(::std::cell::Cell::new(v))
        }
        pub fn set(&self, v: T) {
            point("Cell::set");
            self.0.set(v)
        }
        pub fn replace(&self, v: T) -> T {
            point("Cell::replace");
            self.0.replace(v)
        }
        pub fn swap(&self, other: &Self) {
            point("Cell::swap");
            self.0.swap(&other.0)
        }
        pub fn into_inner(self) -> T {
            self.0.into_inner()
        }
    }
    impl<T: Copy> Cell<T> {
        pub fn get(&self) -> T {
            point("Cell::get");
            self.0.get()
        }
        pub fn update(&self, f: impl FnOnce(T) -> T) {
            let old = self.get();
            self.set(f(old));
        }
    }
    impl<T: Default> Cell<T> {
        pub fn take(&self) -> T {
            point("Cell::take");
            self.0.take()
        }
    }
    impl<T: ?Sized> Cell<T> {
        pub const fn as_ptr(&self) -> *mut T {
            self.0.as_ptr()
        }
        pub fn get_mut(&mut self) -> &mut T {
            self.0.get_mut()
        }
    }
    impl<T: Copy> Clone for Cell<T> {
        fn clone(&self) -> Self {
            Cell::new(self.get())
        }
    }
    impl<T: Copy + ::std::fmt::Debug> ::std::fmt::Debug for Cell<T> {
        fn fmt(&self, f: &mut ::std::fmt::Formatter<'_>) -> ::std::fmt::Result {
            self.0.fmt(f)
        }
    }
    impl<T: Copy + PartialEq> PartialEq for Cell<T> {
        fn eq(&self, o: &Self) -> bool {
            self.get() == o.get()
        }
    }
    impl<T: Copy + Eq> Eq for Cell<T> {}
    impl<T: Copy + PartialOrd> PartialOrd for Cell<T> {
        fn partial_cmp(&self, o: &Self) -> Option<::std::cmp::Ordering> {
            self.get().partial_cmp(&o.get())
        }
    }
    impl<T> From<T> for Cell<T> {
        fn from(v: T) -> Self {
            Cell::new(v)
        }
    }

    #[derive(Default)]
    pub struct RefCell<T: ?Sized>(::std::cell::RefCell<T>);
    impl<T> RefCell<T> {
        pub const fn new(v: T) -> Self {
            RefCell(::std::cell::RefCell::new(v))
        }
        pub fn into_inner(self) -> T {
            self.0.into_inner()
        }
        pub fn replace(&self, v: T) -> T {
            point("RefCell::replace");
            self.0.replace(v)
        }
        pub fn replace_with<F: FnOnce(&mut T) -> T>(&self, f: F) -> T {
            point("RefCell::replace_with");
            self.0.replace_with(f)
        }
        pub fn swap(&self, other: &Self) {
            point("RefCell::swap");
            self.0.swap(&other.0)
        }
    }
    impl<T: Default> RefCell<T> {
        pub fn take(&self) -> T {
            point("RefCell::take");
            self.0.take()
        }
    }
    impl<T: ?Sized> RefCell<T> {
        pub fn borrow(&self) -> Ref<'_, T> {
            point("RefCell::borrow");
            self.0.borrow()
        }
        pub fn try_borrow(&self) -> Result<Ref<'_, T>, BorrowError> {
            point("RefCell::try_borrow");
            self.0.try_borrow()
        }
        pub fn borrow_mut(&self) -> RefMut<'_, T> {
            point("RefCell::borrow_mut");
            self.0.borrow_mut()
        }
        pub fn try_borrow_mut(&self) -> Result<RefMut<'_, T>, BorrowMutError> {
            point("RefCell::try_borrow_mut");
            self.0.try_borrow_mut()
        }
        pub fn as_ptr(&self) -> *mut T {
            self.0.as_ptr()
        }
        pub fn get_mut(&mut self) -> &mut T {
            self.0.get_mut()
        }
    }
    impl<T: Clone> Clone for RefCell<T> {
        fn clone(&self) -> Self {
            RefCell::new(self.borrow().clone())
        }
    }
    impl<T: ?Sized + ::std::fmt::Debug> ::std::fmt::Debug for RefCell<T> {
        fn fmt(&self, f: &mut ::std::fmt::Formatter<'_>) -> ::std::fmt::Result {
            self.0.fmt(f)
        }
    }
    impl<T: ?Sized + PartialEq> PartialEq for RefCell<T> {
        fn eq(&self, o: &Self) -> bool {
            *self.borrow() == *o.borrow()
        }
    }
    impl<T> From<T> for RefCell<T> {
        fn from(v: T) -> Self {
            RefCell::new(v)
        }
    }

    /// the access through the raw pointer follows the call of `get`: the point before `get` is the
    /// closest the facade can come to it
    #[derive(Default)]
    #[repr(transparent)]
    pub struct UnsafeCell<T: ?Sized>(::std::cell::UnsafeCell<T>);
    impl<T> UnsafeCell<T> {
        pub const fn new(v: T) -> Self {
            UnsafeCell(::std::cell::UnsafeCell::new(v))
        }
        pub fn into_inner(self) -> T {
            self.0.into_inner()
        }
    }
    impl<T: ?Sized> UnsafeCell<T> {
        pub fn get(&self) -> *mut T {
            point("UnsafeCell::get");
            self.0.get()
        }
        pub fn get_mut(&mut self) -> &mut T {
            self.0.get_mut()
        }
        pub fn raw_get(this: *const Self) -> *mut T {
            point("UnsafeCell::raw_get");
            ::std::cell::UnsafeCell::raw_get(this as *const ::std::cell::UnsafeCell<T>)
        }
    }
    impl<T: ?Sized> ::std::fmt::Debug for UnsafeCell<T> {
        fn fmt(&self, f: &mut ::std::fmt::Formatter<'_>) -> ::std::fmt::Result {
            f.debug_struct("UnsafeCell").finish_non_exhaustive()
        }
    }
    impl<T> From<T> for UnsafeCell<T> {
        fn from(v: T) -> Self {
            UnsafeCell::new(v)
        }
    }
}
