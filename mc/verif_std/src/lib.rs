//! A facade over `std` for the *instrumented build* of ndarray-interp (C17 schedules).
//!
//! The instrumented copy of the crate starts with `extern crate verif_std as std;`, so every
//! `std::...` path of the crate resolves here. Everything is the real `std`, except the
//! synchronisation primitives, which are shuttle's: each atomic access and each lock operation is
//! a scheduling point of the controlled scheduler. Code that uses none of them is unchanged.
//!
//! Not intercepted: the `thread_local!` macro (it comes from the macro prelude, not from a `std::`
//! path) and `std::cell` types (not `Sync`: their use is caught by the Send/Sync probe).

pub use ::std::*;

pub mod sync {
    pub use ::std::sync::*;

    pub use ::shuttle::sync::{
        Barrier, BarrierWaitResult, Condvar, Mutex, MutexGuard, Once, OnceState, RwLock, RwLockReadGuard, RwLockWriteGuard,
    };

    pub mod atomic {
        pub use ::shuttle::sync::atomic::*;
    }

    /// `OnceLock` on top of shuttle's `Once` (std's would block the single OS thread)
    pub struct OnceLock<T> {
        once: Once,
        value: ::std::cell::UnsafeCell<Option<T>>,
    }
    unsafe impl<T: Send + Sync> Sync for OnceLock<T> {}
    unsafe impl<T: Send> Send for OnceLock<T> {}
    impl<T> OnceLock<T> {
        pub const fn new() -> Self {
            OnceLock { once: Once::new(), value: ::std::cell::UnsafeCell::new(None) }
        }
        pub fn get(&self) -> Option<&T> {
            if self.once.is_completed() {
                unsafe { (*self.value.get()).as_ref() }
            } else {
                None
            }
        }
        pub fn get_or_init<F: FnOnce() -> T>(&self, f: F) -> &T {
            self.once.call_once(|| unsafe { *self.value.get() = Some(f()) });
            unsafe { (*self.value.get()).as_ref().unwrap() }
        }
        pub fn set(&self, value: T) -> Result<(), T> {
            let mut v = Some(value);
            self.once.call_once(|| unsafe { *self.value.get() = v.take() });
            match v {
                None => Ok(()),
                Some(v) => Err(v),
            }
        }
        pub fn into_inner(self) -> Option<T> {
            self.value.into_inner()
        }
    }
    impl<T> Default for OnceLock<T> {
        fn default() -> Self {
            Self::new()
        }
    }
    impl<T: ::std::fmt::Debug> ::std::fmt::Debug for OnceLock<T> {
        fn fmt(&self, f: &mut ::std::fmt::Formatter<'_>) -> ::std::fmt::Result {
            f.debug_tuple("OnceLock").field(&self.get()).finish()
        }
    }

    /// `LazyLock` on top of [`OnceLock`]
    pub struct LazyLock<T, F = fn() -> T> {
        cell: OnceLock<T>,
        init: F,
    }
    impl<T, F: Fn() -> T> LazyLock<T, F> {
        pub const fn new(f: F) -> Self {
            LazyLock { cell: OnceLock::new(), init: f }
        }
        pub fn force(this: &Self) -> &T {
            this.cell.get_or_init(|| (this.init)())
        }
    }
    impl<T, F: Fn() -> T> ::std::ops::Deref for LazyLock<T, F> {
        type Target = T;
        fn deref(&self) -> &T {
            Self::force(self)
        }
    }
}

pub mod thread {
    pub use ::std::thread::*;

    pub use ::shuttle::thread::{current, park, sleep, spawn, yield_now, JoinHandle, Thread, ThreadId};
}
