//! C17 (c'): schedule exploration on the *instrumented* build of ndarray-interp.
//!
//! The subject here is the crate's current source built with `extern crate verif_std as std;`
//! (tools/instrument.sh): every atomic access and every lock operation of the crate is a scheduling
//! point of shuttle, in addition to the hook points. Programs are explored by depth-first search:
//! every interleaving when their number fits the budget, otherwise every schedule with at most two
//! preemptions. Results are reported on stdout as `C17S-...` lines which the C17 check merges.

use std::cell::Cell;
use std::sync::{Arc, Mutex};

use ndarray::{Array1, Array2, Array3};
use ndarray_interp::interp1d::cubic_spline::CubicSpline;
use ndarray_interp::interp1d::{Interp1DBuilder, Linear};
use ndarray_interp::interp2d::{Bilinear, Interp2DBuilder};
use ndarray_interp::verif_hooks;

type Out = Result<Vec<u64>, String>;

fn bits<'a>(it: impl Iterator<Item = &'a f64>) -> Vec<u64> {
    it.map(|v| if v.is_nan() { u64::MAX } else { v.to_bits() }).collect()
}

const AX: [f64; 5] = [0.1, 3.1, 6.1, 9.1, 12.1];
const AY: [f64; 4] = [0.3, 1.0, 2.3, 4.0];

fn long_axis() -> Vec<f64> {
    (0..70).map(|i| 0.1 + i as f64 * 0.3 + if i % 3 == 1 { 0.07 } else { 0.0 }).collect()
}

fn data1(n: usize) -> Array2<f64> {
    Array2::from_shape_fn((n, 2), |(i, j)| ((i * 2 + j) as f64 * 0.37).sin() + 0.1 * i as f64 + if j == 1 { 1.0 / 3.0 } else { 0.0 })
}
fn data2() -> Array3<f64> {
    Array3::from_shape_fn((5, 4, 2), |(i, j, k)| ((i * 4 + j) as f64 * 0.37).sin() * (1.0 + k as f64) + 0.1 * i as f64)
}

trait Subject: Send + Sync {
    fn op(&self, op: usize) -> Out;
}

/// queries of the ops: 0 knot, 1 just left of that knot, 2 other interval, 3 out of range,
/// 4 batch [left of knot, knot, first interval], 6 another value out of range
fn q1(x: &[f64]) -> [f64; 5] {
    let k = x.len() / 2;
    [x[k], x[k - 1] + 0.75 * (x[k] - x[k - 1]), x[x.len() - 2] + 0.4 * (x[x.len() - 1] - x[x.len() - 2]), x[x.len() - 1] + 100.0, x[0] + 0.2 * (x[1] - x[0])]
}

macro_rules! subject_1d {
    ($name:ident, $ty:ty) => {
        struct $name {
            ip: $ty,
            x: Vec<f64>,
        }
        impl Subject for $name {
            fn op(&self, op: usize) -> Out {
                let q = q1(&self.x);
                match op {
                    0..=3 => self.ip.interp(q[op]).map(|a| bits(a.iter())).map_err(|e| e.to_string()),
                    6 => self.ip.interp(self.x[0] - 41.3).map(|a| bits(a.iter())).map_err(|e| e.to_string()),
                    7 | 8 => {
                        // a batch of 2^15 + 3 elements (code that hands long batches to worker threads),
                        // op 8 with an element out of range near the start; answer = digest of every value
                        let n = self.x.len();
                        let mut big: Vec<f64> = (0..(1usize << 15) + 3).map(|k| self.x[k % (n - 1)] + (0.11 + 0.013 * (k % 7) as f64) * (self.x[k % (n - 1) + 1] - self.x[k % (n - 1)])).collect();
                        if op == 8 {
                            big[5] = self.x[n - 1] + 100.0;
                        }
                        self.ip.interp_array(&Array1::from(big)).map(|a| {
                            let mut h = 0xcbf29ce484222325u64;
                            for v in a.iter() {
                                h = (h ^ v.to_bits()).wrapping_mul(0x100000001b3);
                            }
                            let mut d = bits(a.iter().take(4));
                            d.push(h);
                            d.push(a.len() as u64);
                            d
                        }).map_err(|e| e.to_string())
                    }
                    5 => {
                        // a long batch (1100 in-range elements): code that treats long batches specially
                        let n = self.x.len();
                        let big: Vec<f64> = (0..1100).map(|k| self.x[k % (n - 1)] + 0.37 * (self.x[k % (n - 1) + 1] - self.x[k % (n - 1)])).collect();
                        self.ip.interp_array(&Array1::from(big)).map(|a| bits(a.iter().take(8))).map_err(|e| e.to_string())
                    }
                    _ => self.ip.interp_array(&Array1::from(vec![q[1], q[0], q[4]])).map(|a| bits(a.iter())).map_err(|e| e.to_string()),
                }
            }
        }
    };
}
subject_1d!(SLin, ndarray_interp::interp1d::Interp1DVec<f64, Linear>);
subject_1d!(SSpl, ndarray_interp::interp1d::Interp1DVec<f64, ndarray_interp::interp1d::cubic_spline::CubicSplineStrategy<ndarray::OwnedRepr<f64>, ndarray::Ix2>>);

struct SBil {
    ip: ndarray_interp::interp2d::Interp2DVec<f64, Bilinear>,
}
impl Subject for SBil {
    fn op(&self, op: usize) -> Out {
        let q = q1(&AX);
        let ys = [AY[1], AY[0] + 0.9 * (AY[1] - AY[0]), AY[1] + 0.3 * (AY[2] - AY[1]), AY[1], AY[2]];
        match op {
            0..=3 => self.ip.interp(q[op], ys[op]).map(|a| bits(a.iter())).map_err(|e| e.to_string()),
            6 => self.ip.interp(AX[0] - 41.3, ys[0]).map(|a| bits(a.iter())).map_err(|e| e.to_string()),
            _ => self
                .ip
                .interp_array(&Array1::from(vec![q[1], q[0], q[4]]), &Array1::from(vec![ys[1], ys[0], ys[2]]))
                .map(|a| bits(a.iter()))
                .map_err(|e| e.to_string()),
        }
    }
}

const KINDS: [&str; 5] = ["Linear", "CubicSpline/NotAKnot", "Bilinear", "Linear+extrapolate/long axis (70 knots)", "CubicSpline/Periodic+extrapolate"];

fn build(kind: usize) -> Box<dyn Subject> {
    match kind {
        0 => Box::new(SLin { ip: Interp1DBuilder::new(data1(5)).x(Array1::from(AX.to_vec())).strategy(Linear::new()).build().expect("valid"), x: AX.to_vec() }),
        1 => Box::new(SSpl { ip: Interp1DBuilder::new(data1(5)).x(Array1::from(AX.to_vec())).strategy(CubicSpline::new()).build().expect("valid"), x: AX.to_vec() }),
        2 => Box::new(SBil { ip: Interp2DBuilder::new(data2()).x(Array1::from(AX.to_vec())).y(Array1::from(AY.to_vec())).strategy(Bilinear::new()).build().expect("valid") }),
        3 => {
            let x = long_axis();
            Box::new(SLin { ip: Interp1DBuilder::new(data1(70)).x(Array1::from(x.clone())).strategy(Linear::new().extrapolate(true)).build().expect("valid"), x })
        }
        _ => {
            let mut d = data1(5);
            for j in 0..2 {
                d[[4, j]] = d[[0, j]];
            }
            Box::new(SSpl {
                ip: Interp1DBuilder::new(d)
                    .x(Array1::from(AX.to_vec()))
                    .strategy(CubicSpline::new().boundary(ndarray_interp::interp1d::cubic_spline::BoundaryCondition::Periodic).extrapolate(true))
                    .build()
                    .expect("valid"),
                x: AX.to_vec(),
            })
        }
    }
}

thread_local! {
    static POINTS: Cell<u64> = const { Cell::new(0) };
    static COUNTING: Cell<bool> = const { Cell::new(false) };
    static EXPLORING: Cell<bool> = const { Cell::new(false) };
    /// programs with the 2^15-element batches run without the hook points (one per query element
    /// would be 10^5 decisions): atomics, locks, cells, spawn and join remain scheduling points
    static NO_HOOKS: Cell<bool> = const { Cell::new(false) };
}

fn sched_hook(_l: &'static str) {
    if NO_HOOKS.with(|c| c.get()) {
        return;
    }
    if COUNTING.with(|c| c.get()) {
        POINTS.with(|c| c.set(c.get() + 1));
    } else if EXPLORING.with(|c| c.get()) {
        // (only on the OS thread that runs executions: threads the crate may start itself are
        // outside the scheduler and must not call into it)
        shuttle::thread::yield_now();
    }
}

fn interleavings(segments: &[u64]) -> f64 {
    let mut r = 1.0f64;
    let mut total = 0u64;
    for &a in segments {
        for i in 1..=a {
            total += 1;
            r = r * total as f64 / i as f64;
        }
    }
    r
}

struct Program {
    kind: usize,
    threads: Vec<Vec<usize>>,
    /// short-lived threads (one query each) started and joined after the first thread has been
    /// started and before the others are: per-thread slots handed out by a counter collide when two
    /// live threads are a multiple of the table size apart
    fillers: usize,
}

fn main() {
    let quick = !std::env::args().any(|a| a == "thorough");
    let only: Option<String> = std::env::args().skip_while(|a| a != "--only-key").nth(1);
    std::env::set_var("SHUTTLE_SILENCE_WARNINGS", "1");
    // One process per slice of the programs, each exploring on a single OS thread: shuttle's atomics
    // are not thread safe across executions, so a `static` atomic of the crate must never be touched
    // by two explorations at once (it would fail inside shuttle, not inside the crate).
    let slice: Option<(usize, usize)> = std::env::args().skip_while(|a| a != "--slice").nth(1).and_then(|s| s.split_once('/').map(|(a, b)| (a.parse().unwrap(), b.parse().unwrap())));
    if slice.is_none() && only.is_none() {
        let n: usize = std::env::var("NIMC_THREADS").ok().and_then(|s| s.parse().ok()).unwrap_or(8);
        let exe = std::env::current_exe().expect("current exe");
        let kids: Vec<_> = (0..n)
            .map(|i| std::process::Command::new(&exe).arg(if quick { "quick" } else { "thorough" }).arg("--slice").arg(format!("{i}/{n}")).stdout(std::process::Stdio::piped()).stderr(std::process::Stdio::null()).spawn().expect("start a slice"))
            .collect();
        let mut totals: std::collections::BTreeMap<String, u64> = Default::default();
        let mut order: Vec<String> = vec![];
        let mut all_ok = true;
        for k in kids {
            let o = k.wait_with_output().expect("slice output");
            let text = String::from_utf8_lossy(&o.stdout).to_string();
            let mut got = false;
            for line in text.lines() {
                if line.starts_with("C17S-VIOLATION") {
                    println!("{line}");
                } else if let Some(rest) = line.strip_prefix("C17S-RESULT ") {
                    got = true;
                    for kv in rest.split_whitespace() {
                        if let Some((k, v)) = kv.split_once('=') {
                            let v: u64 = v.parse().unwrap_or(0);
                            if !totals.contains_key(k) {
                                order.push(k.to_string());
                            }
                            let e = totals.entry(k.to_string()).or_insert(0);
                            if k == "cell_accesses_are_scheduling_points" { *e = v } else { *e += v }
                        }
                    }
                }
            }
            all_ok &= got;
        }
        if !all_ok {
            eprintln!("a slice of the programs did not finish");
            std::process::exit(101);
        }
        println!("C17S-RESULT {}", order.iter().map(|k| format!("{k}={}", totals[k])).collect::<Vec<_>>().join(" "));
        return;
    }
    nimc::driver::install_panic_hook();
    assert!(verif_hooks::install_sched_point(sched_hook));
    // accesses to std::cell types of the subject are scheduling points as well (verif_std::cell)
    assert!(verif_std::cell::install_point(sched_hook));
    let budget = if quick { 4.0e5 } else { 2.0e8 };
    // The number of scheduling points of an op (hooks; atomics are added by the scheduler itself)
    // must be measured inside an execution, because the subject's primitives are shuttle's.
    let pts: Arc<Mutex<Vec<Vec<u64>>>> = Arc::new(Mutex::new(vec![vec![0; 9]; KINDS.len()]));
    {
        let pts = pts.clone();
        EXPLORING.with(|c| c.set(true));
        shuttle::Runner::new(nimc::sched::PbDfs::single(), shuttle::Config::new()).run(
            move || {
                COUNTING.with(|c| c.set(true));
                for kind in 0..KINDS.len() {
                    let w = build(kind);
                    for op in 0..9 {
                        if (op == 5 || op >= 7) && kind == 2 {
                            continue;
                        }
                        POINTS.with(|c| c.set(0));
                        let _ = w.op(op);
                        pts.lock().unwrap()[kind][op] = POINTS.with(|c| c.get());
                    }
                }
                COUNTING.with(|c| c.set(false));
            },
        );
    }
    let pts = pts.lock().unwrap().clone();
    let mut programs = vec![];
    for kind in 0..KINDS.len() {
        let pairs: Vec<(usize, usize)> = if kind == 3 { vec![(1, 0), (0, 2), (4, 1)] } else { (0..5).flat_map(|a| (0..5).map(move |b| (a, b))).collect() };
        for (a, b) in pairs {
            programs.push(Program { kind, threads: vec![vec![a], vec![b]], fillers: 0 });
        }
        if kind != 2 {
            // two different values out of range, one of them asked twice
            programs.push(Program { kind, threads: vec![vec![3, 3], vec![6]], fillers: 0 });
            programs.push(Program { kind, threads: vec![vec![6, 6], vec![3]], fillers: 0 });
            programs.push(Program { kind, threads: vec![vec![3], vec![6]], fillers: 0 });
            programs.push(Program { kind, threads: vec![vec![6], vec![1]], fillers: 0 });
        }
        if kind == 0 || (kind == 1 && !quick) {
            let table_sizes: &[usize] = if quick { &[15] } else { &[7, 15, 63] };
            for &fillers in table_sizes {
                programs.push(Program { kind, threads: vec![vec![1], vec![0]], fillers });
                if !quick {
                    programs.push(Program { kind, threads: vec![vec![4], vec![1]], fillers });
                }
            }
        }
        if kind == 0 || kind == 1 {
            // batches long enough for code that spreads them over worker threads of its own
            programs.push(Program { kind, threads: vec![vec![8], vec![7]], fillers: 0 });
            programs.push(Program { kind, threads: vec![vec![7], vec![7]], fillers: 0 });
        }
        if kind == 0 || kind == 4 {
            // a 1100-element batch next to an out-of-range query and next to an ordinary query
            programs.push(Program { kind, threads: vec![vec![5], vec![3]], fillers: 0 });
            if !quick {
                programs.push(Program { kind, threads: vec![vec![5], vec![1]], fillers: 0 });
            }
        }
        if kind != 2 {
            programs.push(Program { kind, threads: vec![vec![1], vec![0], vec![2]], fillers: 0 });
            if !quick {
                programs.push(Program { kind, threads: vec![vec![1, 0], vec![2, 0]], fillers: 0 });
                programs.push(Program { kind, threads: vec![vec![0, 1], vec![1, 0]], fillers: 0 });
            }
        }
    }
    use std::sync::atomic::{AtomicU64, AtomicUsize, Ordering as AO};
    let (nprog, nsched, nviol, nfull, capped, nstopped) = (AtomicU64::new(0), AtomicU64::new(0), AtomicU64::new(0), AtomicU64::new(0), AtomicU64::new(0), AtomicU64::new(0));
    let t0 = std::time::Instant::now();
    let max_s: f64 = std::env::var("NIMC_C17S_MAX_S").ok().and_then(|s| s.parse().ok()).unwrap_or(if quick { 120.0 } else { 1500.0 });
    let next = AtomicUsize::new(0);
    let workers: usize = 1;
    if let Some((i, n)) = slice {
        let mut k = 0usize;
        programs.retain(|_| {
            k += 1;
            (k - 1) % n == i
        });
    }
    let run_one = |p: &Program| {
        struct Restore;
        impl Drop for Restore {
            fn drop(&mut self) {
                NO_HOOKS.with(|c| c.set(false));
            }
        }
        let _restore = Restore;
        NO_HOOKS.with(|c| c.set(p.threads.iter().flatten().any(|&o| o >= 7)));
        // size of the program: one execution under the default schedule counts every scheduling
        // decision (hook points *and* atomic / lock operations of the subject)
        let steps = Arc::new(std::sync::atomic::AtomicUsize::new(0));
        {
            let threads = p.threads.clone();
            let kind = p.kind;
            let fillers = p.fillers;
            let r = std::panic::catch_unwind(std::panic::AssertUnwindSafe(|| {
                shuttle::Runner::new(nimc::sched::PbDfs::probe(steps.clone()), shuttle::Config::new()).run(move || {
                    let w: Arc<Box<dyn Subject>> = Arc::new(build(kind));
                    let mut hs = vec![];
                    for (t, ops) in threads.iter().cloned().enumerate() {
                        let w2 = w.clone();
                        hs.push(shuttle::thread::spawn(move || { for &o in &ops { let _ = w2.op(o); } }));
                        if t == 0 {
                            for _ in 0..fillers {
                                let w3 = w.clone();
                                let _ = shuttle::thread::spawn(move || { let _ = w3.op(0); }).join();
                            }
                        }
                    }
                    for h in hs { let _ = h.join(); }
                })
            }));
            let _ = r;
        }
        let total = steps.load(std::sync::atomic::Ordering::SeqCst) as u64;
        let nt = p.threads.len() as u64;
        let seg: Vec<u64> = (0..nt).map(|_| total / nt + 1).collect();
        let est = interleavings(&seg).max(interleavings(&p.threads.iter().map(|ops| ops.iter().map(|&o| pts[p.kind][o]).sum::<u64>() + 2).collect::<Vec<_>>()));
        // every interleaving when that fits the budget, else every schedule with <= 2 preemptions
        // (<= 1 for programs with thousands of scheduling points)
        let bound = if est <= budget { usize::MAX } else if total > 3000 { 1 } else if !quick && total <= 300 { 3 } else { 2 };
        if t0.elapsed().as_secs_f64() > max_s {
            capped.fetch_add(1, AO::SeqCst);
            return;
        }
        let key = format!("instr:{}:{:?}{}:{}", KINDS[p.kind], p.threads, if p.fillers > 0 { format!("+{}fillers", p.fillers) } else { String::new() }, if bound == usize::MAX { "all".to_string() } else { format!("pb{bound}") }).replace(' ', "");
        if let Some(k) = &only {
            if k != &key {
                return;
            }
        }
        // sequential answers, computed inside an execution
        let canon: Arc<Mutex<Vec<Option<Out>>>> = Arc::new(Mutex::new(vec![None; 9]));
        {
            let canon = canon.clone();
            let kind = p.kind;
            let used: Vec<usize> = p.threads.iter().flatten().cloned().collect();
            let r = std::panic::catch_unwind(std::panic::AssertUnwindSafe(|| {
                shuttle::Runner::new(nimc::sched::PbDfs::single(), shuttle::Config::new()).run(move || {
                    for &o in &used {
                        let v = build(kind).op(o);
                        canon.lock().unwrap()[o] = Some(v);
                    }
                })
            }));
            if r.is_err() {
                // an op of the alphabet never panics on a fresh interpolator: it does so here because of
                // what earlier interpolators on this OS thread left behind
                nprog.fetch_add(1, AO::SeqCst);
                nviol.fetch_add(1, AO::SeqCst);
                println!("C17S-VIOLATION key={key} what={}: an op of the program panicked when run alone on a freshly built interpolator (after other interpolators had been used on the same OS thread)", KINDS[p.kind]);
                return;
            }
        }
        let canon = canon.lock().unwrap().clone();
        let first_bad: Arc<Mutex<Option<String>>> = Arc::new(Mutex::new(None));
        let fb = first_bad.clone();
        let threads = p.threads.clone();
        let kind = p.kind;
        let fillers = p.fillers;
        let mut cfg = shuttle::Config::new();
        cfg.failure_persistence = shuttle::FailurePersistence::None;
        // a program whose search is still running after its share of the wall time is stopped and counted
        let stopped = Arc::new(std::sync::atomic::AtomicBool::new(false));
        let per_program = if quick { 40.0 } else { 300.0 };
        let runner = shuttle::Runner::new(nimc::sched::PbDfs::new(bound).with_deadline(std::time::Instant::now() + std::time::Duration::from_secs_f64(per_program), stopped.clone()), cfg);
        let r = std::panic::catch_unwind(std::panic::AssertUnwindSafe(|| {
            runner.run(move || {
                let w: Arc<Box<dyn Subject>> = Arc::new(build(kind));
                let mut hs = vec![];
                for (t, ops) in threads.iter().cloned().enumerate() {
                    let w2 = w.clone();
                    hs.push(shuttle::thread::spawn(move || ops.iter().map(|&o| (o, w2.op(o))).collect::<Vec<_>>()));
                    if t == 0 {
                        for _ in 0..fillers {
                            let w3 = w.clone();
                            let _ = shuttle::thread::spawn(move || { let _ = w3.op(0); }).join();
                        }
                    }
                }
                for (t, h) in hs.into_iter().enumerate() {
                    for (o, got) in h.join().expect("thread") {
                        if Some(&got) != canon[o].as_ref() {
                            let m = format!("thread {t}: op {o} returned {:?} under this interleaving, sequentially {:?}", short(&got), canon[o].as_ref().map(short));
                            *fb.lock().unwrap() = Some(m.clone());
                            panic!("C17S schedule violation: {m}");
                        }
                    }
                }
            })
        }));
        nprog.fetch_add(1, AO::SeqCst);
        match r {
            Ok(n) => {
                nsched.fetch_add(n as u64, AO::SeqCst);
                if stopped.load(AO::SeqCst) {
                    nstopped.fetch_add(1, AO::SeqCst);
                } else if bound == usize::MAX {
                    nfull.fetch_add(1, AO::SeqCst);
                }
            }
            Err(_) => {
                nviol.fetch_add(1, AO::SeqCst);
                let m = first_bad.lock().unwrap().clone().unwrap_or_else(|| "the program panicked or dead-locked under the scheduler".to_string());
                println!("C17S-VIOLATION key={key} what={}: {m}", KINDS[p.kind]);
            }
        }
    };
    std::thread::scope(|sc| {
        for _ in 0..workers {
            sc.spawn(|| loop {
                EXPLORING.with(|c| c.set(true));
                let i = next.fetch_add(1, AO::SeqCst);
                if i >= programs.len() {
                    break;
                }
                run_one(&programs[i]);
            });
        }
    });
    println!(
        "C17S-RESULT programs={} every_interleaving={} schedules={} violations={} not_run_because_of_the_time_cap={} cell_accesses_are_scheduling_points={} searches_stopped_by_the_per_program_time_cap={}",
        nprog.load(AO::SeqCst), nfull.load(AO::SeqCst), nsched.load(AO::SeqCst), nviol.load(AO::SeqCst), capped.load(AO::SeqCst), verif_std::cell::WRAPPED as u8, nstopped.load(AO::SeqCst)
    );
}

fn short(o: &Out) -> String {
    match o {
        Ok(v) => format!("Ok(first {:e}, {} values)", v.first().map(|b| f64::from_bits(*b)).unwrap_or(f64::NAN), v.len()),
        Err(e) => format!("Err({e})"),
    }
}
