#!/bin/sh
# run_all.sh [quick|thorough] - run every registered check on /repo's current tree (rewrites evidence/)
cd "$(dirname "$(dirname "$(readlink -f "$0")")")" || exit 2
tier=${1:-quick}; bad=0
[ -z "$(git -C /repo status --porcelain)" ] || echo "WARNING: /repo has uncommitted changes"
for i in 01 02 03 04 05 06 07 08 09 10 11 12 13 14 15 16 17 18 19 20; do
  out=$(RUST_BACKTRACE=0 bin/check C$i $tier 2>/dev/null); code=$?
  echo "$out" | grep -E "^C$i |^VIOLATION|^KNOWN-FINDING|^MACHINERY" | head -3
  [ $code -ne 0 ] && { echo "  -> C$i exit $code"; bad=1; }
done
exit $bad
