#!/bin/sh
# instrument.sh - make the instrumented copy of /repo's working tree used by the C17 schedule
# exploration: the same sources, built as package `ndarray-interp-instr` (lib name unchanged) with
# `extern crate verif_std as std;` in front of lib.rs, so that every std::sync primitive the crate
# uses is shuttle's (each atomic access / lock operation becomes a scheduling point).
ROOT=${NIMC_ROOT:-$(dirname "$(dirname "$(readlink -f "$0")")")}
REPO=${NIMC_REPO:-/repo}
D="$ROOT/mc/.instr/ni"
mkdir -p "$D"
rsync -a --delete "$REPO/src/" "$D/src/" || exit 2
python3 - "$D" "$REPO" <<'PY' || exit 2
import re, sys
d = sys.argv[1]
src = open(sys.argv[2] + '/Cargo.toml').read()
# the [dependencies] table of the subject, verbatim
m = re.search(r'^\[dependencies\]\n(.*?)(?=^\[)', src, re.S | re.M)
deps = m.group(1) if m else 'ndarray = "0.16"\nnum-traits = "0.2"\nthiserror = "2.0"\n'
open(d + '/Cargo.toml', 'w').write(f'''[package]
name = "ndarray-interp-instr"
version = "0.0.0"
edition = "2021"
publish = false

[lib]
name = "ndarray_interp"
path = "src/lib.rs"

[dependencies]
{deps.strip()}
verif_std = {{ path = "../../verif_std" }}

[lints.rust]
unexpected_cfgs = {{ level = "warn", check-cfg = ['cfg(ndarray_interp_verif)'] }}
''')
p = d + '/src/lib.rs'
lines = open(p).read().split('\n')
for i, l in enumerate(lines):
    if re.match(r'^(use |mod |pub |extern |#\[|unsafe |fn |struct |enum |impl |type |const |static )', l):
        lines.insert(i, '// inserted by /verif/tools/instrument.sh\nextern crate verif_std as std;\n')
        break
else:
    sys.exit('no item found in lib.rs')
open(p, 'w').write('\n'.join(lines))
# thread_local! state must be per *simulated* thread: shuttle's threads are coroutines on one OS
# thread, std's macro would give them all the same storage. (Not in verif_hooks.rs: the harness's
# own counters. NIMC_INSTR_PLAIN=1 skips this: shuttle's LocalKey has no get / set shorthands.)
import os, glob
if os.environ.get('NIMC_INSTR_PLAIN') != '1':
    for f in glob.glob(d + '/src/**/*.rs', recursive=True):
        if f.endswith('verif_hooks.rs'):
            continue
        t = open(f).read()
        t2 = re.sub(r'(?<![\w:])thread_local!', '::verif_std::task_local!', t)
        if t2 != t:
            open(f, 'w').write(t2)
PY
