#!/usr/bin/env python3
"""Regenerates /verif/MANIFEST.json from the table below (single source of truth).
A property is claimed iff /verif/mc/src/bin/<id>.rs exists AND it is listed in CHECKS."""
import json, os, subprocess

ROOT = os.path.dirname(os.path.dirname(os.path.abspath(__file__)))

ENGINE = {
    "xspace": "E1 exhaustive enumeration of finite products of alphabets on the real code vs reference model",
    "words": "E2 exhaustive words over {<,=,>} / NaN masks against a spec automaton (product exploration)",
    "histories": "E3 breadth-first search over operation histories on one live interpolator",
    "schedules": "E4 shuttle DFS (unbounded or preemption-bounded) over thread interleavings at hook points and, on the instrumented build (mc/c17s, mc/verif_std, tools/instrument.sh), at every atomic / lock / std::cell operation (thread_local! per simulated thread, scoped threads of the crate simulated); failures on the normal build are confirmed by mc/src/baton.rs, a DFS over schedules of real OS threads",
}

# id -> (engine, technique, level text, level note, design ref)
CHECKS = {
    "C01": ("xspace", "bounded-exhaustive enumeration of axes x lanes x queries x entry points x data layouts on the real code; oracle = exact rational chord (linear-scan bracket)",
            "Every (axis, lane, query, entry point, layout) of a finite adversarial alphabet is executed on the real Linear strategy and compared with the exact chord; the control flow depends on the inputs only through order relations and ranks/strides, all of which the alphabet enumerates.",
            "tolerance 8 eps max(|y1|,|y2|); values are dyadic / ulp clusters within 2^40; exact rationals on i128 with double-double fallback", "5/C01"),
    "C02": ("xspace", "bounded-exhaustive enumeration of axis words x 33 boundary configurations x lanes; structural oracle on pieces recovered from the implementation's own samples",
            "Every built spline of the bounded space is sampled 8x per interval; interpolation, one-cubic-per-interval, C1 and C2 are decided from the recovered Hermite pairs, independent of which boundary rows are right.",
            "tolerances K eps scale (value), /h (S'), /h^2 (S''); n<=7 full products, n<=40 with <=2 non-unit intervals", "5/C02"),
    "C03": ("xspace", "bounded-exhaustive enumeration as C02; oracle A = end-condition residuals, oracle B = certified exact rational spline (dense solve of the defining equations)",
            "Each sampled value of each built spline is compared with the unique mathematical spline solved in exact rational arithmetic and certified against the textbook definition; end conditions are also checked as residuals for long axes.",
            "K=256 (mesh ratio<=8) / 16384 (ratio 64) eps*scale; exact reference only for n<=7", "5/C03"),
    "C04": ("xspace", "bounded-exhaustive enumeration of ordered axis pairs (non-square both ways) x lanes x query products x entry points x 5 data layouts; oracle = exact rational bilinear form",
            "Every cell/query class of every grid of the alphabet is executed on the real Bilinear strategy and compared with the exact blend of the cell found by two linear scans.",
            "tolerance 24 eps max|z|", "5/C04"),
    "C05": ("xspace", "bounded-exhaustive enumeration of strategies x entry points x query shapes x offending-element positions; oracle = closed-range predicate",
            "For every strategy and entry point every single-query class (ends, 1-2 ulp in/out, NaN, inf, MAX) and every position of one/two offending elements in batches of 8 shapes is executed; Ok iff all elements are in the closed range, otherwise Err(OutOfBounds), never a panic.",
            "axes from the value-set / word alphabets; 2-D on ordered axis pairs", "5/C05"),
    "C06": ("xspace", "bounded-exhaustive enumeration of strategies x axes x outside queries x 6 call forms; oracle = exact continuation of the end polynomial + bit-identity with the non-extrapolating twin",
            "Every extrapolating interpolator of the bounded space is compared in range bit-for-bit with its twin and outside with the exact end chord / certified exact end cubic / border bilinear form; no finite query may be rejected through any call form.",
            "outside tolerances scale with |t| (linear), 16 K |t|^3 (spline), (1+|tx|)(1+|ty|) (bilinear); far-field phase (2^10 .. 2^200 end-interval widths outside): the stored end piece is read from the Debug text of the interpolator and the answer must equal it within 64 eps of the magnitudes of its terms (unreadable text = case skipped, shown in the outcomes)", "5/C06"),
    "C07": ("xspace", "bounded-exhaustive enumeration of periodic axes x lanes x period counts k x base queries; oracle = certified exact periodic spline at the exactly wrapped float query",
            "Every query x + kP of the bounded space (k up to +-10^6, ulp neighbours of images of the range start, axes excluding the origin) is executed and compared with the exact periodic spline at the exactly wrapped argument.",
            "tolerance K eps scale + Lipschitz * rounding of the wrapped argument", "5/C07"),
    "C11": ("xspace", "exhaustive enumeration of every (length, initial guess, rank, query kind) up to the bound + subset axes + integer axes + storage forms; oracle = linear scan; hook counters prove every exit/guess relation was reached",
            "The lookup's control flow depends only on (n, guess, rank) and on rounding of the guess; every such combination up to n=40 and the adversarial rounding cases are executed on the real get_lower_index (contiguous, strided, reversed storage) and through Interp1D/Interp2D.",
            "precondition of the statement (finite span and quotient, representable integer span)", "5/C11"),
    "C12": ("words", "explicit exhaustive exploration of all relation words up to the length bound = product of the implementation automaton with the spec automaton; all NaN masks; deviation-bounded long words",
            "All words over {<,=,>} up to length 12/13 (more than enough to separate two automata of <=7 states), all NaN placements up to 8/9 elements, long words with <=2 deviations, for 4 element types and 3 storage forms, against a classifier written from the statement.",
            "none beyond the bounds", "5/C12"),
    "C15": ("xspace", "bounded-exhaustive enumeration of configurations x unit factors x shifts x lane pairs; differential oracle between pairs of real interpolators (bit-identical for exact transformations)",
            "Every configuration is rebuilt in converted units / shifted / with summed lanes and compared with the base interpolator: no hand-written expected value.",
            "bit-identity demanded only for powers of two, negation and exact grid shifts", "5/C15"),
    "C16": ("xspace", "bounded-exhaustive enumeration of 256 polynomials x every boundary pair the polynomial satisfies (one lane each, heterogeneous Individual build) x axes; oracle = exact polynomial value",
            "Every polynomial of the coefficient alphabet is reproduced by every admissible boundary pair on every axis of the bounded space, inside and outside the range.",
            "tolerance K eps scale (16 K |t|^3 outside)", "5/C16"),
    "C20": ("xspace", "bounded-exhaustive enumeration of axes x every single non-bracketing row/node/knot change x poison values; differential bit-identity oracle between twin interpolators on the same ordered query list",
            "Every single change outside the bracket (data value to NaN/inf/7.5, knot moved between its neighbours) is applied to a twin and compared bit for bit with the base wherever the bracket does not touch it; axes also stored with reversed memory order.",
            "bracket convention of C11 at interior knots", "5/C20"),
    "C08": ("xspace", "bounded-exhaustive enumeration of trailing shapes x data ranks x strategies x lane pairs; differential oracle: n-d interpolator vs per-lane interpolators, and bit-identity under poisoning of other lanes",
            "Every lane of every n-d data set of the bounded space is compared with the stand-alone interpolator of that lane, and is bit-identical when any other lane's values or boundary condition change.",
            "lane-vs-standalone compared within rounding (bit-identity reported as a statistic)", "5/C08"),
    "C09": ("xspace", "bounded-exhaustive enumeration of data dimension types x query dimension types x shapes x strategies; oracle = shape algebra + bitwise agreement of all entry points",
            "Every instantiation (data Ix1..Ix6/IxDyn, query Ix0..Ix4/IxDyn) and every shape of the alphabet incl. empty axes is executed through every entry point; results agree bit for bit and have shape query ++ trailing.",
            "none beyond the bounds", "5/C09"),
    "C10": ("xspace", "full-factorial enumeration of the builder decision table (every combination of simultaneous violations); oracle = validity predicate + admissible error kinds",
            "Every combination of rank, length, axis length, order pattern, boundary-array shape and periodic-end defect is fed to the real builders: valid iff no requirement violated, error kind among the violated ones, never a panic.",
            "a one-element axis counts as not strictly increasing", "5/C10"),
    "C13": ("xspace", "bounded-exhaustive enumeration of memory layouts of each array argument x entry points x ranks; differential bit-identity oracle against the all-C-order run",
            "Each argument (data, x, y, queries, buffer) takes every layout of the alphabet independently and in a 3-layout full product; results must be bit-identical to the standard-layout run and poison around strided buffers intact.",
            "none beyond the bounds", "5/C13"),
    "C14": ("xspace", "bounded-exhaustive enumeration of buffer shape variants x entry points x ranks on poisoned windows; oracle: correct shape => filled exactly, wrong shape => never Ok",
            "Every wrong buffer shape of the alphabet (each axis +-1, permutations, wrong rank, same element count) must be rejected, every right one filled completely with the surrounding poison intact.",
            "panic is the documented rejection", "5/C14"),
    "C17": ("histories", "BFS over all operation histories up to the depth bound on fresh interpolators (per-step oracle); stateless exhaustive / preemption-bounded DFS over thread interleavings (shuttle) at hook points and, on an instrumented build, at every atomic / lock operation; Send/Sync probed per instantiation",
            "All histories up to depth 3/4 over a 16-op alphabet incl. failing and panicking calls and a sibling interpolator, for 11 interpolators: every occurrence of an op returns the bits of a fresh interpolator. All interleavings (or all with <= 2-3 preemptions) of 2-3-thread programs return the sequential answers, explored twice; the same on a build of the current sources in which std::sync is shuttle's, so every atomic access of the crate is a scheduling point (std::cell accesses too; programs with filler threads, 2^15-element batches, two out-of-range queries). Histories over up to 131072 interpolators and queries from thread-local destructors at thread exit.",
            "sequential consistency; on the normal build shuttle's simulated threads share thread_local! state, so a failure there is reported only if it also fails with one OS thread per thread (baton explorer); programs too large for the budget are explored with a preemption bound, searches have a wall-time share (both reported; a stopped search makes the run non-exhaustive)", "5/C17 and 9"),
    "C18": ("xspace", "bounded-exhaustive enumeration of recording/failing custom strategies x decision-table inputs x entry points + fault injection at every call index of every batch",
            "A recording strategy observes every argument the library passes it for every input of the decision table and every entry point; a failing strategy fails at every call index; accessors are compared with the inputs.",
            "none beyond the bounds", "5/C18"),
    "C19": ("xspace", "exhaustive enumeration of the finite instantiation table (data dim x query dim x storage x element type x Interp1D/2D) with the cast monitor hook; fast path vs general path bitwise",
            "Every instantiation is executed; the hook inside cast_unchecked asserts type identity on every executed cast and counts casts, so a fast path taken for a non-identical type or not taken for Ix1 is reported.",
            "type_name equality is a monitor for type identity, not a UB detector", "5/C19"),
}

NOT_BUILT_REASON = "check not built yet (work in progress; planned in DESIGN.md section 5)"


def main():
    props = [json.loads(l) for l in open(os.path.join(ROOT, "properties.jsonl"))]
    checks, na = [], []
    for p in props:
        pid = p["id"]
        binf = os.path.join(ROOT, "mc", "src", "bin", pid.lower() + ".rs")
        subcrate = os.path.join(ROOT, "mc", pid.lower(), "src", "main.rs")
        if pid in CHECKS and (os.path.exists(binf) or os.path.exists(subcrate)):
            eng, tech, text, note, ref = CHECKS[pid]
            checks.append({
                "property_id": pid,
                "quick_cmd": f"bin/check {pid} quick",
                "thorough_cmd": f"bin/check {pid} thorough",
                "evidence_file": f"evidence/{pid}.json",
                "replay_cmd_template": "bin/check --replay {path}",
                "engine": eng,
                "level_claimed": {"category": "model_checking", "text": text, "design_ref": "DESIGN.md section " + ref},
                "level_note": note,
                "technique": tech,
            })
        else:
            na.append({"property_id": pid, "reason": NOT_BUILT_REASON})
    hook_commits = subprocess.run(["git", "-C", "/repo", "log", "--format=%H %s", "d2487b6..HEAD"], capture_output=True, text=True).stdout.strip().splitlines()
    hooks = [l.split()[0] for l in hook_commits if "verif hooks" in l]
    m = {
        "version": 1,
        "setup_cmd": "tools/instrument.sh && cd mc && CARGO_NET_OFFLINE=true cargo build --workspace --bins 2>&1 | tail -3 && cd c17s && CARGO_NET_OFFLINE=true cargo build 2>&1 | tail -2",
        "hooks": {
            "guard": "--cfg ndarray_interp_verif",
            "enable": "rustflags = [\"--cfg\", \"ndarray_interp_verif\"] in /verif/mc/.cargo/config.toml (the harness depends on /repo by path)",
            "baseline_off_cmd": "cd /repo && cargo test --workspace --no-fail-fast --offline",
            "source_commits": hooks,
            "add_only": True,
        },
        "engines": [{"name": k, "path": "mc/src", "serves_properties": [c["property_id"] for c in checks if c["engine"] == k] + (["C17"] if k == "schedules" else []), "kind_free_text": v} for k, v in ENGINE.items()],
        "checks": checks,
        "notes": "All checks run the real ndarray-interp built from /repo's working tree with the hook cfg on; exit 0 / 1 (+VIOLATION line) / 2 (machinery error). Genuine defects found were repaired by 'fix:' commits in /repo (see KNOWN_FINDINGS.txt).",
        "not_applicable": na,
    }
    json.dump(m, open(os.path.join(ROOT, "MANIFEST.json"), "w"), indent=1)
    print(f"claimed {len(checks)}, not applicable {len(na)}")


if __name__ == "__main__":
    main()
